"""Model-checking framework for prysm's semantic properties (see /verif/DESIGN.md)."""
from .core import ScopeUnit, HistoryUnit, Recorder, FAILED, jsonable   # noqa
