"""Bounded-exhaustive explorers over the real prysm implementation.

Three explorers share this file (DESIGN.md section 3):

* ScopeUnit   -- a finite, fully enumerated list of call configurations ("cases"); every case is
                 executed on the real code and judged by a reference model / invariant.
* HistoryUnit -- level-synchronous breadth-first search over operation sequences on real stateful
                 objects; a state is the event history reaching it (replayed on fresh objects),
                 deduplicated by a canonical, property-relevant key.
* faults are expressed as ScopeUnits whose cases are (file, cut position) pairs (C14).

A property module (props/cNN.py) exposes ``ID`` and ``plan(tier, seed) -> [units]``.
"""
import collections
import fnmatch
import functools
import hashlib
import inspect
import json
import math
import multiprocessing as mp
import os
import shutil
import sys
import threading
import time
import traceback

import numpy as np

try:     # `kill -USR1 <worker pid>` prints where a worker is (diagnosing a case that does not return)
    import faulthandler, signal
    faulthandler.register(signal.SIGUSR1, all_threads=True)
except Exception:   # noqa
    pass

ROOT = os.path.dirname(os.path.dirname(os.path.abspath(__file__)))
OUT = os.environ.get('VERIF_OUT') or ROOT     # evidence/ and replays/ go here (scratch runs against other trees set VERIF_OUT)
FAILED = object()          # marker returned by Recorder.call when the implementation raised


# ------------------------------------------------------------------------------------------------
# JSON helpers

def jsonable(x):
    if isinstance(x, dict):
        return {str(k): jsonable(v) for k, v in x.items()}
    if isinstance(x, (list, tuple)):
        return [jsonable(v) for v in x]
    if isinstance(x, (np.integer,)):
        return int(x)
    if isinstance(x, (np.floating,)):
        return float(x)
    if isinstance(x, (np.bool_,)):
        return bool(x)
    if isinstance(x, complex):
        return {'re': x.real, 'im': x.imag}
    if isinstance(x, np.ndarray):
        if x.size > 64:
            return {'shape': list(x.shape), 'dtype': str(x.dtype), 'head': jsonable(x.ravel()[:8].tolist())}
        return jsonable(x.tolist())
    if isinstance(x, float):
        if math.isnan(x):
            return 'nan'
        if math.isinf(x):
            return 'inf' if x > 0 else '-inf'
        return x
    if isinstance(x, (int, str, bool)) or x is None:
        return x
    if isinstance(x, (set, frozenset)):
        return sorted(jsonable(v) for v in x)
    return repr(x)


def case_key(case):
    return json.dumps(jsonable(case), sort_keys=True)


def short_hash(s):
    return hashlib.sha1(s.encode()).hexdigest()[:12]


# ------------------------------------------------------------------------------------------------
# Recorder: what a case runner talks to

class Recorder:
    """Collects evaluations, oracle comparisons, outcome class and violations of one case."""

    def __init__(self):
        self.evals = 0
        self.nontriv = False
        self.outcomes = []
        self.violations = []       # dicts: sig, msg
        self._h = hashlib.sha1()
        self.checks = 0
        self._prev_out = None
        self._hy_seen = set()

    # -- implementation calls ---------------------------------------------------------------
    def call(self, f, *a, sig=None, hygiene=True, **k):
        """Call the implementation; an exception is an outcome (and a violation), never a crash.

        Call hygiene (DESIGN 3.7), applied to every call unless hygiene=False:
          (a) ndarray arguments are snapshotted and must be unchanged afterwards;
          (b) the ndarray result(s) of the previous call of this case must not change during this call
              (results aliased to internal buffers / caches);
          (c) config.precision must be what it was before the call;
          (d) for the first call of every distinct (callable, argument shapes/dtypes) signature in this case the call is
              repeated with every >=2-D ndarray argument in Fortran order, and with the argument buffers overwritten in
              place by other content (identity-keyed caches); results must agree.
        """
        self.evals += 1
        name = getattr(f, '__qualname__', getattr(f, '__name__', repr(f)))
        hy = hygiene and HYGIENE
        if hy:
            arrs = _arrays_in(list(a) + [v for kk, v in k.items() if kk not in OUT_ARGS])
            snaps = [v.copy() for v in arrs]
            lists = [v for v in list(a) + [v for kk, v in k.items() if kk not in OUT_ARGS] if isinstance(v, (list, dict))]
            lsnaps = [_list_snap(v) for v in lists]
            rng_state = np.random.get_state()
            prev = self._prev_out
            prev_snaps = [(o, o.copy()) for o in prev[1]] if prev else []
            prec0 = _precision()
        try:
            out = f(*a, **k)
        except Exception as e:   # noqa
            self.violation(sig or f'{name}:exception',
                           f'{name} raised {type(e).__name__}: {e}')
            self.outcomes.append('exception')
            return FAILED
        if hy:
            for v, s0 in zip(arrs, snaps):
                if name.split('.')[-1] not in INPLACE_OK and not _same_array(v, s0):
                    self.violation(f'{name}:hygiene:input-mutated', f'{name} modified an array argument of shape {v.shape} in place')
            for v, s0 in zip(lists, lsnaps):
                if name.split('.')[-1] not in INPLACE_OK and _list_snap(v) != s0:
                    self.violation(f'{name}:hygiene:input-mutated', f'{name} modified a {type(v).__name__} argument in place (length {s0[0]} -> {len(v)})')
            for o, s0 in prev_snaps:
                if not _same_array(o, s0):
                    self.violation(f'{prev[0]}:hygiene:result-changed-by-later-call',
                                   f'an array returned by {prev[0]} was modified during a later call of {name} (result aliased to internal state)')
            if _precision() != prec0:
                self.violation(f'{name}:hygiene:precision-left-modified', f'{name} left config.precision changed')
                _set_precision(prec0)
            outs = _result_arrays(out)
            self._prev_out = (name, outs) if outs else None
            plain = _is_plain(f, name)      # not a bound method / lambda: owns no caller-visible state
            if (outs or (plain and _result_arrays(out, True))) and (arrs or plain) and not any(kk in OUT_ARGS for kk in k):
                key = (name, id(getattr(f, '__code__', f)), tuple((v.shape, str(v.dtype)) for v in arrs), tuple(sorted(k)),
                       tuple(repr(v)[:40] for v in list(a) + list(k.values()) if not isinstance(v, np.ndarray)) if not arrs else ())
                if key not in self._hy_seen:
                    self._hy_seen.add(key)
                    after = np.random.get_state()
                    try:
                        self._hygiene_variants(f, a, k, out, name, rng_state)
                    finally:
                        np.random.set_state(after)
        return out

    def _hygiene_variants(self, f, a, k, out, name, rng_state):
        ext = _is_plain(f, name)
        floor = 0.0
        for v in _arrays_in(list(a) + list(k.values())):
            if v.dtype.kind in 'fciu':
                fv = np.abs(v[np.isfinite(v)]) if v.dtype.kind in 'fc' else np.abs(v)
                if fv.size:
                    floor = max(floor, float(fv.max()))
        floor = max(floor, 1.0) if floor else 0.0
        small_in = any(v.dtype in (np.float32, np.complex64, np.float16) for v in _arrays_in(list(a) + list(k.values())))
        ref = [o.copy() for o in _result_arrays(out, ext)]
        # same buffers, new content: an identity-keyed cache would answer for the old content.  This variant runs FIRST, directly
        # after the original call and with the very same argument objects, so that a memo of "the most recent array" (one entry,
        # keyed on identity) is still primed when the buffers are overwritten; 1-D arrays are reversed, N-D arrays flipped on the
        # first and last axis.  The verdict is differential (same content through reused and through new objects), so it does not
        # depend on whether the flipped content is meaningful to the routine.
        fl = [v for v in _arrays_in(list(a) + list(k.values())) if v.ndim >= 1 and v.dtype.kind in 'fc' and v.size > 1 and v.flags.writeable]
        if fl:
            orig = [v.copy() for v in fl]
            flipped = [np.ascontiguousarray(v[::-1, ...][..., ::-1]) if v.ndim >= 2 else v[::-1].copy() for v in orig]
            if any(not _same_array(x, y) for x, y in zip(orig, flipped)):
                try:
                    self.evals += 2
                    for v, nv in zip(fl, flipped):
                        v[...] = nv
                    np.random.set_state(rng_state)
                    got = [o.copy() for o in _result_arrays(f(*a, **k), ext)]
                    fresh_a = [_map_arrays(v, np.copy) for v in a]
                    fresh_k = {kk: _map_arrays(v, np.copy) for kk, v in k.items()}
                    np.random.set_state(rng_state)
                    want = [o.copy() for o in _result_arrays(f(*fresh_a, **fresh_k), ext)]
                    if not _close_lists(got, want, floor, small_in):
                        self.violation(f'{name}:hygiene:stale-for-reused-buffer',
                                       f'{name} called again after its argument buffer was overwritten in place answers for the old content')
                except Exception:   # noqa  -- the flipped content may be outside the routine's domain: not judged
                    pass
                finally:
                    for v, o in zip(fl, orig):
                        v[...] = o
                # the calls above had the same shapes / dtypes and other content: the array(s) returned by the ORIGINAL call belong
                # to the caller and must still hold the original answer (a per-shape output buffer handed out again would not)
                now = _result_arrays(out, ext)
                if len(now) == len(ref) and any(not _same_array(x, y) for x, y in zip(now, ref)):
                    self.violation(f'{name}:hygiene:result-changed-by-later-call',
                                   f'the array returned by {name} was overwritten by a later call of {name} with arguments of the same shapes and other content (output buffer handed out twice)')
        # the identical call again (same global RNG state): the answer depends on the arguments only
        self.evals += 1
        try:
            np.random.set_state(rng_state)
            rep = _result_arrays(f(*[_map_arrays(v, np.copy) for v in a], **{kk: _map_arrays(v, np.copy) for kk, v in k.items()}), ext)
        except Exception as e:   # noqa
            self.violation(f'{name}:hygiene:not-repeatable', f'{name} raised {type(e).__name__} when the identical call was repeated: {e}')
            return
        if not _close_lists(rep, ref, floor, small_in):
            self.violation(f'{name}:hygiene:not-repeatable', f'{name} gives a different result when the identical call is repeated')
            return
        # call form: the same call with every positional argument handed over BY KEYWORD (a wrapper that forwards **kwargs but keys,
        # validates or re-binds on the positional tuple, or binds positions to the wrong names, answers differently)
        if a and '<lambda>' not in name and not isinstance(f, functools.partial):
            try:
                sigf = inspect.signature(f)
                ba = sigf.bind(*a, **k)
                kinds_ok = all(sigf.parameters[p].kind == inspect.Parameter.POSITIONAL_OR_KEYWORD for p in ba.arguments)
            except (TypeError, ValueError):
                kinds_ok = False
            if kinds_ok:
                self.evals += 1
                try:
                    np.random.set_state(rng_state)
                    kwr = _result_arrays(f(**{p: _map_arrays(v, np.copy) for p, v in ba.arguments.items()}), ext)
                    if not _close_lists(kwr, ref, floor, small_in):
                        self.violation(f'{name}:hygiene:keyword-call-form', f'{name} gives a different result when its positional arguments are passed by keyword ({list(ba.arguments)})')
                except Exception:   # noqa -- a wrapper that insists on positional arguments (functools.wraps hides its *args signature, e.g.
                    pass                      # prysm's jones_adapter on the pinned tree) refuses the form: not judged, only differing ANSWERS are
        # (e) a plain function's result belongs to the caller: scribbling on it must not change what the next identical call returns
        if _is_plain(f, name):
            outs = _result_arrays(out, True)
            saved = [o.copy() for o in outs]
            inputs_before = [_map_arrays(v, np.copy) for v in a]
            kw_before = {kk: _map_arrays(v, np.copy) for kk, v in k.items()}
            try:
                touched = False
                for o in outs:
                    if o.flags.writeable and o.dtype.kind in 'fciu':
                        o[...] = o * 0 + (7 if o.dtype.kind in 'iu' else 7.25)
                        touched = True
                if touched:
                    self.evals += 1
                    np.random.set_state(rng_state)
                    again = _result_arrays(f(*inputs_before, **kw_before), ext)
                    if not _close_lists(again, ref, floor, small_in):
                        self.violation(f'{name}:hygiene:result-shared-with-internal-state',
                                       f'after the caller wrote into the array returned by {name}, the next identical call returns the modified values (the result aliases a cache / module-level table)')
            except Exception:   # noqa
                pass
            finally:
                for o, sv in zip(outs, saved):
                    try:
                        o[...] = sv
                    except Exception:   # noqa
                        pass
        # non-contiguous views of every array argument (a slice of a larger array, a flipped axis): the same values must
        # give the same answer
        if any(v.ndim >= 1 and v.size > 1 for v in _arrays_in(list(a) + list(k.values()))):
            sa = [_map_arrays(v, _strided) for v in a]
            sk = {kk: _map_arrays(v, _strided) for kk, v in k.items()}
            self.evals += 1
            try:
                np.random.set_state(rng_state)
                o3 = _result_arrays(f(*sa, **sk), ext)
                if not _close_lists(o3, ref, floor, small_in):
                    self.violation(f'{name}:hygiene:memory-layout', f'{name} gives a different result for non-contiguous (strided, reversed-stride) views of its array arguments')
            except Exception as e:   # noqa
                self.violation(f'{name}:hygiene:memory-layout', f'{name} raised {type(e).__name__} for non-contiguous views of its array arguments: {e}')
        # Fortran-ordered copies of every >= 2-D array argument
        if any(v.ndim >= 2 and v.size > 1 for v in _arrays_in(list(a) + list(k.values()))):
            fa = [_map_arrays(v, _fortran) for v in a]
            fk = {kk: _map_arrays(v, _fortran) for kk, v in k.items()}
            self.evals += 1
            try:
                np.random.set_state(rng_state)
                o2 = _result_arrays(f(*fa, **fk), ext)
                if not _close_lists(o2, ref, floor, small_in):
                    self.violation(f'{name}:hygiene:memory-layout', f'{name} gives a different result for Fortran-ordered copies of its array arguments')
            except Exception as e:   # noqa
                self.violation(f'{name}:hygiene:memory-layout', f'{name} raised {type(e).__name__} for Fortran-ordered array arguments: {e}')
    def tick(self, n=1):
        self.evals += n

    # -- bookkeeping ------------------------------------------------------------------------
    def nontrivial(self, cond=True):
        if cond:
            self.nontriv = True

    def outcome(self, label):
        self.outcomes.append(str(label))

    def observe(self, *vals):
        """Feed observed values into the determinism digest."""
        for v in vals:
            if isinstance(v, np.ndarray):
                self._h.update(str(v.shape).encode() + str(v.dtype).encode())
                self._h.update(np.ascontiguousarray(v).tobytes())
            else:
                self._h.update(repr(v).encode())

    def digest(self):
        return self._h.hexdigest()

    def violation(self, sig, msg):
        self.violations.append({'sig': str(sig), 'msg': str(msg)[:2000]})

    # -- oracles ----------------------------------------------------------------------------
    def expect(self, cond, sig, msg=''):
        self.checks += 1
        if not bool(cond):
            self.violation(sig, msg)
            return False
        return True

    def expect_equal(self, got, want, sig, what=''):
        """Exact equality of arrays/scalars (shape, values; NaN == NaN)."""
        self.checks += 1
        if got is FAILED:
            return False
        try:
            g = np.asarray(got)
            w = np.asarray(want)
            self.observe(g)
            ok = g.shape == w.shape and bool(np.array_equal(g, w, equal_nan=True)) \
                if (g.dtype.kind in 'fc' or w.dtype.kind in 'fc') else \
                (g.shape == w.shape and bool(np.array_equal(g, w)))
        except Exception as e:   # noqa  -- un-comparable output is a wrong output
            ok = False
            what = f'{what} (uncomparable: {type(e).__name__}: {e})'
        if not ok:
            self.violation(sig, f'{what}: got {_fmt(got)} want {_fmt(want)}')
        return ok

    def expect_close(self, got, want, tol, sig, what=''):
        """|got - want| <= tol elementwise (tol scalar or array); shapes must agree; NaNs must match."""
        self.checks += 1
        if got is FAILED:
            return False
        try:
            g = np.asarray(got)
            w = np.asarray(want)
            self.observe(g)
            if g.shape != w.shape:
                self.violation(sig, f'{what}: shape {g.shape} != expected {w.shape}')
                return False
            if g.dtype.kind not in 'fciub' or w.dtype.kind not in 'fciub':
                self.violation(sig, f'{what}: non-numeric output dtype {g.dtype}')
                return False
            gn, wn = np.isnan(g) if g.dtype.kind in 'fc' else np.zeros(g.shape, bool), \
                np.isnan(w) if w.dtype.kind in 'fc' else np.zeros(w.shape, bool)
            if not np.array_equal(gn, wn):
                self.violation(sig, f'{what}: NaN pattern differs: got {_fmt(g)} want {_fmt(w)}')
                return False
            with np.errstate(invalid='ignore'):
                err = np.abs(np.where(gn, 0, g) - np.where(wn, 0, w))
            err = np.where(np.isnan(err), np.inf, err)   # inf-inf etc. -> mismatch unless both equal
            both_inf_equal = np.isinf(np.where(gn, 0, g)) & (np.where(gn, 0, g) == np.where(wn, 0, w))
            err = np.where(both_inf_equal, 0, err)
            bad = err > tol
            if np.any(bad):
                i = int(np.argmax(np.where(bad, err, -1)))
                idx = np.unravel_index(i, err.shape) if err.shape else ()
                self.violation(sig, f'{what}: max|err|={float(err.max()):.3e} > tol={float(np.max(tol)):.3e} '
                                    f'at {tuple(int(j) for j in idx)}: got {g[idx] if err.shape else g} '
                                    f'want {w[idx] if err.shape else w}')
                return False
            return True
        except Exception as e:   # noqa
            self.violation(sig, f'{what}: uncomparable output ({type(e).__name__}: {e}); got {_fmt(got)}')
            return False


HYGIENE = os.environ.get('VERIF_HYGIENE', '1') != '0'
try:
    with open(os.path.join(ROOT, 'mc', 'hygiene_allow.json')) as _f:
        INPLACE_OK = set(json.load(_f)['inplace_documented'])
except Exception:   # noqa
    INPLACE_OK = set()
OUT_ARGS = ('out', 'output', 'alphas', 'dst')     # keyword arguments documented as caller-supplied buffers the routine writes


def _arrays_in(vals):
    """ndarray arguments, including those one level down in list / tuple arguments (coefficient lists, mode lists)"""
    out = []
    for v in vals:
        if isinstance(v, np.ndarray):
            if v.size:
                out.append(v)
        elif isinstance(v, (list, tuple)):
            out.extend(w for w in v if isinstance(w, np.ndarray) and w.size)
    return out


def _list_snap(v):
    """(length, reprs of the non-array items) of a list / dict argument -- arrays inside are snapshotted separately"""
    items = list(v.items()) if isinstance(v, dict) else list(v)
    return (len(items), tuple(None if isinstance(w, np.ndarray) else repr(w)[:200] for w in items))


def _map_arrays(v, fn):
    if isinstance(v, np.ndarray):
        return fn(v)
    if isinstance(v, list):
        return [fn(w) if isinstance(w, np.ndarray) else w for w in v]
    if isinstance(v, tuple):
        return tuple(fn(w) if isinstance(w, np.ndarray) else w for w in v)
    return v


def _fortran(v):
    return np.asfortranarray(v) if v.ndim >= 2 else v


def _strided(v):
    """the same values as a non-contiguous view (every second element of a larger buffer along the last axis, and a
    negative-stride first axis for >= 2-D), as a slice of a user's larger array would be"""
    if v.ndim < 1 or v.size < 2:
        return v
    big = np.zeros(v.shape[:-1] + (2 * v.shape[-1],), dtype=v.dtype)
    if v.ndim >= 2:
        big[::-1, ..., ::2] = v
        return big[::-1, ..., ::2]
    big[::2] = v
    return big[::2]


def _is_plain(f, name):
    """a module-level function (possibly wrapped by functools.lru_cache / wraps), not a bound method, lambda or partial"""
    if '<lambda>' in name or inspect.ismethod(f) or isinstance(f, functools.partial) or inspect.isclass(f):
        return False
    return inspect.isfunction(f) or inspect.isfunction(getattr(f, '__wrapped__', None))


def _precision():
    try:
        from prysm.conf import config
        return config.precision
    except Exception:   # noqa
        return None


def _set_precision(p):
    try:
        from prysm.conf import config
        config.precision = 32 if p is np.float32 else 64
    except Exception:   # noqa
        pass


def _same_array(a, b):
    try:
        if a.shape != b.shape:
            return False
        if a.dtype.kind in 'fc':
            return bool(np.array_equal(a, b, equal_nan=True))
        return bool(np.array_equal(a, b))
    except Exception:   # noqa
        return True


def _result_arrays(out, ext=False):
    """plain ndarray results (a stateful object returned by a method is expected to change later); with ext=True, used only
    for the result comparisons of plain module-level functions, also the .data array of a returned container object"""
    if isinstance(out, np.ndarray):
        return [out] if out.size else []
    if isinstance(out, (tuple, list)):
        r = [o for o in out if isinstance(o, np.ndarray) and o.size]
        if ext:
            r += [o.data for o in out if not isinstance(o, np.ndarray) and isinstance(getattr(o, 'data', None), np.ndarray) and o.data.size]
        return r
    if ext and isinstance(getattr(out, 'data', None), np.ndarray) and out.data.size:
        return [out.data]
    return []


def _swap(v, olds, news):
    for o, n in zip(olds, news):
        if v is o:
            return n
    return v


def _close_lists(got, want, floor=0.0, small_in=False):
    if len(got) != len(want):
        return False
    for g, w in zip(got, want):
        if g.shape != w.shape:
            return False
        if g.dtype.kind not in 'fciub' or w.dtype.kind not in 'fciub':
            continue
        gn = np.isnan(g) if g.dtype.kind in 'fc' else np.zeros(g.shape, bool)
        wn = np.isnan(w) if w.dtype.kind in 'fc' else np.zeros(w.shape, bool)
        if not np.array_equal(gn, wn):
            return False
        gg = np.where(gn, 0, g)
        ww = np.where(wn, 0, w)
        fin = np.isfinite(gg) & np.isfinite(ww)
        if not np.array_equal(gg[~fin], ww[~fin]):
            return False
        scale = float(np.max(np.abs(ww[fin]))) if fin.any() else 0.0
        small = small_in or g.dtype in (np.float32, np.complex64) or w.dtype in (np.float32, np.complex64)   # small_in: a single-precision argument
        tol = (1e-4 if small else 1e-9) * max(scale, 1e-300) + (1e-6 if small else 1e-12) * floor   # floor: results that are pure cancellation noise of O(1) inputs
        if fin.any() and float(np.max(np.abs(gg[fin] - ww[fin]))) > tol:
            return False
    return True


def _fmt(x):
    try:
        a = np.asarray(x)
        if a.size <= 12:
            return repr(a.tolist())
        return f'array(shape={a.shape}, dtype={a.dtype}, head={a.ravel()[:6].tolist()})'
    except Exception:   # noqa
        return repr(x)[:200]


# ------------------------------------------------------------------------------------------------
# Units

class ScopeUnit:
    """A finite scope of cases, enumerated completely.

    cases : list of JSON-able case descriptions, ordered simplest first
    run   : run(case, seed, R: Recorder) -> None
    reset : optional callable executed before every case (ownership of library globals)
    rule  : text -- how the scope is generated and what makes a case non-trivial
    """
    kind = 'scope'

    def __init__(self, name, cases, run, rule, reset=None, chunk=None):
        self.name, self.cases, self.run, self.rule, self.reset, self.chunk = name, list(cases), run, rule, reset, chunk


class HistoryUnit:
    """Breadth-first search over event histories on real objects.

    inits   : list of JSON-able initial-state descriptions
    build   : build(init, history, seed) -> state object (fresh real objects, events replayed);
              must also run the oracle *of the last event* if it needs before/after comparison --
              for that, ``step`` is provided instead: see below
    events  : events(init, history, state) -> list of JSON-able enabled events
    apply   : apply(state, event, R) -> state  (executes the real operation; R for exceptions)
    fresh   : fresh(init, seed) -> state
    check   : check(state, init, history, R) -> None  (invariants / reference model in every state)
    canon   : canon(state) -> hashable, property-relevant canonical form
    depth   : maximum history length
    step_check : optional step_check(before_state_summary, event, state, R); summaries made by
              ``summary(state)`` just before the last event is applied
    """
    kind = 'history'

    def __init__(self, name, inits, fresh, events, apply, check, canon, depth, rule,
                 summary=None, step_check=None, reset=None):
        self.name, self.inits, self.fresh, self.events, self.apply = name, list(inits), fresh, events, apply
        self.check, self.canon, self.depth, self.rule = check, canon, depth, rule
        self.summary, self.step_check, self.reset = summary, step_check, reset


# ------------------------------------------------------------------------------------------------
# Worker side

_UNITS = None
_SEED = 0

# ---- hang watchdog (DESIGN 3.6b) -------------------------------------------------------------------
# A case that never returns (a search loop that does not terminate, LAPACK iterating for ever on inf while holding
# the interpreter lock) would otherwise hang the whole check.  Every worker publishes the case it is executing in a
# slot of shared memory (no system call per case); the master, while it waits for results, reads the slots and the
# workers' CPU times from /proc.  When a case has used more than HANG_CPU seconds of CPU (load independent) or
# HANG_WALL seconds of wall clock, the master kills that worker, reports a violation '<unit>:hang' for the case, counts
# the lost task as abandoned (evidence: exhaustive=false) and carries on with the other tasks (the pool replaces the worker).
HANG_CPU = float(os.environ.get('VERIF_HANG_CPU', 0) or 0)      # 0 = set by explore() from the tier
HANG_WALL = float(os.environ.get('VERIF_HANG_WALL', 0) or 0)
_NSLOTS = 256
_SLOTW = 6            # pid, seq, wall_start, cpu_start, unit index, case index (-1: see text buffer)
_TXT = 6000
_SLOTS = _SLOTTXT = _SLOTCTR = None
_MYSLOT = None
_WATCH = {'max_cpu': 0.0, 'cpu0': 0.0}


def _init_worker():
    global _MYSLOT
    if _SLOTCTR is None:
        return
    with _SLOTCTR.get_lock():
        _MYSLOT = _SLOTCTR.value % _NSLOTS
        _SLOTCTR.value += 1
    o = _MYSLOT * _SLOTW
    _SLOTS[o + 2] = 0.0
    _SLOTS[o + 1] = 0.0
    _SLOTS[o] = float(os.getpid())


def _case_begin(ui, index, case=None):
    _WATCH['cpu0'] = time.process_time()
    if _MYSLOT is None:
        return
    o = _MYSLOT * _SLOTW
    _SLOTS[o + 2] = 0.0                       # idle while the slot is being rewritten
    if index is None:
        txt = json.dumps(jsonable(case))[:_TXT - 1].encode('ascii', 'replace')
        _SLOTTXT[_MYSLOT * _TXT:_MYSLOT * _TXT + len(txt) + 1] = txt + b'\0'
    _SLOTS[o + 3] = _WATCH['cpu0']
    _SLOTS[o + 4] = float(ui)
    _SLOTS[o + 5] = float(-1 if index is None else index)
    _SLOTS[o + 1] += 1.0
    _SLOTS[o + 2] = time.time()


def _case_end():
    _WATCH['max_cpu'] = max(_WATCH['max_cpu'], time.process_time() - _WATCH['cpu0'])
    if _MYSLOT is not None:
        _SLOTS[_MYSLOT * _SLOTW + 2] = 0.0


def _proc_cpu(pid):
    try:
        with open(f'/proc/{pid}/stat') as f:
            t = f.read().rsplit(')', 1)[1].split()
        return (int(t[11]) + int(t[12])) / os.sysconf('SC_CLK_TCK')
    except Exception:   # noqa -- the process is gone
        return None


def _scan_hangs():
    """master side: kill workers whose current case exceeded the limits; return one violation record per kill"""
    out = []
    now = time.time()
    for k in range(min(_NSLOTS, _SLOTCTR.value)):
        o = k * _SLOTW
        pid, seq, w0, c0 = int(_SLOTS[o]), _SLOTS[o + 1], _SLOTS[o + 2], _SLOTS[o + 3]
        if pid <= 0 or w0 <= 0:
            continue
        cpu = _proc_cpu(pid)
        if cpu is None:
            _SLOTS[o] = 0.0
            continue
        used, wall = cpu - c0, now - w0
        if not (used > HANG_CPU or wall > HANG_WALL):
            continue
        if _SLOTS[o + 1] != seq or _SLOTS[o + 2] != w0:      # moved on in the meantime
            continue
        ui, idx = int(_SLOTS[o + 4]), int(_SLOTS[o + 5])
        try:
            os.kill(pid, 9)
        except Exception:   # noqa
            pass
        _SLOTS[o] = 0.0
        u = _UNITS[ui]
        if idx >= 0:
            case, extra = u.cases[idx], {'index': idx}
        else:
            raw = bytes(_SLOTTXT[k * _TXT:(k + 1) * _TXT]).split(b'\0', 1)[0].decode('ascii', 'replace')
            try:
                case = json.loads(raw)
            except Exception:   # noqa -- longer than the buffer
                case = {'truncated': raw[:2000]}
            extra = {}
        out.append({'unit': u.name, 'case': case, 'sig': f'{u.name}:hang', **extra,
                    'msg': f'the case did not return: {used:.0f} s of CPU time / {wall:.0f} s of wall clock used '
                           f'(limits {HANG_CPU:.0f} / {HANG_WALL:.0f} s; the longest case on the unchanged tree takes a small fraction of that); the worker was killed'})
    return out


def _run_gate(ui):
    """determinism gate: the first case of a scope unit twice in one process, identical observations"""
    u = _UNITS[ui]
    d = []
    for _ in range(2):
        R = Recorder()
        if u.reset:
            u.reset()
        _case_begin(ui, 0)
        try:
            u.run(u.cases[0], _SEED, R)
        except Exception:   # noqa
            pass
        finally:
            _case_end()
        d.append((R.digest(), [v['sig'] for v in R.violations], R.outcomes))
    return d


def _run_scope_chunk(args):
    ui, start, stop = args
    u = _UNITS[ui]
    evals = nontriv = checks = 0
    outcomes = collections.Counter()
    viols = []
    seen_sigs = set()
    nviol = 0
    _WATCH['max_cpu'] = 0.0
    for i in range(start, stop):
        case = u.cases[i]
        R = Recorder()
        if u.reset:
            u.reset()
        _case_begin(ui, i)
        try:
            u.run(case, _SEED, R)
        except Exception as e:   # noqa -- see DESIGN 3.6a: deterministic, silent on the pinned tree
            tb = traceback.format_exc(limit=6)
            R.violation(f'{u.name}:exception:{type(e).__name__}', f'unhandled {type(e).__name__}: {e}\n{tb}')
            R.outcomes.append('exception')
        finally:
            _case_end()
        evals += R.evals
        checks += R.checks
        nontriv += 1 if R.nontriv else 0
        outcomes.update(set(R.outcomes) or {'ok' if not R.violations else 'violation'})
        for v in R.violations:
            nviol += 1
            if v['sig'] not in seen_sigs and len(viols) < 500:
                seen_sigs.add(v['sig'])
                viols.append({'unit': u.name, 'index': i, 'case': case, **v})
    return ui, start, stop, evals, checks, nontriv, dict(outcomes), viols, nviol, _WATCH['max_cpu']


def _run_history_batch(args):
    """Expand a batch of frontier histories by one event each way."""
    ui, init_i, hists, bi = args
    u = _UNITS[ui]
    init = u.inits[init_i]
    out = []
    _WATCH['max_cpu'] = 0.0
    for h in hists:
        if u.reset:
            u.reset()
        R0 = Recorder()
        st = u.fresh(init, _SEED)
        for ev in h:
            st = u.apply(st, ev, R0)
        evs = u.events(init, h, st)
        for ev in evs:
            if u.reset:
                u.reset()
            R = Recorder()
            _case_begin(ui, None, {'init': init, 'history': h + [ev]})
            try:
                s = u.fresh(init, _SEED)
                for e in h:
                    s = u.apply(s, e, R)
                R.violations.clear()   # prefix was already judged when it was the last event
                before = u.summary(s) if u.summary else None
                s = u.apply(s, ev, R)
                R.tick()
                if u.step_check:
                    u.step_check(before, ev, s, R)
                u.check(s, init, h + [ev], R)
                key = u.canon(s)
            except Exception as e:   # noqa
                tb = traceback.format_exc(limit=6)
                R.violation(f'{u.name}:exception:{type(e).__name__}', f'unhandled {type(e).__name__}: {e}\n{tb}')
                key = ('exception', case_key(h + [ev]))
            finally:
                _case_end()
            out.append((h + [ev], key, R.evals, R.checks, R.nontriv, sorted(set(R.outcomes)),
                        [{'unit': u.name, 'case': {'init': init, 'history': h + [ev]}, **v} for v in R.violations]))
    return ui, init_i, out, bi, _WATCH['max_cpu']


# ------------------------------------------------------------------------------------------------
# Master side

class Stats:
    def __init__(self):
        self.evals = 0
        self.checks = 0
        self.cases = 0
        self.nontriv = 0
        self.states = 0
        self.transitions = 0
        self.max_depth = 0
        self.outcomes = collections.Counter()
        self.viols = []
        self.nviol = 0
        self.exhaustive = True
        self.samples = []
        self.units = []
        self.capped = None
        self.hangs = 0
        self.hang_units = {}
        self.wallcap = False
        self._sigs = {}

    def add_viols(self, viols):
        """keep, per (unit, signature), the violation with the smallest case index (scopes are ordered simplest-first)"""
        for v in viols:
            key = (v.get('unit'), v['sig'])
            i = self._sigs.get(key)
            if i is None:
                if len(self.viols) < 5000:
                    self._sigs[key] = len(self.viols)
                    self.viols.append(v)
            elif v.get('index', 1 << 60) < self.viols[i].get('index', 1 << 60):
                self.viols[i] = v



def _collect(it, ntasks, S, seen_hangs=None):
    """Yield the results of an imap_unordered iterator; tasks lost to the hang watchdog are turned into violations."""
    got = 0
    while got < ntasks:
        try:
            res = it.next(timeout=1.0)
            got += 1
            yield res
            continue
        except mp.TimeoutError:
            pass
        except StopIteration:
            return
        global HANG_CPU
        for rec in _scan_hangs():
            S.add_viols([rec])
            S.nviol += 1
            S.hangs += 1
            S.exhaustive = False
            S.hang_units[rec['unit']] = S.hang_units.get(rec['unit'], 0) + 1
            S.capped = 'cases that did not return, their tasks were abandoned: ' + ', '.join(f'{n} in unit {k}' for k, n in sorted(S.hang_units.items()))
            got += 1      # the task that worker was running will never deliver a result
            # the run is a violation from here on; further cases of the same kind only add detail, so wait less for them
            HANG_CPU = min(HANG_CPU, 60.0 if S.hangs < 4 else 20.0)


def explore(units, seed, workers, cap_s, t0, tier='quick'):
    global _UNITS, _SEED, HANG_CPU, HANG_WALL, _SLOTS, _SLOTTXT, _SLOTCTR
    _UNITS, _SEED = units, seed
    HANG_CPU = HANG_CPU or (120.0 if tier == 'quick' else 1200.0)
    HANG_WALL = HANG_WALL or 10 * HANG_CPU
    ctx = mp.get_context('fork')
    _SLOTS = ctx.RawArray('d', _NSLOTS * _SLOTW)
    _SLOTTXT = ctx.RawArray('c', _NSLOTS * _TXT)
    _SLOTCTR = ctx.Value('i', 0)
    return _explore(units, seed, workers, cap_s, t0)


def _explore(units, seed, workers, cap_s, t0):
    S = Stats()
    seen_hangs = set()
    ctx = mp.get_context('fork')
    with ctx.Pool(workers, initializer=_init_worker) as pool:
        for ui, u in enumerate(units):
            ut0 = time.time()
            if u.kind == 'scope':
                keys = {case_key(c) for c in u.cases}
                if len(keys) != len(u.cases):
                    raise RuntimeError(f'unit {u.name}: duplicate cases in scope ({len(u.cases)} vs {len(keys)} distinct)')
                n = len(u.cases)
                # determinism gate: first case twice, identical observations
                if n:
                    d = next(_collect(pool.imap_unordered(_run_gate, [ui]), 1, S, seen_hangs), None)
                    if d is not None and d[0] != d[1]:
                        # the runs are deterministic on the unchanged tree (seeds, hash seed, RNG state are owned), so a
                        # divergence means the implementation's answer depends on what ran before: that is a violation of the
                        # 'for every input' reading of the property, not a harness failure (DESIGN 3.6a)
                        S.add_viols([{'unit': u.name, 'index': 0, 'case': u.cases[0],
                                      'sig': f'{u.name}:determinism:first-case-replay-diverged',
                                      'msg': f'executing the first case twice in one process gave different observations: {str(d)[:600]}'}])
                        S.nviol += 1
                chunk = u.chunk or max(1, min(2000, n // (workers * 8) + 1))
                tasks = [(ui, s, min(n, s + chunk)) for s in range(0, n, chunk)]
                ue = un = uc = 0
                uo = collections.Counter()
                done = 0
                umaxcpu = 0.0
                for res in _collect(pool.imap_unordered(_run_scope_chunk, tasks), len(tasks), S, seen_hangs):
                    _, s, e, evals, checks, nontriv, outcomes, viols, nviol, mcpu = res
                    umaxcpu = max(umaxcpu, mcpu)
                    ue += evals
                    un += nontriv
                    uc += checks
                    uo.update(outcomes)
                    S.add_viols(viols)
                    S.nviol += nviol
                    done += e - s
                    if time.time() - t0 > cap_s:
                        S.exhaustive = False
                        S.capped = f'wall-clock cap {cap_s}s hit in unit {u.name} after {done}/{n} cases'
                        S.wallcap = True
                        pool.terminate()
                        break
                S.evals += ue
                S.checks += uc
                S.cases += done
                S.nontriv += un
                S.outcomes.update(uo)
                if n:
                    S.samples.append({'unit': u.name, 'case': jsonable(u.cases[0])})
                    if n > 2:
                        S.samples.append({'unit': u.name, 'case': jsonable(u.cases[n // 2])})
                S.units.append({'unit': u.name, 'kind': 'scope', 'cases': done, 'of': n, 'evaluations': ue,
                                'oracle_checks': uc, 'nontrivial': un, 'outcomes': dict(uo),
                                'wall_s': round(time.time() - ut0, 2), 'max_case_cpu_s': round(umaxcpu, 3), 'rule': u.rule})
                if S.wallcap:
                    break
            else:
                us = ut = ue = uc = un = 0
                umaxcpu = 0.0
                uo = collections.Counter()
                umax = 0
                for init_i, init in enumerate(u.inits):
                    if u.reset:
                        u.reset()
                    R = Recorder()
                    st = u.fresh(init, seed)
                    u.check(st, init, [], R)
                    for v in R.violations:
                        S.add_viols([{'unit': u.name, 'case': {'init': init, 'history': []}, **v}])
                        S.nviol += 1
                    seen = {u.canon(st)}
                    frontier = [[]]
                    depth = 0
                    while frontier and depth < u.depth:
                        depth += 1
                        bs = max(1, len(frontier) // (workers * 4) + 1)
                        tasks = [(ui, init_i, frontier[i:i + bs], bi) for bi, i in enumerate(range(0, len(frontier), bs))]
                        nxt = []
                        results = sorted(_collect(pool.imap_unordered(_run_history_batch, tasks), len(tasks), S, seen_hangs), key=lambda r: r[3])
                        umaxcpu = max([umaxcpu] + [r[4] for r in results])
                        for _, _, out, _, _ in results:       # deterministic order (sorted by batch index)
                            for h, key, evals, checks, nontriv, outcomes, viols in out:
                                ut += 1
                                ue += evals
                                uc += checks
                                un += 1 if nontriv else 0
                                uo.update(outcomes or ['ok' if not viols else 'violation'])
                                if viols:
                                    S.nviol += len(viols)
                                    S.add_viols(viols)
                                if key not in seen:
                                    seen.add(key)
                                    nxt.append(h)
                        umax = max(umax, depth)
                        frontier = nxt
                        if time.time() - t0 > cap_s:
                            S.exhaustive = False
                            S.capped = f'wall-clock cap {cap_s}s hit in unit {u.name} at depth {depth}'
                            S.wallcap = True
                            break
                    us += len(seen)
                    if init_i == 0 and frontier:
                        S.samples.append({'unit': u.name, 'init': jsonable(init), 'history': jsonable(frontier[len(frontier) // 2])})
                    elif init_i == 0:
                        S.samples.append({'unit': u.name, 'init': jsonable(init), 'history': []})
                    if S.wallcap:
                        break
                S.states += us
                S.transitions += ut
                S.evals += ue
                S.checks += uc
                S.nontriv += un
                S.max_depth = max(S.max_depth, umax)
                S.outcomes.update(uo)
                S.units.append({'unit': u.name, 'kind': 'history', 'initial_states': len(u.inits), 'states': us,
                                'transitions': ut, 'max_depth': umax, 'evaluations': ue, 'oracle_checks': uc,
                                'nontrivial': un, 'outcomes': dict(uo), 'wall_s': round(time.time() - ut0, 2),
                                'max_case_cpu_s': round(umaxcpu, 3), 'rule': u.rule})
                if S.wallcap:
                    break
    return S


# ------------------------------------------------------------------------------------------------
# known findings, replays, evidence

def load_known(pid):
    p = os.path.join(ROOT, 'known_findings.json')
    if not os.path.exists(p):
        return []
    with open(p) as f:
        return [k for k in json.load(f).get('findings', []) if k.get('property') == pid and k.get('status') == 'known']


def match_known(known, sig):
    for k in known:
        if fnmatch.fnmatchcase(sig, k['key']):
            return k
    return None


def write_replay(pid, seed, tier, v):
    d = os.path.join(OUT, 'replays', pid)
    os.makedirs(d, exist_ok=True)
    body = {'property': pid, 'seed': seed, 'tier': tier, 'unit': v.get('unit'), 'sig': v['sig'],
            'case': jsonable(v.get('case')), 'message': v['msg']}
    name = short_hash(json.dumps(body['case'], sort_keys=True) + v['sig'] + str(v.get('unit')))
    path = os.path.join(d, name + '.json')
    with open(path, 'w') as f:
        json.dump(body, f, indent=1)
    with open(os.path.join(d, name + '.py'), 'w') as f:
        f.write('"""Plain replay of one violating case, without the explorer.\n\n'
                f'run:  cd /verif && PYTHONPATH=/repo:/verif /venv/bin/python {os.path.join(d, name)}.py\n"""\n'
                f'import os, sys\nsys.path.insert(0, {ROOT!r})\n'
                'from mc.run import replay\n'
                f'sys.exit(replay({pid!r}, os.path.join(os.path.dirname(os.path.abspath(__file__)), {name + ".json"!r})))\n')
    return path


def write_evidence(pid, tier, seed, level, S, wall, assumptions, extra=None, known_seen=None):
    cov = {
        'evaluations': int(S.evals),
        'distinct_nontrivial': int(S.nontriv),
        'cases': int(S.cases),
        'oracle_checks': int(S.checks),
        'rule': ' || '.join(f"[{u['unit']}] {u['rule']}" for u in S.units) +
                ' || a case counts as non-trivial only when its runner marked it (an oracle compared at least one '
                'non-zero / non-degenerate quantity); scope cases are verified pairwise distinct before dispatch',
        'samples': S.samples[:12] or [{'note': 'no cases'}],
        'exhaustive': bool(S.exhaustive),
        'outcomes': dict(S.outcomes),
        'units': S.units,
    }
    if S.states:
        cov['states'] = int(S.states)
        cov['transitions'] = int(S.transitions)
        cov['traces_validated_against_impl'] = int(S.transitions)
        cov['max_depth'] = int(S.max_depth)
        cov['explanation'] = ('every explored transition is an execution of the real implementation (no separate model), '
                              'so every trace is validated against the implementation by construction')
    if S.capped:
        cov['cap_hit'] = S.capped
    cov['hang_watchdog'] = {'cpu_limit_s_per_case': HANG_CPU, 'wall_limit_s_per_case': HANG_WALL, 'tasks_abandoned': int(S.hangs),
                            'max_case_cpu_s': max([u.get('max_case_cpu_s', 0) for u in S.units] or [0])}
    if extra:
        cov.update(extra)
    ev = {'property_id': pid, 'tier': tier, 'seed': int(seed), 'level': level, 'coverage': cov,
          'assumptions': assumptions, 'wall_s': round(wall, 2), 'violations': int(S.nviol),
          'known_findings_seen': known_seen or []}
    d = os.path.join(OUT, 'evidence')
    os.makedirs(d, exist_ok=True)
    path = os.path.join(d, f'{pid}.json')
    tmp = path + '.tmp'
    with open(tmp, 'w') as f:
        json.dump(jsonable(ev), f, indent=1)
    os.replace(tmp, path)
    return path
