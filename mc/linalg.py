"""Data-dimension closure for linear / bilinear / quadratic maps (DESIGN.md 3.1).

A linear map on arrays of a given shape is decided by its action on a basis; enumerating the basis
completely makes the verdict hold for every input array of that shape.
"""
import numpy as np


def deltas(shape, dtype=float):
    """Every unit impulse of the given shape, in C order."""
    n = int(np.prod(shape))
    for k in range(n):
        d = np.zeros(n, dtype=dtype)
        d[k] = 1
        yield d.reshape(shape)


def operator_matrix(f, shape_in, complex_input=False, R=None):
    """Matrix of the linear map f acting on arrays of shape_in: column k = f(delta_k).ravel().

    complex_input=True feeds (1+0j)*delta (exercises complex-input branches);
    the i*delta columns can be obtained with ``imag_columns``.
    Returns (A, shape_out).  Raises whatever f raises (wrap f with R.call outside if needed).
    """
    cols = []
    shape_out = None
    for d in deltas(shape_in, complex if complex_input else float):
        out = np.asarray(f(d))
        if R is not None:
            R.tick()
        shape_out = out.shape
        cols.append(out.ravel())
    return np.stack(cols, axis=1), shape_out


def imag_columns(f, shape_in, R=None):
    """Columns f(i*delta_k) -- for a complex-linear map these must equal i * operator_matrix columns."""
    cols = []
    for d in deltas(shape_in, complex):
        out = np.asarray(f(1j * d))
        if R is not None:
            R.tick()
        cols.append(out.ravel())
    return np.stack(cols, axis=1)


def real_linear_matrix(f, shape_in, R=None):
    """Matrix over R^(2n) -> R^(2m) of a map that is only real-linear (e.g. involves conj)."""
    cr, _ = operator_matrix(f, shape_in, complex_input=True, R=R)
    ci = imag_columns(f, shape_in, R=R)
    top = np.concatenate([cr.real, ci.real], axis=1)
    bot = np.concatenate([cr.imag, ci.imag], axis=1)
    return np.concatenate([top, bot], axis=0)


def dense(shape, seed, salt=0, complex_=True):
    """One seeded dense generic array (the single non-basis representative per configuration)."""
    rng = np.random.default_rng([int(seed), int(salt), *[int(s) for s in shape]])
    a = rng.standard_normal(shape)
    if complex_:
        a = a + 1j * rng.standard_normal(shape)
    return a


def opnorm_bound(A):
    """Cheap upper bound of the operator 2-norm (Frobenius)."""
    return float(np.sqrt((np.abs(A) ** 2).sum()))
