"""Textbook discrete Fourier sums -- the reference model for C01/C02/C03/C05/C06.

Conventions (documented by prysm.fttools.MatrixDFTExecutor and fixed here as the reference):
  * coordinates of an axis of length n are  fftrange(n) = arange(n) - n//2   (origin at n//2);
  * forward  F[v,u] = (m Qy n Qx)^(-1/2)  sum_{y,x} f[y,x] exp(-2 pi i (Y_y V_v/(m Qy) + X_x U_u/(n Qx)))
    for an input of shape (m, n) (axis 0 = y, axis 1 = x), per-axis Q = (Qy, Qx) in AXIS order,
    inverse: the same with +2 pi i;
  * shift = (sx, sy) in (x, y) order, i.e. shift[0] belongs to axis 1 and shift[1] to axis 0; the
    output coordinate vectors are displaced:  U -> U - sx,  V -> V - sy   (a shifted transform may
    additionally carry a unit-modulus factor that depends on the output sample only).
"""
import numpy as np


def fftrange(n):
    return np.arange(n) - n // 2


def norm_pair(x):
    """scalar-or-pair -> (a0, a1) floats"""
    if np.ndim(x) == 0:
        return float(x), float(x)
    a = list(x)
    if len(a) != 2:
        raise ValueError(x)
    return float(a[0]), float(a[1])


def dft_matrix_1d(n_in, n_out, Q, shift, sign):
    """(n_out, n_in) matrix of the 1-D transform with output coordinates fftrange(n_out) - shift."""
    x = fftrange(n_in).astype(float)
    u = fftrange(n_out).astype(float) - float(shift)
    return np.exp(sign * 2j * np.pi * np.outer(u, x) / (n_in * Q)) / np.sqrt(n_in * Q)


def dft2_factors(shape_in, shape_out, Q, shift, forward=True):
    Qy, Qx = norm_pair(Q)
    sx, sy = norm_pair(shift)
    sign = -1 if forward else +1
    Ay = dft_matrix_1d(shape_in[0], shape_out[0], Qy, sy, sign)
    Ax = dft_matrix_1d(shape_in[1], shape_out[1], Qx, sx, sign)
    return Ay, Ax


def dft2(f, Q, shape_out, shift=(0, 0), forward=True):
    """Reference transform of a 2-D array by the explicit double sum (as two matrix products)."""
    f = np.asarray(f)
    if np.ndim(shape_out) == 0:
        shape_out = (int(shape_out), int(shape_out))
    Ay, Ax = dft2_factors(f.shape, shape_out, Q, shift, forward)
    return Ay @ f.astype(complex) @ Ax.T


def dft2_operator(shape_in, shape_out, Q, shift=(0, 0), forward=True):
    """Full operator matrix (prod(shape_out) x prod(shape_in)) acting on C-order ravelled arrays."""
    Ay, Ax = dft2_factors(shape_in, shape_out, Q, shift, forward)
    return np.kron(Ay, Ax)


def compare_operator(A_impl, A_ref, shifted, tol):
    """Judge an implementation operator against the reference.

    shifted=False: complex equality.  shifted=True: every output row of A_impl must be a
    unit-modulus multiple of the reference row (pure output phase, never modulus).
    Returns (ok, message, max_err).
    """
    if A_impl.shape != A_ref.shape:
        return False, f'operator shape {A_impl.shape} != {A_ref.shape}', np.inf
    if not np.all(np.isfinite(A_impl)):
        return False, 'non-finite entries in the implementation operator', np.inf
    if not shifted:
        err = float(np.max(np.abs(A_impl - A_ref))) if A_ref.size else 0.0
        return err <= tol, f'max |A_impl - A_ref| = {err:.3e} (tol {tol:.1e})', err
    j = np.argmax(np.abs(A_ref), axis=1)
    r = np.arange(A_ref.shape[0])
    d = A_impl[r, j] / A_ref[r, j]
    moderr = float(np.max(np.abs(np.abs(d) - 1)))
    err = float(np.max(np.abs(A_impl - d[:, None] * A_ref)))
    ok = moderr <= tol * np.sqrt(A_ref.shape[1]) * 4 and err <= tol
    return ok, f'row phase modulus error {moderr:.3e}, residual after removing a per-output-sample phase {err:.3e} (tol {tol:.1e})', max(err, moderr)


def selftest():
    """Cross-check the reference against numpy's FFT on the grids where they coincide."""
    rng = np.random.default_rng(0)
    for m in range(1, 8):
        for n in range(1, 8):
            f = rng.standard_normal((m, n)) + 1j * rng.standard_normal((m, n))
            want = np.fft.fftshift(np.fft.fft2(np.fft.ifftshift(f), norm='ortho'))
            got = dft2(f, 1, (m, n))
            assert np.allclose(got, want, atol=1e-12), (m, n)
            want = np.fft.fftshift(np.fft.ifft2(np.fft.ifftshift(f), norm='ortho'))
            got = dft2(f, 1, (m, n), forward=False)
            assert np.allclose(got, want, atol=1e-12), (m, n)
            A = dft2_operator((m, n), (m, n), 1)
            assert np.allclose((A @ f.ravel()).reshape(m, n), dft2(f, 1, (m, n)), atol=1e-12)
            assert np.allclose(A.conj().T @ A, np.eye(m * n), atol=1e-12)
    # integer shift == index roll of the output of a larger unshifted transform
    f = rng.standard_normal((5, 6))
    big = dft2(f, 2, (11, 13))
    sh = dft2(f, 2, (7, 9), shift=(1, -2))          # U -> U-1 (axis 1), V -> V+2 (axis 0)
    # output sample v has coordinate V_v + 2 -> equals big at coordinate V_v+2
    for v in range(7):
        for u in range(9):
            V = v - 3 + 2
            U = u - 4 - 1
            assert abs(sh[v, u] - big[V + 5, U + 6]) < 1e-12
