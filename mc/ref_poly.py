"""Exact-rational reference definitions of the polynomial families (C07) and exact-integer index maps (C11).

Everything here is a transcription of a textbook *definition* (explicit sums, factorial formulas,
Gram-Schmidt under the defining inner product) evaluated in ``fractions.Fraction`` -- no three-term
recurrences, no floating point before the final conversion, and nothing imported from prysm.

Sources: DLMF 18.5 (explicit forms of the classical orthogonal polynomials), Mason & Handscomb
(Chebyshev polynomials of the 3rd / 4th kind: V_n(cos t) = cos((n+1/2)t)/cos(t/2),
W_n(cos t) = sin((n+1/2)t)/sin(t/2)), Lidl/Mullen/Turnwald (Dickson polynomials), Born & Wolf
(Zernike radial polynomials), Noll 1976, ANSI Z80.28, Forbes 2007 / 2010 / 2012 (Q polynomials:
defined by slope / gradient orthonormality under the Chebyshev weight).
"""
import functools
import math
from fractions import Fraction as F


def frac(x):
    """Exact rational value of an int / float / numpy scalar (every binary float is a rational)."""
    if isinstance(x, F):
        return x
    if isinstance(x, int):
        return F(x)
    return F(float(x))          # float(np.float32(v)) is exact


def gbinom(a, k):
    """Generalised binomial coefficient a(a-1)...(a-k+1)/k! for rational a, integer k >= 0."""
    out = F(1)
    for i in range(k):
        out = out * (a - i) / (i + 1)
    return out


def _powers(x, n):
    p = [F(1)]
    for _ in range(n):
        p.append(p[-1] * x)
    return p


def horner(cs, x):
    """sum cs[k] x^k."""
    acc = F(0)
    for c in reversed(cs):
        acc = acc * x + c
    return acc


# ---------------------------------------------------------------------------------------------
# Jacobi family

@functools.lru_cache(None)
def _jacobi_w(n, a, b):
    return [gbinom(n + a, n - s) * gbinom(n + b, s) for s in range(n + 1)]


def jacobi(n, a, b, x):
    """DLMF 18.5.8:  P_n^(a,b)(x) = sum_s C(n+a, n-s) C(n+b, s) ((x-1)/2)^s ((x+1)/2)^(n-s)."""
    a, b, x = frac(a), frac(b), frac(x)
    w = _jacobi_w(n, a, b)
    u = _powers((x - 1) / 2, n)
    v = _powers((x + 1) / 2, n)
    return sum((w[s] * u[s] * v[n - s] for s in range(n + 1)), F(0))


def jacobi_hyp(n, a, b, x):
    """DLMF 18.5.7 (hypergeometric form about x = 1) -- second formulation, used by selftest."""
    a, b, x = frac(a), frac(b), frac(x)
    y = (1 - x) / 2
    term = gbinom(n + a, n)      # (a+1)_n / n!
    tot = term
    for k in range(n):
        term = term * (k - n) * (n + a + b + 1 + k) / ((a + 1 + k) * (k + 1)) * y
        tot += term
    return tot


def jacobi_h(n, a, b):
    """Squared norm of P_n^(a,b) under (1-x)^a (1+x)^b on [-1,1] (DLMF 18.3.1), float."""
    a, b = float(a), float(b)
    lg = math.lgamma
    if n == 0:
        return 2.0 ** (a + b + 1) * math.exp(lg(a + 1) + lg(b + 1) - lg(a + b + 2))
    return 2.0 ** (a + b + 1) / (2 * n + a + b + 1) * math.exp(lg(n + a + 1) + lg(n + b + 1) - lg(n + a + b + 1) - lg(n + 1))


@functools.lru_cache(None)
def _legendre_c(n):
    cs = [F(0)] * (n + 1)
    for k in range(n // 2 + 1):
        cs[n - 2 * k] = F((-1) ** k * math.comb(n, k) * math.comb(2 * n - 2 * k, n), 2 ** n)
    return cs


def legendre(n, x):
    """P_n(x) = 2^-n sum_k (-1)^k C(n,k) C(2n-2k,n) x^(n-2k)."""
    return horner(_legendre_c(n), frac(x))


@functools.lru_cache(None)
def _cheby1_c(n):
    if n == 0:
        return [F(1)]
    cs = [F(0)] * (n + 1)
    for k in range(n // 2 + 1):
        # T_n(x) = n/2 sum_k (-1)^k (n-k-1)! / (k! (n-2k)!) (2x)^(n-2k)
        cs[n - 2 * k] = F((-1) ** k * n * math.factorial(n - k - 1) * 2 ** (n - 2 * k), 2 * math.factorial(k) * math.factorial(n - 2 * k))
    return cs


@functools.lru_cache(None)
def _cheby2_c(n):
    if n < 0:
        return [F(0)]
    cs = [F(0)] * (n + 1)
    for k in range(n // 2 + 1):
        # U_n(x) = sum_k (-1)^k C(n-k,k) (2x)^(n-2k)
        cs[n - 2 * k] = F((-1) ** k * math.comb(n - k, k) * 2 ** (n - 2 * k))
    return cs


def _padadd(p, q, sq):
    n = max(len(p), len(q))
    return [(p[i] if i < len(p) else 0) + sq * (q[i] if i < len(q) else 0) for i in range(n)]


def cheby1(n, x):
    """T_n(cos t) = cos(n t)."""
    return horner(_cheby1_c(n), frac(x))


def cheby2(n, x):
    """U_n(cos t) = sin((n+1) t) / sin t."""
    return horner(_cheby2_c(n), frac(x))


def cheby3(n, x):
    """V_n(cos t) = cos((n+1/2) t) / cos(t/2) = U_n - U_(n-1)  (Mason & Handscomb 1.17)."""
    return horner(_padadd(_cheby2_c(n), _cheby2_c(n - 1), -1), frac(x))


def cheby4(n, x):
    """W_n(cos t) = sin((n+1/2) t) / sin(t/2) = U_n + U_(n-1)  (Mason & Handscomb 1.18)."""
    return horner(_padadd(_cheby2_c(n), _cheby2_c(n - 1), +1), frac(x))


# ---------------------------------------------------------------------------------------------
# Hermite, Laguerre, Dickson

@functools.lru_cache(None)
def _hermite_c(n, phys):
    cs = [F(0)] * (n + 1)
    nf = math.factorial(n)
    for m in range(n // 2 + 1):
        if phys:     # H_n = n! sum (-1)^m (2x)^(n-2m) / (m! (n-2m)!)
            cs[n - 2 * m] = F((-1) ** m * nf * 2 ** (n - 2 * m), math.factorial(m) * math.factorial(n - 2 * m))
        else:        # He_n = n! sum (-1)^m x^(n-2m) / (m! (n-2m)! 2^m)
            cs[n - 2 * m] = F((-1) ** m * nf, math.factorial(m) * math.factorial(n - 2 * m) * 2 ** m)
    return cs


def hermite_H(n, x):
    return horner(_hermite_c(n, True), frac(x))


def hermite_He(n, x):
    return horner(_hermite_c(n, False), frac(x))


@functools.lru_cache(None)
def _laguerre_c(n, a):
    return [(-1) ** i * gbinom(n + a, n - i) / math.factorial(i) for i in range(n + 1)]


def laguerre(n, a, x):
    """L_n^(a)(x) = sum_i (-1)^i C(n+a, n-i) x^i / i!   (DLMF 18.5.12)."""
    return horner(_laguerre_c(n, frac(a)), frac(x))


@functools.lru_cache(None)
def _dickson_c(n, a, kind):
    if n == 0:
        return [F(2 if kind == 1 else 1)]
    cs = [F(0)] * (n + 1)
    for i in range(n // 2 + 1):
        c = F(math.comb(n - i, i)) * (-a) ** i
        if kind == 1:
            c = c * F(n, n - i)
        cs[n - 2 * i] = c
    return cs


def dickson1(n, a, x):
    """D_n(x,a) = sum_i n/(n-i) C(n-i,i) (-a)^i x^(n-2i),  D_0 = 2."""
    return horner(_dickson_c(n, frac(a), 1), frac(x))


def dickson2(n, a, x):
    """E_n(x,a) = sum_i C(n-i,i) (-a)^i x^(n-2i)."""
    return horner(_dickson_c(n, frac(a), 2), frac(x))


# ---------------------------------------------------------------------------------------------
# Zernike

@functools.lru_cache(None)
def _zernike_c(n, m):
    cs = [F(0)] * (n + 1)
    f = math.factorial
    for k in range((n - m) // 2 + 1):
        cs[n - 2 * k] = F((-1) ** k * f(n - k), f(k) * f((n + m) // 2 - k) * f((n - m) // 2 - k))
    return cs


def zernike_radial(n, m, r):
    """R_n^m(r) = sum_k (-1)^k (n-k)! / (k! ((n+m)/2-k)! ((n-m)/2-k)!) r^(n-2k),  m >= 0, n-m even."""
    m = abs(m)
    assert n >= m and (n - m) % 2 == 0
    return horner(_zernike_c(n, m), frac(r))


def zernike_norm2(n, m):
    """Square of the orthonormalisation constant: 2(n+1)/(1+delta_m0) (Noll 1976)."""
    return F(2 * (n + 1), 2 if m == 0 else 1)


# ---------------------------------------------------------------------------------------------
# Forbes Q polynomials: Gram-Schmidt under the defining inner products, exact

def _M(p):
    """(2/pi) int_0^1 u^(2p) (1-u^2)^(-1/2) du = C(2p,p)/4^p."""
    return F(math.comb(2 * p, p), 4 ** p)


def _gs(G, N):
    """Gram-Schmidt from the Gram matrix G of a graded basis; returns rows c[n] (coefficients of the
    n-th orthogonal, un-normalised, element on the basis) and its squared norms."""
    cs, h = [], []
    for n in range(N + 1):
        c = [F(0)] * (N + 1)
        c[n] = F(1)
        for k in range(n):
            # <basis_n, q_k>
            ip = sum((cs[k][i] * G[n][i] for i in range(k + 1)), F(0))
            f = ip / h[k]
            for i in range(k + 1):
                c[i] -= f * cs[k][i]
        hn = sum((c[i] * c[j] * G[i][j] for i in range(n + 1) for j in range(n + 1)), F(0))
        cs.append(c)
        h.append(hn)
    return cs, h


@functools.lru_cache(None)
def qbfs_table(N):
    """Qbfs_n(u) = u^2 (1-u^2) q_n(u^2), slopes orthonormal:  (2/pi) int_0^1 S_m' S_n' (1-u^2)^(-1/2) du = delta_mn
    (Forbes 2007 eq. 2.4 ff).  Basis S_k = u^(2k+2) - u^(2k+4), k = 0..N.  Returns (cs, h): q_n(x) =
    sum_i cs[n][i] x^i / sqrt(h[n]) with the sign convention q_n(0) > 0."""
    def ip(j, k):      # <u^(2j), u^(2k)>' = 4jk M(j+k-1)
        return 4 * j * k * _M(j + k - 1)
    G = [[ip(i + 1, j + 1) - ip(i + 1, j + 2) - ip(i + 2, j + 1) + ip(i + 2, j + 2) for j in range(N + 1)] for i in range(N + 1)]
    cs, h = _gs(G, N)
    for n in range(N + 1):
        if cs[n][0] < 0:
            cs[n] = [-c for c in cs[n]]
    return cs, h


def qbfs(n, u, N=None):
    """(rational part, h) -- Qbfs_n(u) = rational / sqrt(h)."""
    cs, h = qbfs_table(N if N is not None else n)
    u = frac(u)
    x = u * u
    return x * (1 - x) * horner(cs[n][:n + 1], x), h[n]


@functools.lru_cache(None)
def q2d_table(m, N):
    """Radial part of Q_n^m, m >= 1:  R_n(u) = u^m q_n^m(u^2); gradients of R_n(u) cos(m t) orthonormal under
    (1/pi^2) int_0^1 int_0^2pi (.) (1-u^2)^(-1/2) dt du  (Forbes 2012 eq. 2.4).  Basis u^(m+2k)."""
    assert m >= 1
    G = [[F((m + 2 * i) * (m + 2 * j) + m * m, 2) * _M(m + i + j - 1) for j in range(N + 1)] for i in range(N + 1)]
    cs, h = _gs(G, N)
    for n in range(N + 1):
        if cs[n][0] < 0:
            cs[n] = [-c for c in cs[n]]
    return cs, h


def q2d_radial(n, m, u, N=None):
    """(rational part, h) -- radial factor of Q2d_n^m at u is rational / sqrt(h), m >= 1."""
    cs, h = q2d_table(m, N if N is not None else n)
    u = frac(u)
    return u ** m * horner(cs[n][:n + 1], u * u), h[n]


def qcon(n, u):
    """Qcon_n(u) = u^4 P_n^(0,4)(2u^2-1)  (Forbes 2007 eq. 3.5)."""
    u = frac(u)
    return u ** 4 * jacobi(n, 0, 4, 2 * u * u - 1)


# ---------------------------------------------------------------------------------------------
# index conventions (exact integers)

def isqrt_ceil(j):
    r = math.isqrt(j)
    return r if r * r == j else r + 1


def ansi_to_nm(j):
    """ANSI Z80.28 / OSA: j = (n(n+2)+m)/2, rows n = 0,1,2.., m = -n,-n+2,..,n."""
    # n = largest n with n(n+1)/2 <= j
    n = (math.isqrt(8 * j + 1) - 1) // 2
    k = j - n * (n + 1) // 2          # position inside the row, 0..n
    return n, -n + 2 * k


def noll_to_nm(j):
    """Noll 1976: rows n = 0,1,2..; inside a row |m| ascending; even j <-> cosine (m>0), odd j <-> sine (m<0)."""
    n = (math.isqrt(8 * (j - 1) + 1) - 1) // 2
    k = j - n * (n + 1) // 2 - 1      # 0..n inside the row
    # |m| sequence inside a row: n even: 0,2,2,4,4,..   n odd: 1,1,3,3,..
    if n % 2 == 0:
        am = 2 * ((k + 1) // 2)
    else:
        am = 2 * (k // 2) + 1
    if am == 0:
        return n, 0
    return n, am if j % 2 == 0 else -am


def noll_table(nmax):
    """Brute-force enumeration in the published order (independent of the closed form above)."""
    out = []
    j = 0
    for n in range(nmax + 1):
        ams = sorted(am for am in range(n + 1) if (n - am) % 2 == 0)
        for am in ams:
            if am == 0:
                j += 1
                out.append((n, 0))
            else:
                # two consecutive indices; the even one is the cosine (+m) term
                j1, j2 = j + 1, j + 2
                for jj in (j1, j2):
                    out.append((n, am if jj % 2 == 0 else -am))
                j += 2
    return out


def fringe_to_nm(j):
    """Fringe / University of Arizona: groups of constant n+|m| = 2g (g = 0,1,..) holding 2g+1 terms, the group
    starting at j = g^2+1; inside a group |m| descends from g to 0, cosine (+m) before sine (-m)."""
    g = isqrt_ceil(j) - 1
    k = j - g * g - 1                 # 0..2g
    am = g - k // 2
    n = 2 * g - am
    if am == 0:
        return n, 0
    return n, am if k % 2 == 0 else -am


def fringe_table(gmax):
    out = []
    for g in range(gmax + 1):
        for am in range(g, -1, -1):
            n = 2 * g - am
            if am == 0:
                out.append((n, 0))
            else:
                out.append((n, am))
                out.append((n, -am))
    return out


def nm_to_fringe(n, m):
    am = abs(m)
    g = (n + am) // 2
    return g * g + 1 + 2 * (g - am) + (1 if m < 0 else 0)


def xy_to_mn(j):
    """Code V style ordering with piston first: total degree d = 0,1,2,..; inside a degree x^d first, y^d last."""
    d = (math.isqrt(8 * (j - 1) + 1) - 1) // 2
    k = j - d * (d + 1) // 2 - 1
    return d - k, k


# ---------------------------------------------------------------------------------------------

def selftest():
    """Cross-check every exact definition against scipy.special / a second formulation."""
    import numpy as np
    from scipy import special as sp

    xs = [-1.0, -0.73, -0.2, 0.0, 0.31, 0.5, 0.9, 1.0]

    def close(a, b, tol, what):
        assert abs(a - b) <= tol * max(1.0, abs(b)), (what, a, b)

    for n in range(0, 14):
        for (a, b) in ((0, 0), (-0.5, 0.5), (0.3, -0.9), (2.5, 7.25), (0.5, -0.5), (1, 2), (0, 4)):
            for x in xs:
                e = jacobi(n, a, b, x)
                assert e == jacobi_hyp(n, a, b, x), ('jacobi two forms', n, a, b, x)
                close(float(e), float(sp.eval_jacobi(n, a, b, x)), 1e-10, ('jacobi', n, a, b, x))
        for x in xs:
            close(float(legendre(n, x)), float(sp.eval_legendre(n, x)), 1e-11, ('legendre', n, x))
            assert legendre(n, x) == jacobi(n, 0, 0, x)
            close(float(cheby1(n, x)), float(sp.eval_chebyt(n, x)), 1e-11, ('T', n, x))
            close(float(cheby2(n, x)), float(sp.eval_chebyu(n, x)), 1e-11, ('U', n, x))
            if abs(x) < 1:
                t = math.acos(x)
                close(float(cheby1(n, x)), math.cos(n * t), 1e-11, ('T trig', n, x))
                close(float(cheby2(n, x)), math.sin((n + 1) * t) / math.sin(t), 1e-10, ('U trig', n, x))
                close(float(cheby3(n, x)), math.cos((n + .5) * t) / math.cos(t / 2), 1e-10, ('V trig', n, x))
                close(float(cheby4(n, x)), math.sin((n + .5) * t) / math.sin(t / 2), 1e-10, ('W trig', n, x))
            # V_n, W_n as normalised Jacobi (DLMF 18.7.5/6 with the Mason-Handscomb naming)
            assert cheby3(n, x) == jacobi(n, -.5, .5, x) / jacobi(n, -.5, .5, 1)
            assert cheby4(n, x) == jacobi(n, .5, -.5, x) / jacobi(n, .5, -.5, 1) * (2 * n + 1)
            for xx in (x * 3, x * 0.5):
                close(float(hermite_H(n, xx)), float(sp.eval_hermite(n, xx)), 1e-11, ('H', n, xx))
                close(float(hermite_He(n, xx)), float(sp.eval_hermitenorm(n, xx)), 1e-11, ('He', n, xx))
            for a in (0, .5, -.5, 3.7):
                xx = (x + 1) * 4
                close(float(laguerre(n, a, xx)), float(sp.eval_genlaguerre(n, a, xx)), 1e-10, ('L', n, a, xx))
        # Dickson: functional equation D_n(y + a/y, a) = y^n + (a/y)^n ; E_n(y+a/y) (y - a/y) = y^(n+1) - (a/y)^(n+1)
        for a in (F(-1), F(0), F(1), F(1, 2)):
            for y in (F(2), F(-3, 2), F(1, 3)):
                x = y + a / y
                assert dickson1(n, a, x) == y ** n + (a / y) ** n, ('D', n, a, y)
                assert dickson2(n, a, x) * (y - a / y) == y ** (n + 1) - (a / y) ** (n + 1), ('E', n, a, y)
    # Zernike radial: R_n^m(r) = r^m P_k^(0,m)(2r^2-1), R_n^m(1) = 1
    for n in range(0, 13):
        for m in range(n % 2, n + 1, 2):
            assert zernike_radial(n, m, 1) == 1
            for r in (F(0), F(1, 3), F(7, 10)):
                assert zernike_radial(n, m, r) == r ** m * jacobi((n - m) // 2, 0, m, 2 * r * r - 1)
    # Qbfs: Forbes' published closed forms (Opt. Express 15, 5218 eq. A.8-ish): Q0=1, Q1=(13-16x)/sqrt19,
    # Q2 = 2[29-4x(25-19x)]/sqrt190, Q3 = 2[207-4x(315-x(577-320x))]/sqrt5090
    cs, h = qbfs_table(5)
    pub = {0: (lambda x: F(1), 1), 1: (lambda x: 13 - 16 * x, 19), 2: (lambda x: 2 * (29 - 4 * x * (25 - 19 * x)), 190),
           3: (lambda x: 2 * (207 - 4 * x * (315 - x * (577 - 320 * x))), 5090)}
    for n, (f, d) in pub.items():
        for x in (F(0), F(1, 3), F(9, 10), F(1)):
            a = float(horner(cs[n][:n + 1], x)) / math.sqrt(float(h[n]))
            close(a, float(f(x)) / math.sqrt(d), 1e-13, ('Qbfs published', n, x))
    # Q2d m>=1, n=0: u^m cos(m t) / (2 f_0^m),  f_0^m^2 = F_0^m = m^2 (2m-3)!! / (2^(m+1) (m-1)!)  (Forbes 2012 A.13) for m>1, 1/4 for m=1
    for m in range(1, 7):
        cs, h = q2d_table(m, 3)
        F0 = 0.25 if m == 1 else m * m * float(sp.factorial2(2 * m - 3)) / (2 ** (m + 1) * math.factorial(m - 1))
        close(float(cs[0][0]) / math.sqrt(float(h[0])), 1 / (2 * math.sqrt(F0)), 1e-13, ('Q2d n=0', m))
    # the same closed form in exact integer arithmetic up to m = 30 (beyond the int64 range of (2m-3)!! and 2^(m+1) (m-1)!)
    for m in range(2, 31):
        cs, h = q2d_table(m, 1)
        df = 1
        for k in range(2 * m - 3, 0, -2):
            df *= k
        F0 = F(m * m * df, 2 ** (m + 1) * math.factorial(m - 1))
        assert cs[0][0] ** 2 / h[0] == 1 / (4 * F0), ('Q2d n=0 exact', m)
    # index maps: closed forms against brute-force tables
    tab = noll_table(40)
    for j, nm in enumerate(tab, start=1):
        assert noll_to_nm(j) == nm, ('noll', j)
    assert tab[:11] == [(0, 0), (1, 1), (1, -1), (2, 0), (2, -2), (2, 2), (3, -1), (3, 1), (3, -3), (3, 3), (4, 0)]
    tab = fringe_table(30)
    for j, nm in enumerate(tab, start=1):
        assert fringe_to_nm(j) == nm and nm_to_fringe(*nm) == j, ('fringe', j)
    assert tab[:9] == [(0, 0), (1, 1), (1, -1), (2, 0), (2, 2), (2, -2), (3, 1), (3, -1), (4, 0)]
    j = 0
    for n in range(40):
        for m in range(-n, n + 1, 2):
            assert ansi_to_nm(j) == (n, m) and (n * (n + 2) + m) // 2 == j
            j += 1
    j = 1
    for d in range(40):
        for k in range(d + 1):
            assert xy_to_mn(j) == (d - k, k)
            j += 1
    assert [xy_to_mn(j) for j in (1, 2, 3, 4, 5, 6, 7, 10, 11, 16, 61)] == \
        [(0, 0), (1, 0), (0, 1), (2, 0), (1, 1), (0, 2), (3, 0), (0, 3), (4, 0), (5, 0), (5, 5)]
    return True


if __name__ == '__main__':
    selftest()
    print('ref_poly selftest ok')
