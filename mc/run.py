"""Entry point:  python -m mc.run <Cxx> [--tier quick|thorough] [--replay path] [--workers N]."""
import argparse
import importlib
import json
import os
import shutil
import sys
import time
import traceback

from . import core

ASSUME_COMMON = [
    'NumPy/SciPy arithmetic, FFT and linear algebra are correct',
    'the reference models under /verif/mc and /verif/props are correct (each is a direct transcription of the textbook definition; mc/selftest.py cross-checks them against second formulations)',
    'real-valued parameters are covered by the finite alphabets listed in the rule, sizes and orders up to the stated bounds',
]


def _load(pid):
    """Import the property module.  A failure to import *prysm* is a violation; a failure in /verif is exit 2."""
    try:
        return importlib.import_module(f'props.{pid.lower()}'), None
    except Exception as e:   # noqa
        tb = traceback.format_exc()
        frames = traceback.extract_tb(e.__traceback__)
        in_repo = any('/prysm/' in (fr.filename or '') and '/verif/' not in (fr.filename or '') for fr in frames)
        if in_repo or isinstance(e, ImportError) and 'prysm' in str(e):
            return None, tb
        raise


def main(argv=None):
    ap = argparse.ArgumentParser()
    ap.add_argument('pid')
    ap.add_argument('--tier', default=os.environ.get('VERIF_TIER', 'quick'), choices=['quick', 'thorough'])
    ap.add_argument('--replay', default=None)
    ap.add_argument('--workers', type=int, default=int(os.environ.get('VERIF_WORKERS', os.cpu_count() or 4)))
    ap.add_argument('--only', default=None, help='comma-separated unit-name prefixes (development aid; evidence marks exhaustive=false)')
    a = ap.parse_args(argv)
    pid = a.pid.upper()
    seed = int(os.environ.get('VERIF_SEED', '0') or 0)
    if a.replay:
        return replay(pid, a.replay)

    shutil.rmtree(os.path.join(core.OUT, 'replays', pid), ignore_errors=True)   # replays describe this run only
    t0 = time.time()
    cap_s = float(os.environ.get('VERIF_CAP_S', 900 if a.tier == 'quick' else 6 * 3600))
    mod, import_tb = _load(pid)
    if mod is None:
        S = core.Stats()
        S.evals = 1
        S.exhaustive = False
        v = {'unit': 'import', 'sig': 'import:prysm', 'case': {'import': f'props.{pid.lower()}'},
             'msg': 'importing the modules this property is anchored in failed:\n' + import_tb}
        path = core.write_replay(pid, seed, a.tier, v)
        S.nviol = 1
        S.samples = [{'unit': 'import', 'case': 'import prysm failed'}]
        core.write_evidence(pid, a.tier, seed, 'model_checking', S, time.time() - t0, ASSUME_COMMON,
                            extra={'distinct_nontrivial': 0})
        print(import_tb)
        print(f'VIOLATION property={pid} replay={path}')
        return 1

    units = mod.plan(a.tier, seed)
    if a.only:
        pre = tuple(a.only.split(','))
        units = [u for u in units if u.name.startswith(pre)]
    S = core.explore(units, seed, a.workers, cap_s, t0, a.tier)
    if a.only:
        S.exhaustive = False
        S.capped = f'--only {a.only}'

    known = core.load_known(pid)
    seen_known = {}
    fresh = {}
    for v in S.viols:
        k = core.match_known(known, v['sig'])
        if k is not None:
            seen_known.setdefault(k['key'], (k, v))
        else:
            fresh.setdefault(v['sig'], v)

    wall = time.time() - t0
    level = getattr(mod, 'LEVEL', 'model_checking')
    core.write_evidence(pid, a.tier, seed, level, S, wall,
                        ASSUME_COMMON + list(getattr(mod, 'ASSUMPTIONS', [])),
                        known_seen=[{'key': k, 'what': kv[0]['what']} for k, kv in sorted(seen_known.items())])
    tot = f"cases={S.cases} evaluations={S.evals} oracle_checks={S.checks} nontrivial={S.nontriv}"
    if S.states:
        tot += f" states={S.states} transitions={S.transitions} max_depth={S.max_depth}"
    print(f'[{pid}] tier={a.tier} seed={seed} {tot} outcomes={dict(S.outcomes)} exhaustive={S.exhaustive} wall={wall:.1f}s')
    for u in S.units:
        print(f"    unit {u['unit']}: " + ' '.join(f'{k}={u[k]}' for k in ('cases', 'states', 'transitions', 'evaluations', 'nontrivial', 'wall_s') if k in u)
              + f" outcomes={u['outcomes']}")
    if S.capped:
        print(f'[{pid}] NOT EXHAUSTIVE: {S.capped}')
    for key, (k, v) in sorted(seen_known.items()):
        print(f"KNOWN-FINDING: property={pid} {k['what']} [key={key}]")
    if fresh:
        n = 0
        for sig, v in sorted(fresh.items()):
            path = core.write_replay(pid, seed, a.tier, v)
            n += 1
            if n <= 25:
                print(f"  violation sig={sig} unit={v.get('unit')} case={json.dumps(core.jsonable(v.get('case')))[:300]}")
                print(f"     {v['msg'][:600]}")
                print(f'VIOLATION property={pid} replay={path}')
        if n > 25:
            print(f'  ... and {n - 25} more distinct violation signatures (replays written)')
        print(f'[{pid}] {S.nviol} violating oracle checks, {len(fresh)} distinct unlisted signatures')
        return 1
    return 0


def replay(pid, path):
    """Re-execute exactly one recorded case in this (fresh) process, without the explorer."""
    with open(path) as f:
        body = json.load(f)
    seed = int(body.get('seed', 0))
    mod, tb = _load(pid)
    if mod is None:
        print(tb)
        print(f'VIOLATION property={pid} replay={path}')
        return 1
    units = {u.name: u for u in mod.plan(body.get('tier', 'quick'), seed)}
    u = units.get(body['unit'])
    if u is None:
        print(f'unit {body["unit"]} not found in plan')
        return 2
    R = core.Recorder()
    if u.reset:
        u.reset()
    case = body['case']
    # a recorded case may be one that does not return: a C-level timer (no interpreter lock needed) ends the replay
    import faulthandler
    limit = float(os.environ.get('VERIF_HANG_WALL', 0) or 1200)
    print(f'replay of {path}: unit={u.name} case={json.dumps(case)[:400]}')
    print(f'  (if the case has not returned after {limit:.0f} s the replay ends with a traceback and exit status 1: '
          f'VIOLATION property={pid} replay={path} sig={u.name}:hang)' if str(body.get('sig', '')).endswith(':hang') else '', flush=True)
    faulthandler.dump_traceback_later(limit, exit=True)
    try:
        if u.kind == 'scope':
            # find the live case object equal to the recorded one (tuples vs lists after JSON)
            want = json.dumps(case, sort_keys=True)
            live = next((c for c in u.cases if core.case_key(c) == want), case)
            u.run(live, seed, R)
        else:
            want = json.dumps(case['init'], sort_keys=True)
            init = next((c for c in u.inits if core.case_key(c) == want), case['init'])
            st = u.fresh(init, seed)
            hist = case['history']
            for i, ev in enumerate(hist):
                before = u.summary(st) if (u.summary and i == len(hist) - 1) else None
                st = u.apply(st, ev, R)
                if i == len(hist) - 1 and u.step_check:
                    u.step_check(before, ev, st, R)
            u.check(st, init, hist, R)
    except Exception as e:   # noqa
        R.violation(f'{u.name}:exception:{type(e).__name__}', traceback.format_exc(limit=8))
    faulthandler.cancel_dump_traceback_later()
    if R.violations:
        for v in R.violations:
            print(f"  sig={v['sig']}\n     {v['msg']}")
        print(f'VIOLATION property={pid} replay={path}')
        return 1
    print('  no violation on this tree')
    return 0


if __name__ == '__main__':
    sys.exit(main())
