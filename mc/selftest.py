"""Framework self-test (MANIFEST.setup_cmd): nothing is built or fetched; this only checks that the
explorer and the reference models work in this sandbox, cross-checking each reference model against
an independent second formulation where one exists."""
import importlib
import sys
import os

sys.path.insert(0, os.path.dirname(os.path.dirname(os.path.abspath(__file__))))


def main():
    import numpy  # noqa
    from mc import core  # noqa
    n = 0
    for name in ('ref_dft', 'ref_poly'):
        try:
            m = importlib.import_module(f'mc.{name}')
        except ModuleNotFoundError:
            continue
        if hasattr(m, 'selftest'):
            m.selftest()
            n += 1
    # tiny end-to-end run of the explorer on a toy unit
    from mc import ScopeUnit
    u = ScopeUnit('toy', [{'i': i} for i in range(10)], _toy, 'toy')
    S = core.explore([u], 0, 2, 60, __import__('time').time())
    assert S.cases == 10 and S.nviol == 1, (S.cases, S.nviol)
    print(f'mc selftest ok ({n} reference-model cross-checks)')


def _toy(case, seed, R):
    R.expect(case['i'] != 7, 'toy:seven', 'seven')
    R.nontrivial()


if __name__ == '__main__':
    main()
