"""Ownership of prysm's module-level mutable state and of its random sources (DESIGN.md section 2)."""
import contextlib
import functools
import gc
import importlib

import numpy as truenp


def reset_executors(precision=64):
    """Canonical state of the shared transform executors and of the global precision."""
    from prysm import fttools
    from prysm.conf import config
    fttools.mdft.clear()
    fttools.czt.clear()
    config.precision = precision


_LRU = None


def _find_lru():
    global _LRU
    if _LRU is None:
        out = []
        for name in ('jacobi', 'cheby', 'legendre', 'hermite', 'laguerre', 'dickson', 'zernike', 'qpoly', 'xy'):
            try:
                m = importlib.import_module(f'prysm.polynomials.{name}')
            except Exception:   # noqa
                continue
            for k, v in vars(m).items():
                if hasattr(v, 'cache_clear') and hasattr(v, 'cache_info'):
                    out.append(v)
        _LRU = out
    return _LRU


def reset_poly_caches():
    for f in _find_lru():
        f.cache_clear()


def reset_all():
    reset_executors(64)
    reset_poly_caches()


class _NoNoiseRandom:
    """Stands in for numpy.random: every draw returns its mean (Poisson -> lam, normal -> loc)."""

    def poisson(self, lam=1.0, size=None):
        lam = truenp.asarray(lam, dtype=float)
        return truenp.broadcast_to(lam, size if size is not None else lam.shape).copy()

    def normal(self, loc=0.0, scale=1.0, size=None):
        loc = truenp.asarray(loc, dtype=float)
        return truenp.broadcast_to(loc, size if size is not None else loc.shape).copy()

    def __getattr__(self, k):
        return getattr(truenp.random, k)


class _NpProxy:
    def __init__(self, real):
        self._real = real
        self.random = _NoNoiseRandom()

    def __getattr__(self, k):
        return getattr(self._real, k)


@contextlib.contextmanager
def noise_free():
    """Swap prysm's numpy backend (public BackendShim seam) for one whose random draws are their means."""
    from prysm import mathops
    real = mathops.np._srcmodule
    mathops.np._srcmodule = _NpProxy(real)
    try:
        yield
    finally:
        mathops.np._srcmodule = real
