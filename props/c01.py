"""C01 -- FFT, matrix-DFT and chirp-Z propagation compute the same transform (the textbook sum).

Scope part: every (input shape, output shape, Q form, shift form) x {mdft, czt} x {forward, inverse}
x {precision 64, 32}; the data dimension is closed by the operator matrix (all real deltas, all
i*deltas -- iczt2 branches on complexness -- and one seeded dense complex array).
History part: BFS over the *shared* executors mdft / czt and config.precision.
"""
import math

import numpy as np

from mc import ScopeUnit, HistoryUnit, FAILED
from mc import ref_dft
from mc.linalg import dense, deltas
from mc.state import reset_executors

from prysm import fttools, propagation
from prysm.conf import config
from prysm.propagation import Wavefront

ID = 'C01'
ASSUMPTIONS = [
    'shift / Q / samples_out of the ENGINES (dft2, czt2, ...) are given in the documented forms (scalar or tuple); list-valued shift or samples_out (unhashable cache key) is outside the scope there; the public fixed-sampling wrappers are additionally driven with the shift as float64 ndarray, list and tuple of numpy scalars',
    'integer / boolean input arrays are outside the scope (real float and complex inputs, as the property says)',
    'accuracy demanded: 2e3 * eps of the coarser of (configured precision, input dtype)',
]

QS = [1, 2, 2.0, 1.5, 0.75, [1, 2], [2.5, 1.25], 'list:[2,1.5]']
SHIFTS = [[0, 0], 0, [1, 0], [0, -2], [0.5, 1.25], 'generic']
K_TOL = 2e3


def par(n):
    return 'odd' if n % 2 else 'even'


def shape_class(si, so):
    """coarse cell: square or not; whether some even-length axis maps onto an odd length (the parity transition
    where floor/ceil offsets differ); growing or shrinking"""
    sq = 'square' if si[0] == si[1] else 'nonsquare'
    e2o = 'even->odd' if any(a % 2 == 0 and b % 2 == 1 for a, b in zip(si, so)) else 'parity-other'
    return f'{sq}:{e2o}'


def shift_class(shift):
    a, b = ref_dft.norm_pair(shift)
    if a == 0 and b == 0:
        return 'noshift'
    return 'shift-int' if float(a).is_integer() and float(b).is_integer() else 'shift-frac'


def mk_Q(q):
    if isinstance(q, str):
        return [2, 1.5]           # passed as a list (third _key normalisation branch)
    if isinstance(q, list):
        return tuple(q)
    return q


def mk_shift(s, seed):
    if s == 'generic':
        rng = np.random.default_rng([seed, 77])
        return tuple(float(v) for v in np.round(rng.uniform(-2.5, 2.5, 2), 3))
    if isinstance(s, list):
        return tuple(s)
    return s


def q_class(q):
    if isinstance(q, (str, list)):
        return 'Q=per-axis'
    return 'Q=scalar'


def is_shifted(shift):
    a, b = ref_dft.norm_pair(shift)
    return a != 0 or b != 0


def engine(method, fwd):
    if method == 'mdft':
        return fttools.mdft.dft2 if fwd else fttools.mdft.idft2
    return fttools.czt.czt2 if fwd else fttools.czt.iczt2


def impl_operator(R, f, shape_in, sig, mult=1.0, dtype=float):
    """columns f(mult*delta_k); returns matrix or None (violation recorded)"""
    cols = []
    for d in deltas(shape_in, dtype):
        out = R.call(f, d * mult, sig=sig + ':exception')
        if out is FAILED:
            return None
        out = np.asarray(out)
        cols.append(out.ravel())
    try:
        return np.stack(cols, axis=1)
    except Exception:   # noqa
        R.violation(sig + ':ragged', 'outputs for different deltas have different shapes')
        return None


def check_engine(R, f, shape_in, shape_out, Q, shift, fwd, prec, seed, sig, in_dtype=float):
    eps = max(np.finfo(np.float32 if prec == 32 else np.float64).eps, np.finfo(in_dtype).eps)
    tol = K_TOL * eps
    Aref = ref_dft.dft2_operator(shape_in, shape_out, Q, shift, fwd)
    shifted = is_shifted(shift)
    A = impl_operator(R, f, shape_in, sig, 1.0, in_dtype)
    if A is None:
        return
    ok, msg, err = ref_dft.compare_operator(A, Aref, shifted, tol)
    R.checks += 1
    R.observe(A)
    if not ok:
        R.violation(sig, f'real-delta operator vs textbook sum: {msg}')
        return
    cdt = np.complex64 if in_dtype == np.float32 else complex
    Ai = impl_operator(R, f, shape_in, sig + ':complex-in', 1j, cdt)
    if Ai is None:
        return
    R.checks += 1
    if Ai.shape != A.shape or not np.all(np.abs(Ai - 1j * A) <= tol):
        R.violation(sig + ':complex-in', f'f(i*delta) != i*f(delta): max dev {float(np.max(np.abs(Ai - 1j * A))) if Ai.shape == A.shape else "shape"}')
        return
    x = dense(shape_in, seed, salt=shape_out[0] * 31 + shape_out[1]).astype(cdt)
    xin = x.copy()
    out = R.call(f, xin, sig=sig + ':exception')
    if out is FAILED:
        return
    R.expect_equal(xin, x, sig + ':input-mutated', 'the transform modified its input array')
    want = (A @ x.ravel().astype(complex))
    scale = float(np.sqrt(np.sum(np.abs(x) ** 2)))
    R.expect_close(np.asarray(out).ravel() if np.asarray(out).shape == tuple(shape_out) else out, want,
                   tol * max(1.0, scale), sig + ':dense', 'f(dense) vs operator-matrix @ dense (linearity / no sparse special-casing)')
    R.nontrivial(A.size > 1)
    return A


INT_KINDS = ('int64', 'int32', 'uint8', 'bool')


def check_engine_int_input(R, f, shape_in, shape_out, A, tol, sig):
    """integer and boolean fields (a binary mask used as the pupil, a camera frame): the same numbers as the float array of the same
    values -- one labelled array and the first / last delta per dtype, against the operator matrix of the float deltas"""
    n = shape_in[0] * shape_in[1]
    lab = (np.arange(n).reshape(shape_in) * 3 + 1) % 11
    for kind in INT_KINDS:
        arrays = [lab % 2 == 0] if kind == 'bool' else [lab.astype(kind)]
        for pos in (0, n - 1):
            d = np.zeros(n, dtype=bool if kind == 'bool' else kind)
            d[pos] = 1
            arrays.append(d.reshape(shape_in))
        for x in arrays:
            xin = x.copy()
            out = R.call(f, xin, sig=sig + f':{kind}-in:exception')
            if out is FAILED:
                break
            R.expect_equal(xin, x, sig + ':input-mutated', 'the transform modified its input array')
            want = (A @ x.ravel().astype(complex)).reshape(shape_out)
            if not R.expect_close(out, want, tol * max(1.0, float(np.sqrt(np.sum(x.astype(float) ** 2)))), sig + ':int-in',
                                  f'{kind} input array vs the float array of the same values (operator matrix of the float deltas)'):
                break


def run_engines(case, seed, R):
    si, so = case['in'], case['out']
    Q = mk_Q(case['Q'])
    shift = mk_shift(case['shift'], seed)
    Qr = ref_dft.norm_pair(Q)
    for prec in (64, 32):
        for method in ('mdft', 'czt'):
            for fwd in (True, False):
                reset_executors(prec)
                try:
                    f0 = engine(method, fwd)
                    name = {('mdft', True): 'dft2', ('mdft', False): 'idft2', ('czt', True): 'czt2', ('czt', False): 'iczt2'}[(method, fwd)]
                    sig = f"{name}:{shape_class(si, so)}:{q_class(case['Q'])}:{shift_class(shift)}"
                    samples_out = tuple(so) if (so[0] != so[1] or case['shift'] == 0) else so[0]
                    f = lambda a: f0(a, Q, samples_out, shift)   # noqa
                    A = check_engine(R, f, tuple(si), tuple(so), Qr, shift, fwd, prec, seed, sig)
                    if prec == 64 and A is not None:
                        check_engine_int_input(R, f, tuple(si), tuple(so), A, K_TOL * np.finfo(float).eps, sig)
                    if prec == 32 and method == 'czt':
                        # float32 input: the chirp-Z executor computes in the input dtype
                        check_engine(R, f, tuple(si), tuple(so), Qr, shift, fwd, prec, seed, sig + ':f32in', np.float32)
                finally:
                    config.precision = 64
    R.outcome('shifted' if is_shifted(shift) else 'unshifted')


# ---------------------------------------------------------------------------------------------
# padded-FFT route

def wf_repeat(R, w, meth, args, kwargs, out, sig):
    """A propagation method leaves the Wavefront it was called on as it was, and calling it again gives the same answer
    (the answer depends on the arguments, not on which transforms the object went through before)."""
    if out is FAILED:
        return
    d0, dx0 = w._verif_snapshot
    R.expect(np.asarray(w.data).shape == d0.shape and np.array_equal(np.asarray(w.data), d0) and w.dx == dx0,
             sig + ':object-state-changed', f'{meth} changed the Wavefront it was called on (data shape {d0.shape} -> {np.asarray(w.data).shape}, dx {dx0} -> {w.dx})')
    again = R.call(getattr(w, meth), *args, **kwargs)
    if again is not FAILED:
        same = np.asarray(again.data).shape == np.asarray(out.data).shape and np.array_equal(np.asarray(again.data), np.asarray(out.data)) and again.dx == out.dx
        R.expect(same, sig + ':second-call-differs', f'calling {meth} twice on one Wavefront with the same arguments gave different results '
                                                     f'(shapes {np.asarray(out.data).shape} / {np.asarray(again.data).shape}, dx {out.dx} / {again.dx})')


def snap(w):
    w._verif_snapshot = (np.array(w.data, copy=True), w.dx)
    return w


def run_fft(case, seed, R):
    si, Q = tuple(case['in']), case['Q']
    so = tuple(math.ceil(s * Q) for s in si)
    Qeff = (so[0] / si[0], so[1] / si[1])
    for prec in (64, 32):
        reset_executors(prec)
        try:
            eps = np.finfo(np.float32 if prec == 32 else np.float64).eps
            for fwd, fn, wname in ((True, propagation.focus, 'focus'), (False, propagation.unfocus, 'unfocus')):
                sig = f'{wname}:{shape_class(si, so)}'
                Aref = ref_dft.dft2_operator(si, so, Qeff, (0, 0), fwd)
                # numpy's FFT of float64 input is float64 whatever config says; tolerance by configured precision
                A = impl_operator(R, lambda a: fn(a, Q), si, sig, 1.0, complex)   # noqa
                if A is None:
                    continue
                ok, msg, err = ref_dft.compare_operator(A, Aref, False, K_TOL * eps)
                R.checks += 1
                if not ok:
                    R.violation(sig, f'padded FFT route vs textbook sum on its own grid ({si}->{so}, per-axis Q={Qeff}): {msg}')
                    continue
                x = dense(si, seed, 5)
                got = R.call(fn, x.copy(), Q)
                R.expect_close(got, (Aref @ x.ravel()).reshape(so), K_TOL * eps * 10, sig + ':dense', 'dense input')
                # the same grid through the two fixed-sampling engines
                for method in ('mdft', 'czt'):
                    g = R.call(engine(method, fwd), x.copy(), Qeff, so, (0, 0))
                    if got is not FAILED:
                        R.expect_close(g, np.asarray(got), K_TOL * eps * 10, f'{wname}-vs-{method}:{shape_class(si, so)}',
                                       f'{method} on the padded-FFT grid differs from the FFT route')
                # Wavefront wrapper returns the same field
                if prec == 64:
                    w = snap(Wavefront(x.copy(), 0.5, 0.1, space='pupil' if fwd else 'psf'))
                    out = R.call(w.focus if fwd else w.unfocus, 10.0, Q)
                    if out is not FAILED and got is not FAILED:
                        R.expect_close(out.data, np.asarray(got), 0, 'Wavefront.' + sig, 'Wavefront wrapper differs from the function')
                    wf_repeat(R, w, 'focus' if fwd else 'unfocus', (10.0, Q), {}, out, 'Wavefront.' + wname)
            R.nontrivial(si != (1, 1))
        finally:
            config.precision = 64
    R.outcome('fft')


# ---------------------------------------------------------------------------------------------
# public fixed-sampling wrappers (unit conversion of Q and shift); square arrays only here --
# non-square physical consistency is the business of C03 / C05

def run_wrappers(case, seed, R):
    n, N, q, sh, wvl, efl, dxi = tuple(case['n']), tuple(case['N']), case['dxo_rel'], case['shift'], case['wvl'], case['efl'], case['dxi']
    # physical sampling: one dx per plane; the textbook sum then has a per-axis Q = wvl*efl/(n_axis*dxi*dxo)
    dxo = wvl * efl / (n[0] * dxi) / q            # q == Q along axis 0
    Qf = tuple(wvl * efl / (na * dxi * dxo) for na in n)
    shift_units = (sh[0] * dxo, sh[1] * dxo)
    eps = np.finfo(float).eps
    x = dense(n, seed, 9)
    sq = 'square' if n[0] == n[1] else 'nonsquare'
    # argument forms of the shift: the SAME objects are handed to every call of the case (both methods, both directions), so a routine
    # that converts the units in place on the caller's object (np.asarray(shift) is the caller's array when it is float64) is seen both
    # by the hygiene layer and by the later calls that receive the rescaled values
    shp_units = (sh[0] * dxi, sh[1] * dxi)
    forms_f = {'ndarray': np.array(shift_units, dtype=float), 'list': [float(v) for v in shift_units], 'npscalars': tuple(np.float64(v) for v in shift_units)} if any(sh) else {}
    forms_u = {'ndarray': np.array(shp_units, dtype=float), 'list': [float(v) for v in shp_units], 'npscalars': tuple(np.float64(v) for v in shp_units)} if any(sh) else {}
    for method in ('mdft', 'czt'):
        reset_executors(64)
        # focus: pupil n, dx=dxi -> focal N, dx=dxo
        sig = f'focus_fixed_sampling:{method}:{shape_class(n, N)}:{shift_class(sh)}'
        ref = ref_dft.dft2(x, Qf, N, sh, True)
        got = R.call(propagation.focus_fixed_sampling, x.copy(), dxi, efl, wvl, dxo, N if N[0] != N[1] else N[0], shift=shift_units, method=method)
        _cmp_phase(R, got, ref, any(sh), K_TOL * eps * 10, sig)
        for fname, fobj in forms_f.items():
            g2 = R.call(propagation.focus_fixed_sampling, x.copy(), dxi, efl, wvl, dxo, N, shift=fobj, method=method)
            if got is not FAILED:
                R.expect_close(g2, got, K_TOL * eps * 10 * max(1.0, float(np.abs(ref).max())), f'focus_fixed_sampling:{method}:shift-form:{fname}',
                               f'shift given as {fname} vs the same shift given as a tuple of floats')
        w = snap(Wavefront(x.copy(), wvl, dxi, 'pupil'))
        out = R.call(w.focus_fixed_sampling, efl, dxo, N, shift=shift_units, method=method)
        wf_repeat(R, w, 'focus_fixed_sampling', (efl, dxo, N), {'shift': shift_units, 'method': method}, out, f'Wavefront.focus_fixed_sampling:{method}')
        if out is not FAILED:
            _cmp_phase(R, out.data, ref, any(sh), K_TOL * eps * 10, 'Wavefront.' + sig)
            R.expect(out.dx == dxo and out.space == 'psf', 'Wavefront.focus_fixed_sampling:meta', 'dx/space of result')
        # unfocus: focal N, dx=dxo -> pupil n, dx=dxi ; 1/(N_axis Q'_axis) = dxi*dxo/(wvl*efl)
        X = dense(N, seed, 11)
        Qp = tuple(wvl * efl / (Na * dxo * dxi) for Na in N)
        shp = (sh[0] * dxi, sh[1] * dxi)
        ref = ref_dft.dft2(X, Qp, n, sh, False)
        sig = f'unfocus_fixed_sampling:{method}:{shape_class(N, n)}:{shift_class(sh)}'
        got = R.call(propagation.unfocus_fixed_sampling, X.copy(), dxo, efl, wvl, dxi, n if n[0] != n[1] else n[0], shift=shp, method=method)
        _cmp_phase(R, got, ref, any(sh), K_TOL * eps * 10, sig)
        for fname, fobj in forms_u.items():
            g2 = R.call(propagation.unfocus_fixed_sampling, X.copy(), dxo, efl, wvl, dxi, n, shift=fobj, method=method)
            if got is not FAILED:
                R.expect_close(g2, got, K_TOL * eps * 10 * max(1.0, float(np.abs(ref).max())), f'unfocus_fixed_sampling:{method}:shift-form:{fname}',
                               f'shift given as {fname} vs the same shift given as a tuple of floats')
        w = snap(Wavefront(X.copy(), wvl, dxo, 'psf'))
        out = R.call(w.unfocus_fixed_sampling, efl, dxi, n, shift=shp, method=method)
        wf_repeat(R, w, 'unfocus_fixed_sampling', (efl, dxi, n), {'shift': shp, 'method': method}, out, f'Wavefront.unfocus_fixed_sampling:{method}')
        if out is not FAILED:
            _cmp_phase(R, out.data, ref, any(sh), K_TOL * eps * 10, 'Wavefront.' + sig)
    R.nontrivial(n != (1, 1))
    R.outcome('wrappers:' + sq)


def _cmp_phase(R, got, ref, shifted, tol, sig):
    if got is FAILED:
        return
    g = np.asarray(got)
    R.checks += 1
    if g.shape != ref.shape:
        R.violation(sig, f'shape {g.shape} != {ref.shape}')
        return
    if not shifted:
        R.expect_close(g, ref, tol, sig, 'field vs textbook sum')
    else:
        R.expect_close(np.abs(g), np.abs(ref), tol, sig, 'modulus of shifted field vs textbook sum')


# ---------------------------------------------------------------------------------------------
# size thresholds: fast paths, blocking, next_fast_len, dtype promotion kick in at sizes far above the exhaustive
# lattice.  A finite alphabet of sizes around powers of two / typical block sizes, three inputs each (delta at the
# origin, delta at the last sample, seeded dense), every engine, against the separable textbook sum.

def _probe_inputs(shape, seed):
    o = np.zeros(shape)
    o[shape[0] // 2, shape[1] // 2] = 1
    c = np.zeros(shape)
    c[-1, -1] = 1
    return [('origin', o), ('corner', c), ('dense', dense(shape, seed, 41))]


def run_large(case, seed, R):
    si, so, Q, shift = tuple(case['in']), tuple(case['out']), case['Q'], tuple(case['shift'])
    eps = np.finfo(float).eps
    big = max(si + so)
    tol = 200 * eps * big ** 1.5
    for prec in (64, 32) if big <= 300 else (64,):
        for method in ('mdft', 'czt'):
            for fwd in (True, False):
                reset_executors(prec)
                try:
                    name = {('mdft', True): 'dft2', ('mdft', False): 'idft2', ('czt', True): 'czt2', ('czt', False): 'iczt2'}[(method, fwd)]
                    sig = f"{name}:large:{shape_class(si, so)}:{shift_class(shift)}"
                    e = eps if prec == 64 else np.finfo(np.float32).eps
                    for label, x in _probe_inputs(si, seed):
                        ref = ref_dft.dft2(x, Q, so, shift, fwd)
                        got = R.call(engine(method, fwd), x.copy(), Q, so, shift, sig=sig + ':exception')
                        _cmp_phase(R, got, ref, is_shifted(shift), 200 * e * big ** 1.5 * max(1.0, float(np.abs(ref).max())), sig)   # chirp phases grow like n, accumulation like sqrt(n); measured honest error <= 14 eps n^1.5
                finally:
                    config.precision = 64
    # padded-FFT route on its own grid
    if case.get('fft'):
        Qf = case['fft']
        sp = tuple(math.ceil(s * Qf) for s in si)
        Qeff = (sp[0] / si[0], sp[1] / si[1])
        for fwd, fn, wname in ((True, propagation.focus, 'focus'), (False, propagation.unfocus, 'unfocus')):
            for label, x in _probe_inputs(si, seed):
                xc = x.astype(complex)
                ref = ref_dft.dft2(xc, Qeff, sp, (0, 0), fwd)
                got = R.call(fn, xc.copy(), Qf)
                R.expect_close(got, ref, tol * max(1.0, float(np.abs(ref).max())), f'{wname}:large:{shape_class(si, sp)}', f'{wname} {si} Q={Qf} input {label}')
    R.nontrivial()
    R.outcome('large')


# ---------------------------------------------------------------------------------------------
# history exploration of the shared executors

def _hist_inputs(seed):
    a = dense((4, 4), seed, 21, complex_=False)
    return {
        'r44': a,
        'c44': dense((4, 4), seed, 22),
        'r45': dense((4, 5), seed, 23, complex_=False),
        'f44': a.astype(np.float32),
        'cA': dense((3, 4), seed, 24),
        'cB': dense((5, 6), seed, 25),
    }


CALLS = {
    # name: (executor attr, method, input key, Q, samples_out, shift, forward)
    'm_fwd_Q2':       ('mdft', 'dft2', 'r44', 2, 4, (0, 0), True),
    'm_fwd_Q2.0_tup': ('mdft', 'dft2', 'c44', 2.0, (4, 4), 0, True),        # same cache key as above after normalisation
    'm_inv_Q2':       ('mdft', 'idft2', 'c44', 2, 4, (0, 0), False),        # same geometry, other direction
    'm_fwd_45':       ('mdft', 'dft2', 'r45', (2, 2), (4, 4), (0, 0), True),
    'm_fwd_shift':    ('mdft', 'dft2', 'r44', 2, 4, (1, 0), True),
    'm_fwd_f32':      ('mdft', 'dft2', 'f44', 2, 4, (0, 0), True),          # same key, other input dtype
    'c_fwd_Q2':       ('czt', 'czt2', 'r44', 2, 4, (0, 0), True),
    'c_inv_Q2':       ('czt', 'iczt2', 'c44', 2, 4, (0, 0), False),
    'c_fwd_f32':      ('czt', 'czt2', 'f44', 2, 4, (0, 0), True),
}
EVENTS = ['p32', 'p64', 'mdft.clear', 'czt.clear'] + sorted(CALLS)

# second alphabet: unequal sample counts A=(3,4) <-> B=(5,6), so that "the transform the other way" has a different
# cache key, plus the gradient-backpropagation entry points, which share the executor's caches with the transforms
CALLS2 = {
    'fwd_AB':      ('mdft', 'dft2', 'cA', 2, (5, 6), (0, 0), True),
    'inv_BA':      ('mdft', 'idft2', 'cB', 2, (3, 4), (0, 0), False),
    'fwd_BA':      ('mdft', 'dft2', 'cB', 2, (3, 4), (0, 0), True),
    'inv_AB':      ('mdft', 'idft2', 'cA', 2, (5, 6), (0, 0), False),
    'bp_fwd_AB':   ('mdft', 'dft2_backprop', 'cB', 2, (3, 4), (0, 0), None),    # adjoint of dft2 A->B
    'bp_inv_AB':   ('mdft', 'idft2_backprop', 'cB', 2, (3, 4), (0, 0), None),   # adjoint of idft2 A->B
    'bp_fwd_BA':   ('mdft', 'dft2_backprop', 'cA', 2, (5, 6), (0, 0), None),
    'bp_inv_BA':   ('mdft', 'idft2_backprop', 'cA', 2, (5, 6), (0, 0), None),
    'fwd_AB_s':    ('mdft', 'dft2', 'cA', 2, (5, 6), (1, -0.5), True),
    'inv_BA_s':    ('mdft', 'idft2', 'cB', 2, (3, 4), (1, -0.5), False),
    'bp_fwd_AB_s': ('mdft', 'dft2_backprop', 'cB', 2, (3, 4), (1, -0.5), None),
    'bp_inv_AB_s': ('mdft', 'idft2_backprop', 'cB', 2, (3, 4), (1, -0.5), None),
    'c_fwd_AB':    ('czt', 'czt2', 'cA', 2, (5, 6), (0, 0), True),
    'c_inv_BA':    ('czt', 'iczt2', 'cB', 2, (3, 4), (0, 0), False),
}
EVENTS2 = ['p32', 'p64', 'mdft.clear'] + sorted(CALLS2)
ALLCALLS = {**CALLS, **CALLS2}


class ExecState:
    def __init__(self, seed):
        self.inputs = _hist_inputs(seed)
        self.last = None
        self.prev = None


def h_fresh(init, seed):
    reset_executors(64)
    if init.get('prec') == 32:
        config.precision = 32
    return ExecState(seed)


def h_events(init, hist, st):
    return EVENTS2 if init.get('alphabet') == 2 else EVENTS


def h_apply(st, ev, R):
    if st.last is not None and st.last[1] is not FAILED:
        st.prev = (st.last[0], st.last[1], np.array(st.last[1], copy=True))   # earlier result object + snapshot of its value
    st.last = None
    if ev == 'p32':
        config.precision = 32
    elif ev == 'p64':
        config.precision = 64
    elif ev == 'mdft.clear':
        fttools.mdft.clear()
    elif ev == 'czt.clear':
        fttools.czt.clear()
    else:
        ex, meth, ik, Q, so, sh, fwd = ALLCALLS[ev]
        x = st.inputs[ik].copy()
        out = R.call(getattr(getattr(fttools, ex), meth), x, Q, so, sh, sig=f'history:{meth}:exception')
        st.last = (ev, out, x)
    return st


def h_check(st, init, hist, R):
    if st.prev is not None:
        # a result handed to the caller earlier must not change under later events (no aliasing of executor scratch / caches)
        pev, pobj, pcopy = st.prev
        R.expect_equal(np.asarray(pobj), pcopy, 'history:result-aliased-to-executor-state',
                       f'the array returned by {pev} changed after later events {hist[-1:]} (history {hist})')
    if st.last is None:
        R.outcome('config')
        return
    ev, out, x = st.last
    if out is FAILED:
        return
    ex, meth, ik, Q, so, sh, fwd = ALLCALLS[ev]
    R.expect_equal(x, st.inputs[ik], f'history:{meth}:input-mutated', f'{ev} modified its input array')
    prec = 32 if config.precision is np.float32 else 64
    # (a) same call on a fresh executor under the same precision: bit-identical values and dtype
    fresh = fttools.MatrixDFTExecutor() if ex == 'mdft' else fttools.ChirpZTransformExecutor()
    want = getattr(fresh, meth)(x.copy(), Q, so, sh)
    R.tick()
    out = np.asarray(out)
    sig = f'history:{meth}:p{prec}:depends-on-prior-calls'
    R.expect(out.dtype == want.dtype, sig + ':dtype', f'{ev} after {hist[:-1]}: dtype {out.dtype}, fresh executor gives {want.dtype}')
    R.expect_equal(out, want, sig, f'{ev} after {hist[:-1]} differs from the same call on a fresh executor')
    if fwd is None:     # a backpropagation entry point: history-maker only (its adjointness is C06's subject)
        R.nontrivial(len(hist) > 1)
        R.outcome(f'backprop:p{prec}')
        return
    # (b) the textbook sum
    eps = max(np.finfo(np.float32 if prec == 32 else np.float64).eps, np.finfo(x.real.dtype).eps)
    ref = ref_dft.dft2(x, Q, so, sh, fwd)
    if is_shifted(sh):
        R.expect_close(np.abs(out), np.abs(ref), K_TOL * eps * 10, f'history:{meth}:p{prec}:value', f'{ev} after {hist[:-1]}: |field| vs textbook sum')
    else:
        R.expect_close(out, ref, K_TOL * eps * 10, f'history:{meth}:p{prec}:value', f'{ev} after {hist[:-1]}: field vs textbook sum')
    R.nontrivial(len(hist) > 1)
    R.outcome(f'call:p{prec}')


def h_canon(st):
    """Everything a future transition can read: the precision and, per cache entry, its key and the
    dtype of the cached arrays (their values are a function of key, dtype)."""
    prec = 32 if config.precision is np.float32 else 64
    m = tuple(sorted((repr(k), str(v.dtype)) for k, v in fttools.mdft.Ein.items()))
    mo = tuple(sorted((repr(k), str(v.dtype)) for k, v in fttools.mdft.Eout.items()))
    c = tuple(sorted((repr(k), tuple(str(a.dtype) for a in v)) for k, v in fttools.czt.components.items()))
    # any further attribute an implementation keeps on the executors (work buffers, derived-basis indices, frozen constants) can be read
    # by a later call: its keys / dtypes / scalar value are part of the state (the pinned tree has none)
    extra = []
    for name, ex, known in (('mdft', fttools.mdft, ('Ein', 'Eout')), ('czt', fttools.czt, ('components',))):
        for k, v in sorted(vars(ex).items()):
            if k in known:
                continue
            if isinstance(v, dict):
                extra.append((name, k, tuple(sorted((repr(kk), str(getattr(vv, 'dtype', type(vv).__name__))) for kk, vv in v.items()))))
            else:
                extra.append((name, k, str(getattr(v, 'dtype', '')) + repr(v)[:80]))
    return (prec, m, mo, c, tuple(extra))


# ---------------------------------------------------------------------------------------------

# ---------------------------------------------------------------------------------------------
# call history of the padded-FFT route (module-level functions: whatever they keep between calls -- pad workspaces, plans,
# twiddle tables -- is keyed on something, and the alphabet is built so that those keys collide): inputs of different shapes
# and Q whose PADDED shapes coincide, both directions, both precisions, real / complex / float32 input

FFT_CALLS = {
    # name: (function, input shape, Q, input kind)            padded shape
    'f_2x4_Q2':  ('focus', (2, 4), 2, 'c'),                   # (4, 8)
    'f_1x2_Q4':  ('focus', (1, 2), 4, 'c'),                   # (4, 8)  smaller input, same padded shape
    'f_4x8_Q1':  ('focus', (4, 8), 1, 'c'),                   # (4, 8)  no padding at all
    'f_2x4_Q2r': ('focus', (2, 4), 2, 'r'),                   # real input, same geometry
    'f_2x4_Q2f': ('focus', (2, 4), 2, 'f'),                   # float32 input, same geometry
    'u_2x4_Q2':  ('unfocus', (2, 4), 2, 'c'),
    'u_1x2_Q4':  ('unfocus', (1, 2), 4, 'c'),
    'f_3x3_Q2':  ('focus', (3, 3), 2, 'c'),                   # (6, 6)
    'f_2x2_Q3':  ('focus', (2, 2), 3, 'c'),                   # (6, 6)
    'f_3x2_Q1.5': ('focus', (3, 2), 1.5, 'c'),                # (5, 3): non-integer Q, odd padded shape
}
FFT_EVENTS = ['p32', 'p64'] + sorted(FFT_CALLS)


class FftState:
    __slots__ = ('last', 'held', 'hist')

    def __init__(self):
        self.last, self.held, self.hist = None, [], []


def fh_fresh(init, seed):
    reset_executors(64)
    return FftState()


def fh_events(init, hist, st):
    return [e for e in FFT_EVENTS if not (hist and hist[-1] == e and e in ('p32', 'p64'))]


def _fft_input(name, seed):
    fn, shp, Q, kind = FFT_CALLS[name]
    x = dense(shp, seed, 31 + sorted(FFT_CALLS).index(name))
    if kind == 'r':
        x = x.real.copy()
    elif kind == 'f':
        x = x.real.astype(np.float32)
    return x


def fh_apply(st, ev, R):
    st.hist.append(ev)
    st.last = None
    if ev == 'p32':
        config.precision = 32
    elif ev == 'p64':
        config.precision = 64
    else:
        fn, shp, Q, kind = FFT_CALLS[ev]
        x = _fft_input(ev, _SEED_FH[0])
        out = R.call(getattr(propagation, fn), x, Q, sig=f'fft-history:{fn}:exception')
        st.last = (ev, out, x)
        if out is not FAILED:
            st.held.append((ev, out, np.array(out, copy=True)))
    return st


_SEED_FH = [0]


def fh_check(st, init, hist, R):
    for pev, pobj, pcopy in st.held[:-1] if st.last is not None else st.held:
        R.expect_equal(np.asarray(pobj), pcopy, 'fft-history:result-changed-by-later-call', f'the array returned by {pev} changed after later events (history {hist})')
    if st.last is None:
        R.outcome('config')
        return
    ev, out, x = st.last
    if out is FAILED:
        return
    fn, shp, Q, kind = FFT_CALLS[ev]
    so = tuple(math.ceil(v * Q) for v in shp)
    Qeff = (so[0] / shp[0], so[1] / shp[1])
    R.expect_equal(x, _fft_input(ev, _SEED_FH[0]), f'fft-history:{fn}:input-mutated', f'{ev} modified its input array')
    prec = 32 if config.precision is np.float32 else 64
    eps = max(np.finfo(np.float32 if prec == 32 else np.float64).eps, np.finfo(x.real.dtype).eps)
    ref = ref_dft.dft2(x.astype(complex), Qeff, so, (0, 0), fn == 'focus')
    R.expect_close(out, ref, K_TOL * eps * 10, f'fft-history:{fn}:p{prec}:depends-on-prior-calls', f'{ev} after {hist[:-1]}: field vs textbook sum on the padded-FFT grid {shp}->{so}')
    R.nontrivial(len(hist) > 1)
    R.outcome(f'call:p{prec}')


def fh_canon(st):
    return tuple(st.hist)        # no merging: any module-level memo may depend on every earlier call


def plan(tier, seed):
    B = 4 if tier == 'quick' else 7
    shapes = [[a, b] for a in range(1, B + 1) for b in range(1, B + 1)]
    eng_cases = []
    for si in shapes:
        for so in shapes:
            for qi, q in enumerate(QS):
                for sh in SHIFTS:
                    # quick tier: the full Q x shift product only on a parity-complete sub-lattice; elsewhere the
                    # diagonal of the product (every Q form and every shift form still occurs with every shape pair)
                    if tier == 'quick' and not (max(si + so) <= 3 or SHIFTS.index(sh) == qi % len(SHIFTS)):
                        continue
                    eng_cases.append({'in': si, 'out': so, 'Q': q, 'shift': sh})
    Bf = 6 if tier == 'quick' else 9
    fft_cases = [{'in': [a, b], 'Q': Q} for a in range(1, Bf + 1) for b in range(1, Bf + 1) for Q in (1, 2, 3, 1.5, 2.5)]
    Bw = 4 if tier == 'quick' else 6
    wr_cases = [{'n': [n0, n1], 'N': [N0, N1], 'dxo_rel': q, 'shift': sh, 'wvl': wvl, 'efl': efl, 'dxi': dxi}
                for n0 in range(1, Bw + 1) for n1 in range(1, Bw + 1) for N0 in range(1, Bw + 2) for N1 in range(1, Bw + 2)
                for q in (1.0, 2.0, 1.37)
                for sh in ([0, 0], [1, 0], [0, -1.5]) for (wvl, efl, dxi) in ((0.5, 100.0, 0.1), (1.0, 37.5, 0.25))
                if tier != 'quick' or (n0 + n1 + N0 + N1 + int(q * 100) + int(sh[0]) + int(wvl * 2)) % 3 == 0 or max(n0, n1, N0, N1) <= 2]
    LN = [63, 64, 65, 127, 128, 129, 130, 255, 256, 257, 300] + ([511, 512, 513, 641, 1000, 1024, 1025] if tier != 'quick' else [513, 641])
    large_cases = []
    for n in LN:                                   # 1-D-like: one long axis, the other 3 or 1
        for (si, so) in (([3, n], [2, n]), ([n, 1], [n, 2]), ([4, n], [n, 3]), ([n, 3], [5, n])):
            for Q, sh in ((1, [0, 0]), (2.0, [1.5, -2]), ([1, 2], [0, 0])):
                large_cases.append({'in': si, 'out': so, 'Q': Q, 'shift': sh})
    for (a, b) in ([64, 64], [65, 65], [65, 67], [101, 64], [128, 128], [130, 128], [126, 140], [66, 256], [129, 127]):   # 2-D at / above 64^2 .. 128^2
        large_cases.append({'in': [a, b], 'out': [a, b], 'Q': 1, 'shift': [0, 0], 'fft': 1})
        large_cases.append({'in': [a, b], 'out': [b, a], 'Q': 1.0, 'shift': [0.5, 0], 'fft': 2 if a * b <= 5000 or tier != 'quick' else 1})
    depth = 4 if tier == 'quick' else 5
    return [
        ScopeUnit('engines', eng_cases, run_engines,
                  f'(input shape, output shape) in ([1..{B}]^2)^2 x Q in {{1, 2, 2.0, 1.5, 0.75, (1,2), (2.5,1.25), [2,1.5]}} x shift in {{(0,0), 0, (1,0), (0,-2), (0.5,1.25), seeded generic}}'
                  + (' (quick: full Q x shift product on shapes <= 3, diagonal of the product elsewhere)' if tier == 'quick' else '')
                  + ' ; inside every case: {mdft, czt} x {forward, inverse} x {precision 64, 32} (+ float32 input for czt; + int64 / int32 / uint8 / bool input arrays under precision 64: one labelled array and two deltas per dtype); data dimension closed by the operator matrix from all real deltas, all i*deltas and one seeded dense complex array; oracle = textbook double sum (complex equality unshifted, per-output-sample unit-modulus factor allowed when shifted)'),
        ScopeUnit('fft_route', fft_cases, run_fft,
                  f'every input shape in [1..{Bf}]^2 x Q in {{1,1.5,2,2.5,3}}: focus / unfocus operator matrices vs the textbook sum on the padded grid (per-axis Q = padded/unpadded), vs mdft and czt on that grid, Wavefront.focus/unfocus, both precisions'),
        ScopeUnit('wrappers', wr_cases, run_wrappers,
                  f'pupils (n0,n1) in [1..{Bw}]^2 (square and non-square) -> focal (N0,N1) in [1..{Bw + 1}]^2, 3 sampling ratios, 3 shifts, 2 (wavelength, efl, dx) unit sets, non-zero shifts additionally as float64 ndarray / list / tuple of numpy scalars with the same objects reused by every call of the case' + (' (quick: every third cell of the product by index arithmetic, all cells with axes <= 2)' if tier == 'quick' else '') + ': focus_fixed_sampling / unfocus_fixed_sampling and the Wavefront methods vs the textbook sum whose per-axis Q = wvl*efl/(n_axis*dx_in*dx_out) and shift/dx_out are computed by hand (one physical dx per plane)'),
        ScopeUnit('large', large_cases, run_large,
                  f'size-threshold alphabet: long axes n in {LN} (1-D-like shapes (3,n),(n,1),(4,n)->(n,3),(n,3)->(5,n)) x 3 (Q, shift) forms, and 2-D shapes at / above 64^2..128^2 incl. odd, non-square and sides = 2 mod 4; '
                  'every engine and direction (and focus / unfocus on their own grid) on three inputs (delta at the origin, delta at the last sample, seeded dense) against the separable textbook sum; not closed over the data dimension (stated)',
                  chunk=2),
        HistoryUnit('executor_history', [{'prec': 64}], h_fresh, h_events, h_apply, h_check, h_canon, depth,
                    f'BFS to depth {depth} over events {EVENTS} on the shared module-level mdft / czt executors and config.precision; the call events are built to collide in the cache keys (Q=2 vs 2.0 vs tuple, samples int vs tuple, shift 0 vs (0,0), same geometry other direction, same key other precision, same key other input dtype); canonical state = (precision, cache keys with cached dtypes); invariant in every state: the call equals, bit for bit and in dtype, the same call on a fresh executor under the current precision, and equals the textbook sum'),
        HistoryUnit('executor_history_backprop', [{'prec': 64, 'alphabet': 2}], h_fresh, h_events, h_apply, h_check, h_canon, depth,
                    f'BFS to depth {depth} over events {EVENTS2}: transforms between unequal sample counts A=(3,4) and B=(5,6) in both directions (so that the opposite transform lives under a different cache key), the matrix-DFT gradient-backpropagation entry points (which share the cache), shifted variants, czt, precision switches and clear(); same canonical state and invariant as executor_history'),
        HistoryUnit('fft_route_history', [{}], fh_fresh, fh_events, fh_apply, fh_check, fh_canon, 3 if tier == 'quick' else 4,
                    f'BFS to depth {3 if tier == "quick" else 4} over events {FFT_EVENTS}: the padded-FFT routes focus / unfocus called with inputs of different shape and Q whose padded shapes coincide '
                    '((2,4)@Q2, (1,2)@Q4, (4,8)@Q1 -> (4,8); (3,3)@Q2, (2,2)@Q3 -> (6,6); (3,2)@Q1.5 -> (5,3)), complex / real / float32 input, both directions, precision switches; no state merging '
                    '(the state is the history); invariant in every state: the call equals the textbook sum on its own padded grid whatever ran before, its input is untouched, and every array returned earlier still holds its value'),
    ]
