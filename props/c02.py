"""C02 -- propagators conserve energy and invert each other.

Everything is judged on operator matrices (column k = propagator(delta_k), complex input), so a
verdict holds for every complex field of the enumerated shape:

  * padded FFT route: A^H A = I for focus and unfocus (energy for every field, padding included),
    unfocus o focus = the pad operator (identity after cropping back), pad2d's matrix is a partial
    permutation (adds only zeros);
  * band-complete matrix-DFT / chirp-Z pair (output samples = N*Q per axis): A^H A = I and
    inverse o forward = I, in both orders, raw executors and the public physical-unit wrappers;
  * free space: |tf| = 1, AS(0) = id, AS(-z) o AS(z) = id, AS(z2) o AS(z1) = AS(z1+z2), A^H A = I.

The oracles are algebraic identities (identity matrices); no prysm routine is used as a reference.
"""
import math

import numpy as np

import json

from mc import ScopeUnit, HistoryUnit, FAILED
from mc import ref_dft
from mc.linalg import dense, deltas
from mc.state import reset_executors

from prysm import fttools, propagation
from prysm.conf import config
from prysm.propagation import Wavefront

ID = 'C02'
ASSUMPTIONS = [
    'float32 configurations: config.precision = 32 and complex64 input fields; accuracy demanded is 2e3 * eps of that precision '
    '(free space: 2e2 * eps * (1 + largest phase of the Fresnel kernel on the grid))',
    'the band-complete fixed-sampling pair through the public wrappers exists only for square focal grids (one physical dx per plane makes n_axis*Q_axis the same number on both axes)',
]

K_TOL = 2e3
K_FS = 2e2
EPS64 = float(np.finfo(float).eps)
ZS = [0.0, 1.5, -2.0, 40.0]
SHIFTS_NZ = [[1, 0], [0.5, 1.25], [-2, 3]]      # one axis only / fractional, sx != sy / integer both axes, in samples, (x, y) order


def shift_cls(sh):
    if sh[0] == 0 and sh[1] == 0:
        return 'noshift'
    return 'shift-int' if float(sh[0]).is_integer() and float(sh[1]).is_integer() else 'shift-frac'


def par(n):
    return 'odd' if n % 2 else 'even'


def sqc(shape):
    return 'square' if shape[0] == shape[1] else 'nonsquare'


def eps_of(prec):
    return float(np.finfo(np.float32 if prec == 32 else np.float64).eps)


def cdt_of(prec):
    return np.complex64 if prec == 32 else np.complex128


def embed_index(n, N):
    """flat indices (C order) in an array of shape N of the origin-preserving embedding of shape n"""
    o0, o1 = N[0] // 2 - n[0] // 2, N[1] // 2 - n[1] // 2
    i, j = np.meshgrid(np.arange(n[0]) + o0, np.arange(n[1]) + o1, indexing='ij')
    return (i * N[1] + j).ravel()


def op(R, f, shape_in, sig, dtype=complex, shape_out=None):
    """operator matrix of f on arrays of shape_in; None after recording a violation"""
    cols = []
    for d in deltas(shape_in, dtype):
        out = R.call(f, d, sig=sig + ':exception')
        if out is FAILED:
            return None
        try:
            out = np.asarray(out)
            if out.dtype.kind not in 'fc':
                raise TypeError(out.dtype)
        except Exception:   # noqa
            R.violation(sig + ':type', f'non-numeric output {type(out).__name__}')
            return None
        if shape_out is not None and out.shape != tuple(shape_out):
            R.violation(sig + ':shape', f'output shape {out.shape} != {tuple(shape_out)} for input shape {tuple(shape_in)}')
            return None
        cols.append(out.ravel())
    if len({c.shape for c in cols}) != 1:
        R.violation(sig + ':shape', 'outputs for different deltas have different shapes')
        return None
    A = np.stack(cols, axis=1)
    if not np.all(np.isfinite(A)):
        R.violation(sig, 'non-finite entries in the operator matrix')
        return None
    R.observe(A)
    return A


def expect_identity(R, M, tol, sig, what):
    if M is None:
        return False
    return R.expect_close(M, np.eye(M.shape[0], M.shape[1]), tol, sig, what)


def gram(A):
    return A.conj().T @ A


def energy(a):
    a = np.asarray(a)
    return float(np.sum(a.real.astype(float) ** 2 + a.imag.astype(float) ** 2))


# ---------------------------------------------------------------------------------------------
# padded FFT route

def run_fft(case, seed, R):
    si, Q = tuple(case['in']), case['Q']
    so = tuple(math.ceil(s * Q) for s in si)
    n, N = si[0] * si[1], so[0] * so[1]
    qc = 'Q=1' if Q == 1 else ('Q=int' if float(Q).is_integer() else 'Q=frac')
    cell = f'{sqc(si)}:{qc}'
    for prec in (64, 32):
        reset_executors(prec)
        try:
            eps, cdt = eps_of(prec), cdt_of(prec)
            tol = K_TOL * eps
            p = f'p{prec}'
            # pad: partial permutation
            P = op(R, lambda a: fttools.pad2d(a, Q), si, f'pad2d:{cell}', float, so)   # noqa
            if P is not None:
                ok = bool(np.all((P == 0) | (P == 1)) and np.all(P.sum(axis=0) == 1) and np.all(P.sum(axis=1) <= 1))
                R.expect(ok, f'pad2d:not-partial-permutation:{cell}', f'pad2d({si}, Q={Q}) is not a 0/1 matrix with one 1 per column and at most one per row')
                pz = R.call(fttools.pad2d, np.zeros(si, cdt), Q)
                R.expect(pz is not FAILED and np.iscomplexobj(pz), f'pad2d:dtype:{cell}', 'pad2d drops the imaginary part')
            ops = {}
            for name, fn in (('focus', propagation.focus), ('unfocus', propagation.unfocus)):
                A = op(R, lambda a: fn(a, Q), si, f'{name}:{cell}:{p}', cdt, so)   # noqa
                ops[name] = A
                if A is None:
                    continue
                expect_identity(R, gram(A), tol, f'{name}:energy:{cell}:{p}', f'{name}({si}, Q={Q}): A^H A != I (energy not conserved / padding changes energy)')
                if Q == 1:
                    expect_identity(R, A @ A.conj().T, tol, f'{name}:energy:{cell}:{p}', f'{name}({si}, Q=1): A A^H != I')
            # inverse legs on the padded grid, without further padding
            for first, second, fn2 in (('focus', 'unfocus', propagation.unfocus), ('unfocus', 'focus', propagation.focus)):
                A = ops[first]
                if A is None:
                    continue
                B = op(R, lambda a: fn2(a, 1), so, f'{second}:{sqc(so)}:Q=1:{p}', cdt, so)   # noqa
                if B is None:
                    continue
                BA = B @ A
                sig = f'{second}({first}):{cell}:{p}'
                if P is not None:
                    R.expect_close(BA, P.astype(complex), tol, sig, f'{second}({first}(x, Q={Q}), 1) is not the zero-padded x, shape {si}')
                # crop back with the harness' own origin-preserving window
                expect_identity(R, BA[embed_index(si, so), :], tol, sig + ':crop', f'crop({second}({first}(x, Q={Q}), 1)) != x, shape {si}')
            # dense field, function and Wavefront forms
            x = dense(si, seed, 3).astype(cdt)
            e0 = energy(x)
            for name, fn, space in (('focus', propagation.focus, 'pupil'), ('unfocus', propagation.unfocus, 'psf')):
                y = R.call(fn, x.copy(), Q)
                if y is FAILED:
                    continue
                if R.expect(np.asarray(y).shape == so, f'{name}:{cell}:{p}:shape', f'shape {np.asarray(y).shape} != {so}'):
                    R.expect_close(energy(y), e0, tol * e0 * 4, f'{name}:energy:{cell}:{p}:dense', f'energy of {name}(dense {si}, Q={Q})')
                w = Wavefront(x.copy(), 0.5, 0.1, space=space)
                f1 = R.call(getattr(w, name), 100.0, Q)
                if f1 is FAILED:
                    continue
                R.expect_close(energy(getattr(f1, 'data', np.nan)), e0, tol * e0 * 4, f'Wavefront.{name}:energy:{cell}:{p}', 'energy through the Wavefront method')
                other = 'unfocus' if name == 'focus' else 'focus'
                b = R.call(getattr(f1, other), 100.0, 1)
                if b is FAILED:
                    continue
                bd = np.asarray(b.data)
                if R.expect(bd.shape == so, f'Wavefront.{other}({name}):{cell}:{p}:shape', f'shape {bd.shape} != {so}'):
                    want = np.zeros(N, dtype=complex)
                    want[embed_index(si, so)] = x.ravel()
                    R.expect_close(bd.ravel(), want, tol * 10, f'Wavefront.{other}({name}):{cell}:{p}', f'Wavefront.{name}(Q={Q}).{other}(Q=1) is not the padded input')
                    R.expect_close(b.dx, w.dx, 64 * np.finfo(float).eps * w.dx, f'Wavefront.{other}({name}):dx:{sqc(si)}', 'round trip does not restore dx')
                    R.expect(b.space == space, f'Wavefront.{other}({name}):space', 'round trip does not restore the space')
        finally:
            config.precision = 64
    R.nontrivial(n > 1)
    R.outcome('fft:' + qc)


# ---------------------------------------------------------------------------------------------
# band-complete matrix DFT / chirp-Z pair

def engine(method, fwd):
    if method == 'mdft':
        return fttools.mdft.dft2 if fwd else fttools.mdft.idft2
    return fttools.czt.czt2 if fwd else fttools.czt.iczt2


ENAME = {('mdft', True): 'dft2', ('mdft', False): 'idft2', ('czt', True): 'czt2', ('czt', False): 'iczt2'}


def run_band(case, seed, R):
    n, N = tuple(case['in']), tuple(case['out'])
    Q = (N[0] / n[0], N[1] / n[1])                       # band complete: out = in * Q per axis
    Qb = tuple(n[a] * Q[a] / N[a] for a in (0, 1))       # the Q that lands the return leg on the input grid
    qc = 'Q=int' if all(float(q).is_integer() for q in Q) else 'Q=frac'
    cell = f'{sqc(n)}:{qc}'
    for prec in (64, 32):
        for method in ('mdft', 'czt'):
            for fwd in (True, False):
                reset_executors(prec)
                try:
                    eps, cdt = eps_of(prec), cdt_of(prec)
                    tol = K_TOL * eps
                    f1, f2 = engine(method, fwd), engine(method, not fwd)
                    n1, n2 = ENAME[(method, fwd)], ENAME[(method, not fwd)]
                    samples_out = N if N[0] != N[1] else N[0]
                    A = op(R, lambda a: f1(a, Q, samples_out), n, f'{n1}:band-complete:{cell}:p{prec}', cdt, N)   # noqa
                    if A is None:
                        continue
                    expect_identity(R, gram(A), tol, f'{n1}:band-complete:energy:{cell}:p{prec}',
                                    f'{n1}({n} -> {N}, Q={Q}): A^H A != I on the full band')
                    B = op(R, lambda a: f2(a, Qb, n), N, f'{n2}:band-complete-return:{cell}:p{prec}', cdt, n)   # noqa
                    if B is None:
                        continue
                    expect_identity(R, B @ A, tol, f'{n2}({n1}):band-complete:{cell}:p{prec}',
                                    f'{n2}({n1}(x, Q={Q}, {N}), Q={Qb}, {n}) != x')
                    # input-dtype alphabet: a field stored in a REAL dtype is the same field
                    rdt = np.float64 if prec == 64 else np.float32
                    Ar = op(R, lambda a: f1(a, Q, samples_out), n, f'{n1}:band-complete:real-input:{cell}:p{prec}', rdt, N)   # noqa
                    if Ar is not None:
                        R.expect_close(Ar, A, tol, f'{n1}:real-input:{cell}:p{prec}', f'{n1}({n} -> {N}, Q={Q}): operator from {np.dtype(rdt)} deltas != operator from complex deltas')
                        expect_identity(R, B @ Ar, tol, f'{n2}({n1}):band-complete:real-input:{cell}:p{prec}', f'{n2}({n1}(real x)) != x, {n} -> {N}')
                    Br = op(R, lambda a: f2(a, Qb, n), N, f'{n2}:band-complete-return:real-input:{cell}:p{prec}', rdt, n)   # noqa
                    if Br is not None:
                        R.expect_close(Br, B, tol, f'{n2}:real-input:{cell}:p{prec}', f'{n2}({N} -> {n}, Q={Qb}): operator from {np.dtype(rdt)} deltas != operator from complex deltas')
                    # non-zero shifts: the same shift (in samples) on both legs, full band: energy and round trip as without shift
                    for sh in SHIFTS_NZ:
                        sh = tuple(sh)
                        sc = shift_cls(sh)
                        As = op(R, lambda a: f1(a, Q, samples_out, sh), n, f'{n1}:band-complete:{sc}:{cell}:p{prec}', cdt, N)   # noqa
                        if As is None:
                            continue
                        expect_identity(R, gram(As), tol, f'{n1}:band-complete:energy:{sc}:{cell}:p{prec}', f'{n1}({n} -> {N}, Q={Q}, shift={sh}): A^H A != I on the full band')
                        Bs = op(R, lambda a: f2(a, Qb, n, sh), N, f'{n2}:band-complete-return:{sc}:{cell}:p{prec}', cdt, n)   # noqa
                        if Bs is not None:
                            expect_identity(R, Bs @ As, tol, f'{n2}({n1}):band-complete:{sc}:{cell}:p{prec}', f'{n2}({n1}(x, Q={Q}, {N}, shift={sh}), Q={Qb}, {n}, shift={sh}) != x')
                    x = dense(n, seed, 5).astype(cdt)
                    y = R.call(f1, x.copy(), Q, N)
                    if y is FAILED:
                        continue
                    e0 = energy(x)
                    R.expect_close(energy(y) if np.asarray(y).shape == N else np.nan, e0, tol * e0 * 4,
                                   f'{n1}:band-complete:energy:{cell}:p{prec}:dense', 'energy of the dense field on the full band')
                    b = R.call(f2, y, Qb, n)
                    R.expect_close(b, x.astype(complex), tol * 10, f'{n2}({n1}):band-complete:{cell}:p{prec}:dense', 'round trip of the dense field')
                finally:
                    config.precision = 64
    R.nontrivial(n != (1, 1))
    R.outcome('band:' + qc)


def run_band_public(case, seed, R):
    n, M = tuple(case['n']), case['M']
    wvl, efl, dx = case['wvl'], case['efl'], case['dx']
    dxo = wvl * efl / (dx * M)                 # n_axis * Q_axis = wvl*efl/(dx*dxo) = M on both axes
    cell = f'{sqc(n)}'
    tol = K_TOL * eps_of(64)
    x = dense(n, seed, 7)
    e0 = energy(x)
    for method in ('mdft', 'czt'):
        reset_executors(64)
        for fwd in (True, False):
            # fwd: pupil (n, dx) -> focal (M x M, dxo) -> pupil; not fwd: focal plane array of shape n at dxo' ...
            if fwd:
                f1 = lambda a: propagation.focus_fixed_sampling(a, dx, efl, wvl, dxo, M, method=method)                 # noqa
                f2 = lambda a: propagation.unfocus_fixed_sampling(a, dxo, efl, wvl, dx, n, method=method)               # noqa
                names = ('focus_fixed_sampling', 'unfocus_fixed_sampling')
            else:
                # a focal-plane array of shape n sampled at dxf, onto the full pupil band M x M at dxp = wvl*efl/(dxf*M)
                f1 = lambda a: propagation.unfocus_fixed_sampling(a, dx, efl, wvl, dxo, M, method=method)               # noqa
                f2 = lambda a: propagation.focus_fixed_sampling(a, dxo, efl, wvl, dx, n, method=method)                 # noqa
                names = ('unfocus_fixed_sampling', 'focus_fixed_sampling')
            A = op(R, f1, n, f'{names[0]}:{method}:band-complete:{cell}', complex, (M, M))
            if A is None:
                continue
            expect_identity(R, gram(A), tol, f'{names[0]}:{method}:band-complete:energy:{cell}',
                            f'{names[0]}({n} -> {M}x{M} full band): A^H A != I')
            B = op(R, f2, (M, M), f'{names[1]}:{method}:band-complete-return:{cell}', complex, n)
            if B is None:
                continue
            expect_identity(R, B @ A, tol, f'{names[1]}({names[0]}):{method}:band-complete:{cell}',
                            f'{names[1]}({names[0]}(x)) != x for {n} -> {M}x{M} -> {n}, dx={dx}, dxo={dxo}')
            # non-zero shifts, given in the physical units of each leg's output plane (the same number of samples on both legs)
            g1, g2 = (propagation.focus_fixed_sampling, propagation.unfocus_fixed_sampling) if fwd else (propagation.unfocus_fixed_sampling, propagation.focus_fixed_sampling)
            for sh in SHIFTS_NZ:
                sc = shift_cls(sh)
                s1, s2 = (sh[0] * dxo, sh[1] * dxo), (sh[0] * dx, sh[1] * dx)
                As = op(R, lambda a: g1(a, dx, efl, wvl, dxo, M, shift=s1, method=method), n, f'{names[0]}:{method}:band-complete:{sc}:{cell}', complex, (M, M))   # noqa
                if As is None:
                    continue
                expect_identity(R, gram(As), tol, f'{names[0]}:{method}:band-complete:energy:{sc}', f'{names[0]}({n} -> {M}x{M} full band, shift {sh} samples): A^H A != I')
                Bs = op(R, lambda a: g2(a, dxo, efl, wvl, dx, n, shift=s2, method=method), (M, M), f'{names[1]}:{method}:band-complete-return:{sc}:{cell}', complex, n)   # noqa
                if Bs is not None:
                    expect_identity(R, Bs @ As, tol, f'{names[1]}({names[0]}):{method}:band-complete:{sc}', f'{names[1]}({names[0]}(x)) != x with shift {sh} samples on both legs, {n} -> {M}x{M} -> {n}')
            # input-dtype alphabet (complex128 above): real and single-precision storage of the same field
            for dt in (np.float64, np.float32, np.complex64):
                t = tol if dt is np.float64 else K_TOL * eps_of(32)
                dn = np.dtype(dt).name
                Ar = op(R, f1, n, f'{names[0]}:{method}:band-complete:{dn}:{cell}', dt, (M, M))
                if Ar is not None:
                    R.expect_close(Ar, A, t, f'{names[0]}:{method}:input-dtype:{dn}', f'{names[0]}({n} -> {M}x{M}): operator from {dn} deltas != operator from complex128 deltas')
                    expect_identity(R, B @ Ar, t, f'{names[1]}({names[0]}):{method}:band-complete:input-dtype:{dn}', f'{names[1]}({names[0]}({dn} x)) != x for {n} -> {M}x{M} -> {n}')
                Br = op(R, f2, (M, M), f'{names[1]}:{method}:band-complete-return:{dn}:{cell}', dt, n)
                if Br is not None:
                    R.expect_close(Br, B, t, f'{names[1]}:{method}:input-dtype:{dn}', f'{names[1]}({M}x{M} -> {n}): operator from {dn} deltas != operator from complex128 deltas')
        # Wavefront methods on the dense field
        w = Wavefront(x.copy(), wvl, dx, 'pupil')
        f = R.call(w.focus_fixed_sampling, efl, dxo, M, method=method)
        if f is FAILED:
            continue
        R.expect_close(energy(getattr(f, 'data', np.nan)), e0, tol * e0 * 4, f'Wavefront.focus_fixed_sampling:{method}:band-complete:energy:{cell}', 'energy')
        b = R.call(f.unfocus_fixed_sampling, efl, dx, n, method=method)
        if b is not FAILED:
            R.expect_close(getattr(b, 'data', None), x, tol * 10, f'Wavefront.unfocus_fixed_sampling(focus_fixed_sampling):{method}:band-complete:{cell}', 'Wavefront round trip')
    R.nontrivial(n != (1, 1))
    R.outcome('band-public')


# ---------------------------------------------------------------------------------------------
# free space

def run_free(case, seed, R):
    si, wvl, dx, prec = tuple(case['in']), case['wvl'], case['dx'], case['prec']
    n = si[0] * si[1]
    reset_executors(prec)
    try:
        eps, cdt = eps_of(prec), cdt_of(prec)
        p = f'p{prec}'
        cell = f'{sqc(si)}:{p}'
        zall = sorted({a + b for a in ZS for b in ZS} | {-z for z in ZS} | set(ZS), key=lambda z: (abs(z), z))

        def phase_max(shape, z):
            # largest |phase| of exp(-i pi lambda z (kx^2+ky^2)) on the FFT grid of that shape: conditioning of the kernel
            k2 = sum((np.max(np.abs(np.fft.fftfreq(s, dx)))) ** 2 for s in shape)
            return np.pi * (wvl / 1e3) * abs(z) * k2

        so2 = tuple(2 * s for s in si)
        # transfer functions
        tfs = {}
        for shape in (si, so2):
            for z in zall:
                tf = R.call(propagation.angular_spectrum_transfer_function, shape if shape[0] != shape[1] or z != 1.5 else shape[0], wvl, dx, z)
                if tf is FAILED:
                    continue
                t = np.asarray(tf)
                if not R.expect(t.shape == shape and t.dtype.kind == 'c', f'tf:shape:{sqc(shape)}', f'transfer function shape {t.shape} dtype {t.dtype} for samples {shape}'):
                    continue
                R.expect_close(np.abs(t), np.ones(shape), K_FS * eps, f'tf:modulus:{cell}', f'|tf| != 1 (shape {shape}, wvl {wvl}, dx {dx}, z {z})')
                tfs[(shape, z)] = t
            if (shape, 0.0) in tfs:
                R.expect_close(tfs[(shape, 0.0)], np.ones(shape), 0, f'tf:z=0:{cell}', 'tf(z=0) != 1')
            for z1 in ZS:
                for z2 in ZS:
                    if all((shape, z) in tfs for z in (z1, z2, z1 + z2)):
                        tolz = K_FS * eps * (1 + phase_max(shape, z1) + phase_max(shape, z2) + phase_max(shape, z1 + z2))
                        R.expect_close(tfs[(shape, z1)] * tfs[(shape, z2)], tfs[(shape, z1 + z2)], tolz,
                                       f'tf:additive:{cell}', f'tf(z1)*tf(z2) != tf(z1+z2), z1={z1}, z2={z2}, shape {shape}, wvl {wvl}, dx {dx}')
        # operators, Q = 1 on the grid itself and on the doubled grid, Q = 2 (pads, does not crop)
        A1, A1b, A2 = {}, {}, {}
        for z in zall:
            A1[z] = op(R, lambda a: propagation.angular_spectrum(a, wvl, dx, z, Q=1), si, f'angular_spectrum:{cell}:Q=1', cdt, si)   # noqa
        for z in ZS:
            A2[z] = op(R, lambda a: propagation.angular_spectrum(a, wvl, dx, z, Q=2), si, f'angular_spectrum:{cell}:Q=2', cdt, so2)   # noqa
        for z in sorted(set(ZS) | {-z for z in ZS}):
            A1b[z] = op(R, lambda a: propagation.angular_spectrum(a, wvl, dx, z, Q=1), so2, f'angular_spectrum:{cell}:Q=1', cdt, so2)   # noqa
        for z in sorted({a + b for a in ZS for b in ZS}):
            A2.setdefault(z, op(R, lambda a: propagation.angular_spectrum(a, wvl, dx, z, Q=2), si, f'angular_spectrum:{cell}:Q=2', cdt, so2))   # noqa
        if any(v is None for d in (A1, A1b, A2) for v in d.values()):
            return
        E = np.zeros((4 * n, n))
        E[embed_index(si, so2), np.arange(n)] = 1
        tol0 = K_FS * eps
        expect_identity(R, A1[0.0], tol0, f'angular_spectrum:z=0:{cell}:Q=1', 'AS(0) != identity')
        R.expect_close(A2[0.0], E.astype(complex), tol0, f'angular_spectrum:z=0:{cell}:Q=2', 'AS(0, Q=2) != zero padding')
        for z in zall:
            t = K_FS * eps * (1 + phase_max(si, z))
            expect_identity(R, gram(A1[z]), t, f'angular_spectrum:energy:{cell}:Q=1', f'A^H A != I at z={z}, shape {si}, wvl {wvl}, dx {dx}')
        for z in A2:
            t = K_FS * eps * (1 + phase_max(so2, z))
            expect_identity(R, gram(A2[z]), t, f'angular_spectrum:energy:{cell}:Q=2', f'A^H A != I at z={z}, Q=2, shape {si}, wvl {wvl}, dx {dx}')
        for z in ZS:
            t = K_FS * eps * (1 + 2 * phase_max(si, z))
            expect_identity(R, A1[-z] @ A1[z], t, f'angular_spectrum:inverse:{cell}:Q=1', f'AS(-z) AS(z) != I at z={z}, shape {si}, wvl {wvl}, dx {dx}')
            t = K_FS * eps * (1 + 2 * phase_max(so2, z))
            R.expect_close(A1b[-z] @ A2[z], E.astype(complex), t, f'angular_spectrum:inverse:{cell}:Q=2', f'AS(-z, Q=1) AS(z, Q=2) != zero padding at z={z}, shape {si}')
        for z1 in ZS:
            for z2 in ZS:
                t = K_FS * eps * (1 + phase_max(si, z1) + phase_max(si, z2) + phase_max(si, z1 + z2))
                R.expect_close(A1[z2] @ A1[z1], A1[z1 + z2], t, f'angular_spectrum:additive:{cell}:Q=1',
                               f'AS(z2) AS(z1) != AS(z1+z2), z1={z1}, z2={z2}, shape {si}, wvl {wvl}, dx {dx}')
                t = K_FS * eps * (1 + phase_max(so2, z1) + phase_max(so2, z2) + phase_max(so2, z1 + z2))
                R.expect_close(A1b[z2] @ A2[z1], A2[z1 + z2], t, f'angular_spectrum:additive:{cell}:Q=2',
                               f'AS(z2, Q=1) AS(z1, Q=2) != AS(z1+z2, Q=2), z1={z1}, z2={z2}, shape {si}, wvl {wvl}, dx {dx}')
        # precomputed-tf form and the Wavefront method on a dense field
        x = dense(si, seed, 9).astype(cdt)
        e0 = energy(x)
        w = Wavefront(x.copy(), wvl, dx, 'pupil')
        for z in ZS:
            t = K_FS * eps * (1 + phase_max(so2, z)) * max(1.0, math.sqrt(e0)) * 4
            want = (A1[z] @ x.ravel().astype(complex)).reshape(si)
            if (si, z) in tfs:
                got = R.call(propagation.angular_spectrum, x.copy(), wvl, dx, z, 2, tfs[(si, z)])
                R.expect_close(got, want, t, f'angular_spectrum:tf-form:{cell}', f'angular_spectrum(tf=tf(z)) differs from angular_spectrum(z, Q=1), z={z}')
                o = R.call(w.free_space, tf=tfs[(si, z)])
                if o is not FAILED:
                    R.expect_close(getattr(o, 'data', None), want, t, f'Wavefront.free_space:tf-form:{cell}', f'free_space(tf=tf(z)), z={z}')
            for Q, wantQ in ((1, want), (2, (A2[z] @ x.ravel().astype(complex)).reshape(so2))):
                o = R.call(w.free_space, z, Q)
                if o is FAILED:
                    continue
                R.expect_close(getattr(o, 'data', None), wantQ, t, f'Wavefront.free_space:{cell}:Q={Q}', f'free_space(dz={z}, Q={Q}) differs from the operator matrix applied to the field')
                R.expect_close(energy(getattr(o, 'data', np.nan)), e0, t * math.sqrt(e0) * 4, f'Wavefront.free_space:energy:{cell}:Q={Q}', f'energy after free_space(dz={z}, Q={Q})')
                R.expect(o.dx == dx and o.wavelength == wvl and o.space == 'pupil', 'Wavefront.free_space:meta', 'dx / wavelength / space changed')
                back = R.call(o.free_space, -z, 1)
                if back is not FAILED:
                    wb = np.zeros(wantQ.size, complex)
                    wb[embed_index(si, wantQ.shape)] = x.ravel()
                    R.expect_close(np.asarray(getattr(back, 'data', None)).reshape(-1) if np.shape(getattr(back, 'data', None)) == wantQ.shape else None,
                                   wb, 2 * t, f'Wavefront.free_space:inverse:{cell}:Q={Q}', f'free_space(-z) after free_space(z, Q={Q}) does not return the field, z={z}')
        # object history of ONE Wavefront: propagate, rewrite the field in place (an aperture, a phase screen) or rebind it, propagate again
        # with the same arguments -- the second answer is the operator applied to the CURRENT field (and the laws hold for it)
        if n > 1:
            z = ZS[1] if len(ZS) > 1 else ZS[0]
            t = K_FS * eps * (1 + phase_max(so2, z)) * max(1.0, math.sqrt(e0)) * 4
            m = (np.arange(n).reshape(si) % 3 != 0).astype(float) * (0.5 + 0.5j)
            for Q, A in ((1, A1), (2, A2)):
                for how in ('inplace', 'rebind', 'setitem'):
                    wv = Wavefront(x.copy(), wvl, dx, 'pupil')
                    R.call(wv.free_space, z, Q, sig='Wavefront.free_space:history:exception')
                    if how == 'inplace':
                        wv.data *= m.astype(cdt)
                    elif how == 'rebind':
                        wv.data = (wv.data * m).astype(cdt)
                    else:
                        wv.data[...] = x * m
                    xm = (x * m).astype(cdt)
                    o = R.call(wv.free_space, z, Q, sig='Wavefront.free_space:history:exception')
                    if o is FAILED:
                        continue
                    wantm = (A[z] @ xm.ravel().astype(complex)).reshape(si if Q == 1 else so2)
                    R.expect_close(getattr(o, 'data', None), wantm, t, f'Wavefront.free_space:history:after-data-{how}:{cell}:Q={Q}',
                                   f'free_space(dz={z}, Q={Q}) after the field of the same Wavefront was changed ({how}) and an earlier identical call: not the propagation of the current field')
                    o0 = R.call(wv.free_space, 0.0, Q, sig='Wavefront.free_space:history:exception')
                    if o0 is not FAILED:
                        w0 = np.zeros(wantm.size, complex)
                        w0[embed_index(si, wantm.shape)] = xm.ravel()
                        R.expect_close(np.asarray(getattr(o0, 'data', None)).reshape(-1) if np.shape(getattr(o0, 'data', None)) == wantm.shape else None, w0, t,
                                       f'Wavefront.free_space:history:after-data-{how}:{cell}:Q={Q}', 'free_space(0) of the changed field is not the (zero padded) field')
        # argument forms of the scalar parameters: numpy scalars and 0-d / one-element arrays (what a table of wavelengths, a config
        # array or a unit conversion hands over); the SAME objects go into two successive propagations (z, then -z), so a routine that
        # converts units in place on its argument is seen by the hygiene layer and by the second call
        if prec == 64:
            z = ZS[1] if len(ZS) > 1 else ZS[0]
            t = K_FS * eps * (1 + phase_max(si, z)) * max(1.0, math.sqrt(e0)) * 4
            want = (A1[z] @ x.ravel().astype(complex)).reshape(si)
            for fname, mk in (('np.float64', np.float64), ('0d-array', lambda v: np.array(float(v))), ('1-element-array', lambda v: np.array([float(v)]))):
                fw, fd, fz, fnz = mk(wvl), mk(dx), mk(z), mk(-z)
                got = R.call(propagation.angular_spectrum, x.copy(), fw, fd, fz, 1, sig=f'angular_spectrum:form-{fname}:exception')
                R.expect_close(got, want, t, f'angular_spectrum:scalar-form:{fname}', f'angular_spectrum with wvl, dx, z given as {fname} vs python floats, z={z}')
                if got is not FAILED:
                    back = R.call(propagation.angular_spectrum, np.asarray(got).copy(), fw, fd, fnz, 1, sig=f'angular_spectrum:form-{fname}:exception')
                    R.expect_close(back, x.astype(complex), 2 * t, f'angular_spectrum:scalar-form:{fname}', f'AS(-z) AS(z) with the SAME {fname} wavelength / spacing objects does not return the field')
                wv = Wavefront(x.copy(), fw, fd, 'pupil')
                o = R.call(wv.free_space, fz, 1, sig=f'Wavefront.free_space:form-{fname}:exception')
                if o is not FAILED:
                    R.expect_close(getattr(o, 'data', None), want, t, f'Wavefront.free_space:scalar-form:{fname}', f'free_space on a Wavefront whose wavelength / dx are {fname}')
                    b2 = R.call(o.free_space, fnz, 1, sig=f'Wavefront.free_space:form-{fname}:exception')
                    if b2 is not FAILED:
                        R.expect_close(getattr(b2, 'data', None), x.astype(complex), 2 * t, f'Wavefront.free_space:scalar-form:{fname}', f'free_space(-z) after free_space(z), wavelength / dx held as {fname}')
        R.nontrivial(n > 1)
        R.outcome(f'free:{p}')
    finally:
        config.precision = 64


# ---------------------------------------------------------------------------------------------
# threshold sizes (fast paths, FFT length classes): a few probe fields per shape, not closed over the data dimension

def probe_fields(shape, seed, cdt):
    """unit impulses at the origin sample, at the two far corners, and one seeded dense complex field"""
    out = []
    for name, idx in (('delta-origin', (shape[0] // 2, shape[1] // 2)), ('delta-corner00', (0, 0)), ('delta-last', (shape[0] - 1, shape[1] - 1))):
        d = np.zeros(shape, dtype=cdt)
        d[idx] = 1
        out.append((name, d))
    out.append(('dense', dense(shape, seed, 13).astype(cdt)))
    return out


def mod4(shape):
    return 'x'.join('odd' if s % 2 else f'{s % 4}mod4' for s in shape)


def run_fft_large(case, seed, R):
    si, Q = tuple(case['in']), case['Q']
    so = tuple(math.ceil(s * Q) for s in si)
    big = max(so)
    cell = f'large:{mod4(so)}'
    for prec in (64, 32):
        reset_executors(prec)
        try:
            eps, cdt = eps_of(prec), cdt_of(prec)
            tol = K_TOL * eps * math.log2(big + 1)
            for label, x in probe_fields(si, seed, cdt):
                e0 = energy(x)
                want = np.zeros(so[0] * so[1], dtype=complex)
                want[embed_index(si, so)] = x.ravel()
                want = want.reshape(so)
                for first, second in ((propagation.focus, propagation.unfocus), (propagation.unfocus, propagation.focus)):
                    n1, n2 = first.__name__, second.__name__
                    y = R.call(first, x.copy(), Q)
                    if y is FAILED:
                        continue
                    if not R.expect(np.shape(y) == so, f'{n1}:{cell}:shape', f'shape {np.shape(y)} != {so}'):
                        continue
                    R.expect_close(energy(y), e0, tol * e0 * 4, f'{n1}:energy:{cell}:p{prec}', f'energy of {n1}({label} {si}, Q={Q})')
                    if label == 'delta-origin':
                        # an impulse at the origin sample transforms to the constant 1/sqrt(N) (zero phase everywhere)
                        R.expect_close(y, np.full(so, 1 / math.sqrt(so[0] * so[1])), tol, f'{n1}:origin-impulse:{cell}:p{prec}',
                                       f'{n1}(impulse at the origin sample of {si}, Q={Q}) is not the constant 1/sqrt(N)')
                    b = R.call(second, y, 1)
                    R.expect_close(b, want, tol * max(1.0, float(np.abs(x).max())), f'{n2}({n1}):{cell}:p{prec}',
                                   f'{n2}({n1}(x, Q={Q}), 1) is not the zero-padded x; input {label} of shape {si}')
        finally:
            config.precision = 64
    R.nontrivial()
    R.outcome('fft-large')


def run_band_large(case, seed, R):
    n, N = tuple(case['in']), tuple(case['out'])
    Q = (N[0] / n[0], N[1] / n[1])
    Qb = tuple(n[a] * Q[a] / N[a] for a in (0, 1))
    big = max(N)
    tol = 200 * EPS64 * big ** 1.5        # as C01 'large': chirp phases grow like n, accumulation like sqrt(n)
    for method in ('mdft', 'czt'):
        for fwd in (True, False):
            reset_executors(64)
            f1, f2 = engine(method, fwd), engine(method, not fwd)
            n1, n2 = ENAME[(method, fwd)], ENAME[(method, not fwd)]
            for label, x in probe_fields(n, seed, complex):
                y = R.call(f1, x.copy(), Q, N)
                if y is FAILED:
                    continue
                if not R.expect(np.shape(y) == N, f'{n1}:large:shape', f'shape {np.shape(y)} != {N}'):
                    continue
                e0 = energy(x)
                R.expect_close(energy(y), e0, tol * e0 * 4, f'{n1}:band-complete:energy:large', f'energy, {label} {n} -> {N}')
                b = R.call(f2, y, Qb, n)
                R.expect_close(b, x, tol * max(1.0, float(np.abs(x).max())), f'{n2}({n1}):band-complete:large', f'round trip, {label} {n} -> {N} -> {n}')
    R.nontrivial()
    R.outcome('band-large')


def run_free_large(case, seed, R):
    si, wvl, dx = tuple(case['in']), case['wvl'], case['dx']
    for prec in (64, 32):
        reset_executors(prec)
        try:
            eps, cdt = eps_of(prec), cdt_of(prec)
            k2 = sum((0.5 / dx) ** 2 for _ in si)
            for label, x in probe_fields(si, seed, cdt)[1:]:
                e0 = energy(x)
                for Q in (1, 2):
                    so = tuple(Q * s for s in si)
                    want = np.zeros(so[0] * so[1], dtype=complex)
                    want[embed_index(si, so)] = x.ravel()
                    want = want.reshape(so)
                    for z1, z2 in ((1.5, -2.0), (40.0, 1.5)):
                        t = K_FS * eps * (1 + np.pi * wvl / 1e3 * (abs(z1) + abs(z2) + abs(z1 + z2)) * k2) * math.log2(max(so) + 1) * max(1.0, float(np.abs(x).max()))
                        a = R.call(propagation.angular_spectrum, x.copy(), wvl, dx, z1, Q)
                        if a is FAILED or not R.expect(np.shape(a) == so, 'angular_spectrum:large:shape', f'shape {np.shape(a)} != {so}'):
                            continue
                        R.expect_close(energy(a), e0, t * e0 * 4, f'angular_spectrum:energy:large:p{prec}:Q={Q}', f'energy, {label} {si}, z={z1}')
                        back = R.call(propagation.angular_spectrum, a, wvl, dx, -z1, 1)
                        R.expect_close(back, want, t, f'angular_spectrum:inverse:large:p{prec}:Q={Q}', f'AS(-z) AS(z) x != x, {label} {si}, z={z1}')
                        ab = R.call(propagation.angular_spectrum, a, wvl, dx, z2, 1)
                        direct = R.call(propagation.angular_spectrum, x.copy(), wvl, dx, z1 + z2, Q)
                        if ab is not FAILED and direct is not FAILED:
                            R.expect_close(ab, np.asarray(direct), t, f'angular_spectrum:additive:large:p{prec}:Q={Q}', f'AS(z2) AS(z1) x != AS(z1+z2) x, {label} {si}, z1={z1}, z2={z2}')
        finally:
            config.precision = 64
    R.nontrivial()
    R.outcome('free-large')


# ---------------------------------------------------------------------------------------------
# histories: state shared ACROSS calls of different geometry (scratch buffers, per-axis caches).  Nothing is cleared
# between the events of one history; the laws of the LAST call are judged absolutely (identity matrices, textbook sum)

class Hist:
    def __init__(self, seed):
        self.seed = seed
        self.last = None


def h_fresh(init, seed):
    reset_executors(64)
    return Hist(seed)


def h_canon(st):
    return json.dumps(st.trace) if hasattr(st, 'trace') else '[]'


def _h_apply(st, ev):
    st.trace = getattr(st, 'trace', []) + [ev]
    st.last = ev
    return st


FS_EVENTS = [[[12, 12], 2], [[8, 8], 3], [[6, 6], 4], [[24, 24], 1], [[12, 8], 2], [[6, 4], 4], [[24, 16], 1], [[8, 6], 3], [[12, 9], 2], [[16, 12], 1.5]]
FS_WVL, FS_DX, FS_Z = 0.5, 0.01, 1.5


def hfs_events(init, hist, st):
    return FS_EVENTS


def hfs_apply(st, ev, R):
    shape, Q = tuple(ev[0]), ev[1]
    x = dense(shape, st.seed, 31)
    R.call(propagation.angular_spectrum, x, FS_WVL, FS_DX, FS_Z, Q, sig='history:angular_spectrum:exception')
    w = Wavefront(x.copy(), FS_WVL, FS_DX, 'pupil')
    R.call(w.free_space, -FS_Z, Q, sig='history:Wavefront.free_space:exception')
    return _h_apply(st, ev)


def hfs_check(st, init, hist, R):
    if st.last is None:
        return
    si, Q = tuple(st.last[0]), st.last[1]
    so = tuple(math.ceil(s * Q) for s in si)
    n = si[0] * si[1]
    eps = eps_of(64)
    k2 = sum((np.max(np.abs(np.fft.fftfreq(s, FS_DX)))) ** 2 for s in so)
    t = K_FS * eps * (1 + 2 * np.pi * (FS_WVL / 1e3) * FS_Z * k2)
    after = f'after {hist[:-1]}' if len(hist) > 1 else 'in a fresh state'
    E = np.zeros((so[0] * so[1], n))
    E[embed_index(si, so), np.arange(n)] = 1
    qc = 'Q=1' if Q == 1 else 'padded'
    A0 = op(R, lambda a: propagation.angular_spectrum(a, FS_WVL, FS_DX, 0.0, Q), si, f'history:angular_spectrum:{qc}', complex, so)   # noqa
    if A0 is not None:
        R.expect_close(A0, E.astype(complex), K_FS * eps, f'history:angular_spectrum:z=0:{qc}', f'AS(0, Q={Q}) on {si} is not the zero-padded input {after}')
    Az = op(R, lambda a: propagation.angular_spectrum(a, FS_WVL, FS_DX, FS_Z, Q), si, f'history:angular_spectrum:{qc}', complex, so)   # noqa
    if Az is not None:
        expect_identity(R, gram(Az), t, f'history:angular_spectrum:energy:{qc}', f'A^H A != I for AS(z={FS_Z}, Q={Q}) on {si} {after}')
        cols = []
        for k in range(n):
            b = R.call(propagation.angular_spectrum, Az[:, k].reshape(so), FS_WVL, FS_DX, -FS_Z, 1, sig='history:angular_spectrum:exception')
            if b is FAILED or np.shape(b) != so:
                cols = None
                break
            cols.append(np.asarray(b).ravel())
        if cols is not None:
            R.expect_close(np.stack(cols, axis=1), E.astype(complex), t, f'history:angular_spectrum:inverse:{qc}', f'AS(-z, 1) AS(z, Q={Q}) on {si} is not the zero-padded input {after}')
    x = dense(si, st.seed, 33)
    w = Wavefront(x.copy(), FS_WVL, FS_DX, 'pupil')
    o = R.call(w.free_space, FS_Z, Q)
    if o is not FAILED and Az is not None:
        R.expect_close(getattr(o, 'data', None), (Az @ x.ravel()).reshape(so), t * max(1.0, float(np.linalg.norm(x))), f'history:Wavefront.free_space:{qc}',
                       f'Wavefront.free_space(dz, Q={Q}) on {si} differs from the operator matrix {after}')
    R.nontrivial(len(hist) > 1)
    R.outcome(f'free:{qc}')


BAND_SHAPES = [[8, 8], [5, 8], [8, 5], [5, 5]]
BAND_EVENTS = [[m, s, q] for m in ('mdft', 'czt') for q in (2, [2, 3]) for s in BAND_SHAPES]


def hb_events(init, hist, st):
    return BAND_EVENTS


def _band_geom(ev):
    method, n, q = ev[0], tuple(ev[1]), ev[2]
    Q = (float(q), float(q)) if not isinstance(q, list) else (float(q[0]), float(q[1]))
    N = (int(round(n[0] * Q[0])), int(round(n[1] * Q[1])))
    Qarg = q if not isinstance(q, list) else tuple(q)
    return method, n, N, Q, Qarg


def hb_apply(st, ev, R):
    method, n, N, Q, Qarg = _band_geom(ev)
    x = dense(n, st.seed, 35)
    y = R.call(engine(method, True), x, Qarg, N, sig=f'history:{ENAME[(method, True)]}:exception')
    if y is not FAILED:
        R.call(engine(method, False), y, 1, n, sig=f'history:{ENAME[(method, False)]}:exception')
    R.call(engine(method, False), x, Qarg, N, sig=f'history:{ENAME[(method, False)]}:exception')
    return _h_apply(st, ev)


def hb_check(st, init, hist, R):
    if st.last is None:
        return
    method, n, N, Q, Qarg = _band_geom(st.last)
    tol = K_TOL * eps_of(64)
    after = f'after {hist[:-1]}' if len(hist) > 1 else 'in a fresh state'
    cell = f'{sqc(n)}:{"Q=scalar" if Q[0] == Q[1] else "Q=per-axis"}'
    for fwd in (True, False):
        f1, f2 = engine(method, fwd), engine(method, not fwd)
        n1, n2 = ENAME[(method, fwd)], ENAME[(method, not fwd)]
        A = op(R, lambda a: f1(a, Qarg, N), n, f'history:{n1}:{cell}', complex, N)   # noqa
        if A is None:
            continue
        ok, msg, err = ref_dft.compare_operator(A, ref_dft.dft2_operator(n, N, Q, (0, 0), fwd), False, tol)
        R.expect(ok, f'history:{n1}:textbook:{cell}', f'{n1}({n} -> {N}, Q={Qarg}) vs the textbook sum {after}: {msg}')
        expect_identity(R, gram(A), tol, f'history:{n1}:band-complete:energy:{cell}', f'{n1}({n} -> {N}, Q={Qarg}): A^H A != I on the full band {after}')
        B = op(R, lambda a: f2(a, 1, n), N, f'history:{n2}:return:{cell}', complex, n)   # noqa
        if B is not None:
            expect_identity(R, B @ A, tol, f'history:{n2}({n1}):band-complete:{cell}', f'{n2}({n1}(x, Q={Qarg}, {N}), 1, {n}) != x {after}')
    R.nontrivial(len(hist) > 1)
    R.outcome(f'band:{method}')


# ---------------------------------------------------------------------------------------------
# history over the shared executors and the configured precision: shifted / unshifted transforms of the same lengths,
# precision switches, repeated calls, clear()

#            name: (method, n, N, shift)     band complete: N = n * Q
XCALLS = {
    'm_shift':  ('mdft', (4, 6), (6, 6), (1, 0.5)),
    'm_plain':  ('mdft', (4, 6), (6, 6), (0, 0)),
    'm_square': ('mdft', (6, 6), (6, 6), (0, 0)),       # input and output lengths equal (one coordinate grid in two roles)
    'c_shift':  ('czt', (4, 6), (6, 6), (1, 0.5)),
    'c_plain':  ('czt', (4, 6), (6, 6), (0, 0)),
    'c_square': ('czt', (6, 6), (6, 6), (0, 0)),
}
XEVENTS = ['p32', 'p64', 'mdft.clear', 'czt.clear'] + sorted(XCALLS)


class XState:
    def __init__(self, seed):
        self.seed = seed
        self.trace = []
        self.last = None


def hx_fresh(init, seed):
    reset_executors(init.get('prec', 64))
    return XState(seed)


def hx_events(init, hist, st):
    return XEVENTS


def _cur_prec():
    return 32 if np.dtype(config.precision) == np.dtype(np.float32) else 64


def _xcall(R, name, seed, hygiene=True):
    method, n, N, sh = XCALLS[name]
    Q = (N[0] / n[0], N[1] / n[1])
    x = dense(n, seed, 51)
    y = R.call(engine(method, True), x, Q, N, sh, sig=f'history:{ENAME[(method, True)]}:exception', hygiene=hygiene)
    b = FAILED if y is FAILED else R.call(engine(method, False), y, 1, n, sh, sig=f'history:{ENAME[(method, False)]}:exception', hygiene=hygiene)
    # inverse first
    yi = R.call(engine(method, False), x, Q, N, sh, sig=f'history:{ENAME[(method, False)]}:exception', hygiene=hygiene)
    bi = FAILED if yi is FAILED else R.call(engine(method, True), yi, 1, n, sh, sig=f'history:{ENAME[(method, True)]}:exception', hygiene=hygiene)
    return x, (y, b, yi, bi)


def hx_apply(st, ev, R):
    st.trace = st.trace + [ev]
    st.last = None
    if ev == 'p32':
        config.precision = 32
    elif ev == 'p64':
        config.precision = 64
    elif ev == 'mdft.clear':
        fttools.mdft.clear()
    elif ev == 'czt.clear':
        fttools.czt.clear()
    else:
        st.last = (ev, _xcall(R, ev, st.seed))
    return st


def hx_check(st, init, hist, R):
    if st.last is None:
        R.outcome('config')
        return
    ev, (x, outs) = st.last
    method, n, N, sh = XCALLS[ev]
    prec = _cur_prec()
    after = f'after {hist[:-1]} (initial precision {init.get("prec", 64)})'
    tol = K_TOL * eps_of(prec) * 10
    e0 = energy(x)
    sc = shift_cls(sh)
    y, b, yi, bi = outs
    for first, back, tag in ((y, b, 'forward-first'), (yi, bi, 'inverse-first')):
        if first is FAILED or back is FAILED:
            continue
        R.expect_close(energy(first) if np.shape(first) == N else np.nan, e0, tol * e0, f'history:{method}:energy:{sc}:p{prec}', f'{ev} ({tag}): energy on the full band {after}')
        R.expect_close(back, x, tol, f'history:{method}:roundtrip:{sc}:p{prec}', f'{ev} ({tag}): round trip does not return the field {after}')
    # the same call in a fresh state of the executors under the same precision
    reset_executors(prec)
    try:
        _, fresh = _xcall(R, ev, st.seed, hygiene=False)
        for got, want, what in zip(outs, fresh, ('forward', 'return', 'inverse-first', 'its return')):
            if got is FAILED or want is FAILED:
                continue
            R.expect(np.asarray(got).dtype == np.asarray(want).dtype, f'history:{method}:depends-on-prior-calls:dtype', f'{ev} {what}: dtype {np.asarray(got).dtype} {after}, {np.asarray(want).dtype} in a fresh state')
            R.expect_close(got, np.asarray(want), tol, f'history:{method}:depends-on-prior-calls:{sc}:p{prec}', f'{ev} {what} {after} differs from the same call on fresh executors')
    finally:
        config.precision = 64
    R.nontrivial(len(hist) > 1)
    R.outcome(f'call:{method}:p{prec}')


def hx_canon(st):
    # the whole trace: state hidden in module-level caches the harness does not know about must not be merged away
    return json.dumps([_cur_prec()] + st.trace)


# ---------------------------------------------------------------------------------------------

def plan(tier, seed):
    B = 6 if tier == 'quick' else 9
    shapes = [[a, b] for a in range(1, B + 1) for b in range(1, B + 1)]
    shapes.sort(key=lambda s: (s[0] * s[1], s))
    fft_cases = [{'in': s, 'Q': Q} for s in shapes for Q in (1, 2, 3, 1.5)]
    band_cases = [{'in': s, 'out': [N0, N1]} for s in shapes for N0 in range(s[0], B + 1) for N1 in range(s[1], B + 1)]
    pub_cases = [{'n': s, 'M': M, 'wvl': wvl, 'efl': efl, 'dx': dx} for s in shapes for M in range(max(s), B + 2)
                 for (wvl, efl, dx) in ((0.5, 100.0, 0.1), (1.55, 37.5, 0.25))]
    Bf = 5 if tier == 'quick' else 8
    fshapes = [s for s in shapes if max(s) <= Bf]
    free_cases = [{'in': s, 'wvl': wvl, 'dx': dx, 'prec': p} for s in fshapes for wvl in (0.5, 1.55) for dx in (0.01, 0.25) for p in (64, 32)]
    rs = lambda: reset_executors(64)   # noqa
    # threshold alphabet: sides around powers of two / typical fast-path sizes, every residue mod 4 and both parities
    sides = [62, 63, 64, 65, 66, 126, 127, 128, 129, 130, 132, 256, 258] + ([] if tier == 'quick' else [255, 257, 300, 510, 512, 514, 1000, 1024, 1026])
    small_sides = [31, 32, 33, 63, 64, 65, 66] + ([] if tier == 'quick' else [127, 128, 129, 130])
    fl_cases = [{'in': [a, b], 'Q': 1} for a in sides for b in sides] + [{'in': [a, b], 'Q': 2} for a in small_sides for b in small_sides]
    fl_cases.sort(key=lambda c: (c['in'][0] * c['in'][1] * c['Q'] ** 2, c['in'], c['Q']))
    bl_in = [[63, 64], [64, 66], [100, 128], [127, 130], [128, 128], [130, 128]] + ([] if tier == 'quick' else [[255, 258], [256, 300], [512, 514]])
    bl_cases = [{'in': n, 'out': N} for n in bl_in for N in ([n[0], n[1]], [2 * n[0], 2 * n[1]], [n[0] + 1, n[1] + 3])]
    frl_cases = [{'in': s, 'wvl': wvl, 'dx': dx} for s in ([64, 64], [63, 66], [128, 130], [130, 128], [127, 129], [256, 258]) for (wvl, dx) in ((0.5, 0.01), (1.55, 0.25))]
    return [
        ScopeUnit('fft_route', fft_cases, run_fft,
                  f'every input shape in [1..{B}]^2 (square and not, every parity) x Q in {{1,2,3,1.5}} x precision {{64 / complex128, 32 / complex64}}: operator matrices (all complex deltas) of focus and unfocus must satisfy A^H A = I '
                  '(and A A^H = I at Q=1); unfocus(focus(.,Q),1) and focus(unfocus(.,Q),1) must equal the measured pad operator and be the identity after cropping with the harness\' own n//2 -> N//2 window; '
                  'pad2d\'s operator must be a 0/1 partial permutation; one seeded dense field through the functions and the Wavefront methods (energy, round trip, dx restored); non-trivial when the array has more than one sample', reset=rs),
        ScopeUnit('band_complete', band_cases, run_band,
                  f'every (input shape n, output shape N) with n in [1..{B}]^2 and n_axis <= N_axis <= {B} (real per-axis Q = N/n, integer and not) x {{mdft, czt}} x {{forward first, inverse first}} x precision {{64,32}}: '
                  'operator of the first leg must satisfy A^H A = I, return leg (Q chosen so that N*Q\' = n*Q) times first leg must be I, for shift (0,0) and, with the same shift on both legs, shifts (1,0), (0.5,1.25), (-2,3) samples; input-dtype alphabet {complex128, float64} at precision 64 / {complex64, float32} at 32: the operators of both legs built from REAL-dtype deltas must equal those from complex deltas; seeded dense field energy and round trip', reset=rs),
        ScopeUnit('band_complete_public', pub_cases, run_band_public,
                  f'every pupil shape in [1..{B}]^2 x focal grid M x M with max(n) <= M <= {B + 1} x 2 (wavelength, efl, dx) unit sets x {{mdft, czt}} x both directions: focus_fixed_sampling / unfocus_fixed_sampling called with the physical '
                  'output spacing wvl*efl/(dx*M) that makes the band complete; A^H A = I and return o forward = I on operator matrices, for shift 0 and for shifts (1,0), (0.5,1.25), (-2,3) samples given in each leg\'s physical output units; input-dtype alphabet {complex128, complex64, float64, float32}: both legs\' operators from every dtype equal the complex128 ones; Wavefront methods on a dense field', reset=rs),
        ScopeUnit('free_space', free_cases, run_free,
                  f'every shape in [1..{Bf}]^2 x wvl in {{0.5,1.55}} x dx in {{0.01,0.25}} x precision {{64,32}}; inside every case z ranges over {ZS}, all 16 ordered pairs (z1,z2), all sums and negations: '
                  '|tf| = 1, tf(0) = 1, tf(z1) tf(z2) = tf(z1+z2) on the grid and the doubled grid; operator matrices of angular_spectrum with Q=1 and Q=2 (padding form): AS(0) = id / zero padding, A^H A = I, AS(-z) AS(z) = I, '
                  'AS(z2) AS(z1) = AS(z1+z2) for every ordered pair; tf= form, Wavefront.free_space (dz, Q, tf) on a dense field: value, energy, inverse, metadata; tolerance 2e2*eps*(1 + largest kernel phase)', reset=rs),
        HistoryUnit('free_space_history', [{}], h_fresh, hfs_events, hfs_apply, hfs_check, h_canon, 2,
                    f'every history of length <= 2 over the call alphabet (shape, Q) in {FS_EVENTS} -- DIFFERENT unpadded shapes that share a padded working shape ((24,24), (24,16), (24,18)), smaller after larger and larger after smaller, '
                    'square and not -- of angular_spectrum + Wavefront.free_space on a dense field, nothing cleared in between; in every state the LAST call\'s operator laws are judged absolutely: AS(0,Q) = zero padding, A^H A = I, '
                    'AS(-z,1) AS(z,Q) = zero padding (operator matrices from all complex deltas), Wavefront.free_space = operator @ dense'),
        HistoryUnit('band_complete_history', [{}], h_fresh, hb_events, hb_apply, hb_check, h_canon, 2,
                    f'every history of length <= 2 over {{mdft, czt}} x Q in {{2, (2,3)}} x shapes {BAND_SHAPES} (shapes that share ONE axis\' parameters with a different partner axis) on the SHARED module-level executors, no clear() in between; '
                    'an event runs forward, return and inverse-first transforms of a dense field; in every state the LAST geometry\'s operators (all complex deltas, both orders) must equal the textbook sum, satisfy A^H A = I on the full band and return o forward = I'),
        HistoryUnit('executor_history', [{'prec': 64}, {'prec': 32}], hx_fresh, hx_events, hx_apply, hx_check, hx_canon, 3 if tier == 'quick' else 4,
                    f'every history up to depth {3 if tier == "quick" else 4} from initial precision 64 and 32 over events {XEVENTS} on the SHARED mdft / czt executors and config.precision: shifted and unshifted band-complete '
                    'transforms of the same lengths (and a square one whose input and output grids coincide), precision switches, repeated calls, clear(); a call event runs forward -> inverse and inverse -> forward '
                    'with the same shift on a dense field; states are never merged (canonical form = the trace); in every state after a call: energy conserved and round trip = field at 2e4*eps(current precision), '
                    'and all four outputs equal (values at that tolerance, and dtype) those of the same call after reset_executors under the same precision'),
        ScopeUnit('fft_route_large', fl_cases, run_fft_large,
                  f'threshold alphabet, NOT closed over the data dimension: every shape with both sides in {sides} at Q=1 and both sides in {small_sides} at Q=2 (every parity and residue mod 4 on each axis, '
                  'array sizes below and above 128*128 and 256*256) x precision {64,32} x 4 probe fields (impulse at the origin sample, at both far corners, seeded dense): energy of focus / unfocus, '
                  'impulse at the origin -> the constant 1/sqrt(N), unfocus(focus(x,Q),1) and focus(unfocus(x,Q),1) equal the harness-embedded x', reset=rs),
        ScopeUnit('band_complete_large', bl_cases, run_band_large,
                  f'threshold alphabet, NOT closed over the data dimension: inputs {bl_in} onto the full band of the same, doubled and (+1,+3) size x {{mdft, czt}} x both orders x 4 probe fields: energy and round trip', reset=rs),
        ScopeUnit('free_space_large', frl_cases, run_free_large,
                  'threshold alphabet, NOT closed over the data dimension: shapes (64,64),(63,66),(128,130),(130,128),(127,129),(256,258) x 2 (wvl, dx) x precision {64,32} x Q {1,2} x 3 probe fields x 2 (z1,z2): energy, AS(-z)AS(z) = id, additivity', reset=rs),
    ]
