"""C03 -- output sampling and coordinates are physically correct.

Oracle: CLOSED-FORM PHYSICS, no DFT code of any kind.

Sign convention (stated once, used for BOTH axes and ALL routes).  The library documents its forward
(pupil -> focal plane) kernel as exp(-2 pi i x u / (N Q)).  A pupil of N samples at spacing dx_p
(width D = N dx_p, coordinates x_j = (j - N//2) dx_p) carrying k waves of tilt across D,

    P(x) = exp(+2 pi i k x / D),

therefore focuses (focal length f, wavelength lam) to the *physical* position  x0 = + k lam f / D  along
that axis: positive coefficient -> positive coordinate.  Exactly, the focal field sampled at the physical
coordinate X is the finite geometric sum

    E(X) = sqrt(dx_p dx_f / (lam f)) * sum_{j=-N//2}^{N-1-N//2} exp(2 pi i j t),   t = k/N - X dx_p/(lam f)
    |E(X)| = sqrt(dx_p dx_f / (lam f)) * | sin(pi N t) / sin(pi t) |     (= N at integer t)

(lam in um, f and dx_p in mm, X and dx_f in um -> t is dimensionless; the prefactor is the energy preserving
1/sqrt(N Q) of the library, with N Q = lam f / (dx_p dx_f)).  Two axes: the product of the two 1-D factors,
axis 1 = x, axis 0 = y.  Reverse: a unit point source at the focal position (x0, y0) un-focuses (kernel
exp(+2 pi i ...)) to  sqrt(dx_f dx_p/(lam f))^2 * exp(+2 pi i (x_p x0 + y_p y0) / (lam f)).

Shift convention (taken from the documented matrix-DFT convention, prysm.fttools.MatrixDFTExecutor.
_setup_bases: the output coordinate vectors are displaced U -> U - s with shift = (sx, sy) in (x, y) order):
output sample i then shows the field of the physical coordinate (i - n//2) dx - s, i.e. the image content moves
by +s output units (towards larger index for positive s), for both methods and both axes.  A shifted field may
carry a unit-modulus factor per output sample (same convention as C01), so shifted results are compared in
modulus only.

What is NOT claimed: that the single `dx` reported by the FFT route describes a non-square padded grid (it
cannot: the two axes have different spacings lam f/(n_axis dx_p)).  For non-square pupils only the two
documented convention of HEAD is checked: the reported dx is the spacing of axis 1 (columns / x) for tall and wide arrays, a pure
x tilt lands at k lam f/D_x in the reported coordinates (and the reverse for a point source displaced along x), and
focus followed by unfocus(Q=1) reports the original pupil spacing again.
"""
import math

import numpy as np

from mc import ScopeUnit, HistoryUnit, FAILED
from mc.state import reset_executors

from prysm import propagation
from prysm.propagation import Wavefront

ID = 'C03'
ASSUMPTIONS = [
    'sign convention: pupil phase exp(+2 pi i k x/D) <-> focal position +k lam f/D, from the documented forward kernel exp(-2 pi i ...)',
    'shift direction from the documented mdft convention U -> U - s: image content moves by +s output units; shifted fields are judged in modulus (a unit-modulus factor per output sample is left free, as in C01)',
    'samples_out tuples are in array-axis order (rows, columns), as the engines treat them (the Wavefront docstring says (x, y); the order of a sample-count tuple is not part of C03)',
    'FFT route: the oracle is evaluated on whatever padded grid comes back; for NON-SQUARE arrays one reported dx cannot describe both axes: the harness holds the FFT route to the convention HEAD documents '
    '(pupil_sample_to_psf_sample: "samples ... present in both planes", called with data.shape[1]) -- the reported dx is the spacing of axis 1 (columns / x), lam f/(n_cols_padded dx), for tall and wide arrays -- '
    'as the documented convention, not as a physical necessity; nothing is claimed about the y axis of a non-square FFT grid',
    'normalisation: the energy preserving 1/sqrt(N Q) per axis of C01 is used as the amplitude of the closed form',
]

EPS = np.finfo(float).eps
TILTS1 = [1, -1, 2, -2, 0.5, -0.5, 1.25]
SHIFTS = [[0, 0], [1, 0], [0, -1], [-1, 2.5], [2.5, 1]]       # output samples, (x, y) order
DXRELS = [1.0, 0.5, 1.37]
SAMP = ['N', 'N+1', '2N+1']
UNITS = [[w, f, d] for w in (0.5, 1.0) for f in (100.0, 37.5) for d in (0.1, 0.25)]
QS = [1, 2, 3, 1.5]


def tilt_pairs():
    """(kx, ky): none, every k on x only, on y only, and on both with a DIFFERENT value on the other axis"""
    out = [[0, 0]]
    out += [[k, 0] for k in TILTS1]
    out += [[0, k] for k in TILTS1]
    out += [[k, TILTS1[(i + 3) % len(TILTS1)]] for i, k in enumerate(TILTS1)]
    return out


TILTS = tilt_pairs()
TILTS_LARGE = [[0, 0], [1, 0], [0, -2], [3, 1.25], [-0.5, 5]]


def par(n):
    return 'odd' if n % 2 else 'even'


def sq(n0, n1):
    return 'square' if n0 == n1 else 'nonsquare'


def ax(n):
    return (np.arange(n) - n // 2).astype(float)


# ---------------------------------------------------------------------------------------------
# closed forms

def dirichlet(N, t):
    """| sum over N consecutive integers j of exp(2 pi i j t) | = |sin(pi N t)/sin(pi t)|, well conditioned"""
    t = np.asarray(t, dtype=float)
    tr = t - np.round(t)
    small = np.abs(tr) < 1e-6
    den = np.where(small, 1.0, np.sin(np.pi * tr))
    big = np.abs(np.sin(np.pi * N * tr) / den)
    ser = N * (1 - (N * N - 1) * (np.pi * tr) ** 2 / 6)
    return np.where(small, ser, big)


def focal_modulus_1d(N, dxp, wvl, efl, k, X, dxf):
    """|E| along one axis at the physical focal coordinates X (um) for k waves of tilt over N samples of dxp (mm)"""
    t = k / N - np.asarray(X, dtype=float) * dxp / (wvl * efl)
    return math.sqrt(dxp * dxf / (wvl * efl)) * dirichlet(N, t)


def focal_modulus(n0, n1, dxp, wvl, efl, kx, ky, X, Y, dxf):
    """X, Y broadcastable coordinate arrays (um) -> modulus of the focal field"""
    return focal_modulus_1d(n0, dxp, wvl, efl, ky, Y, dxf) * focal_modulus_1d(n1, dxp, wvl, efl, kx, X, dxf)


def tilted_pupil(n0, n1, kx, ky):
    return np.exp(2j * np.pi * (ky * ax(n0)[:, None] / n0 + kx * ax(n1)[None, :] / n1))


def geom_sum(N, t):
    """sum_{j=-N//2}^{N-1-N//2} exp(2 pi i j t), complex, in closed form: exp(2 pi i c t) sin(pi N t)/sin(pi t) with the centre
    of the index range c = (N-1)/2 - N//2 (0 for odd N, -1/2 for even N)"""
    t = np.asarray(t, dtype=float)
    m = np.round(t)
    tr = t - m
    small = np.abs(tr) < 1e-6
    den = np.where(small, 1.0, np.sin(np.pi * tr))
    ratio = np.where(small, N * (1 - (N * N - 1) * (np.pi * tr) ** 2 / 6), np.sin(np.pi * N * tr) / den)
    sign = np.where(np.mod(m * (N - 1), 2) == 0, 1.0, -1.0)        # sin(pi N (m+tr))/sin(pi (m+tr)) = (-1)^(m(N-1)) sin(pi N tr)/sin(pi tr)
    c = (N - 1) / 2 - N // 2
    return sign * ratio * np.exp(2j * np.pi * c * t)


def fringe_pupil(n0, n1, kx, ky):
    """REAL pupil: cos of the tilt phase = half the sum of the +k and the -k tilted pupils (k = 0: the uniform pupil)"""
    return np.cos(2 * np.pi * (ky * ax(n0)[:, None] / n0 + kx * ax(n1)[None, :] / n1))


def fringe_modulus(n0, n1, dxp, wvl, efl, kx, ky, X, Y, amp):
    """|focal field| of fringe_pupil: two spots at +-(kx, ky) lam f/D adding coherently; amp = 2-D amplitude prefactor"""
    u = np.asarray(X, dtype=float) * dxp / (wvl * efl)
    v = np.asarray(Y, dtype=float) * dxp / (wvl * efl)
    plus = geom_sum(n0, ky / n0 - v) * geom_sum(n1, kx / n1 - u)
    minus = geom_sum(n0, -ky / n0 - v) * geom_sum(n1, -kx / n1 - u)
    return amp * np.abs(0.5 * (plus + minus))


DTYPES = {'c128': np.complex128, 'f64': np.float64, 'f32': np.float32, 'c64': np.complex64}
DT_ORDER = ['c128', 'f64', 'f32', 'c64']
EPS32_FACTOR = float(np.finfo(np.float32).eps / EPS)
# pupil inputs besides the complex128 tilted pupil: the same in complex64, and the real fringe in every dtype
PUPIL_VARIANTS = [['tilt', 'c64'], ['fringe', 'f64'], ['fringe', 'f32'], ['fringe', 'c128'], ['fringe', 'c64']]


def tol_factor(dt):
    """tolerance by input dtype: single precision inputs are transformed (czt, numpy fft) in single precision"""
    return EPS32_FACTOR if dt in ('f32', 'c64') else 1.0


def in_tag(dt):
    return '' if dt == 'c128' else f':in={dt}'


def pick(items, tier_all, offset, index):
    """thorough: every item; quick: one item, rotating with the running index so that every (configuration, item) pair of the
    product is met across neighbouring configurations"""
    return list(items) if tier_all else [items[(offset + index) % len(items)]]


def tol_for(n0, n1, amp, extent):
    """k * eps * cond: cond = sum of |terms| (n0*n1*amp) times the largest phase argument (~ 2 pi extent) whose rounding
    the sum inherits; extent = largest |t|*N over the grid, at least 1"""
    return 1e3 * EPS * n0 * n1 * amp * max(1.0, extent)


def as_array(R, got, sig, ndim=2):
    """validated ndarray view of an implementation output or None (violation recorded)"""
    if got is FAILED:
        return None
    try:
        a = np.asarray(got)
    except Exception as e:   # noqa
        R.violation(sig, f'output is not an array: {type(e).__name__}')
        return None
    if a.dtype.kind not in 'fc' or a.ndim != ndim:
        R.violation(sig, f'output has dtype {a.dtype}, ndim {a.ndim}')
        return None
    return a


def scalar(R, got, sig):
    if got is FAILED:
        return None
    try:
        v = float(got)
    except Exception as e:   # noqa
        R.violation(sig, f'not a scalar: {type(e).__name__}: {got!r}')
        return None
    if not math.isfinite(v):
        R.violation(sig, f'non-finite value {v}')
        return None
    return v


def out_samples(form, n0, n1):
    if form == 'N':
        return (n0, n1)
    if form == 'N+1':
        return (n0 + 1, n1 + 1)
    return (2 * n0 + 1, 2 * n1 + 1)


def shift_class(sh):
    if sh[0] == 0 and sh[1] == 0:
        return 'noshift'
    return 'shift-int' if float(sh[0]).is_integer() and float(sh[1]).is_integer() else 'shift-frac'


def coord_vectors(R, rd, shape, sig):
    """x (axis 1) and y (axis 0) coordinate grids reported by a RichData; None when unusable"""
    x = R.call(lambda: rd.x)
    y = R.call(lambda: rd.y)
    x, y = as_array(R, x, sig + ':coords'), as_array(R, y, sig + ':coords')
    if x is None or y is None:
        return None
    if x.shape != tuple(shape) or y.shape != tuple(shape):
        R.violation(sig + ':coords', f'coordinate grids {x.shape}, {y.shape} for data {tuple(shape)}')
        return None
    return x, y


# ---------------------------------------------------------------------------------------------
# (a) + (e): fixed-sampling focus

def run_fixed_focus(case, seed, R):
    n0, n1 = case['n']
    wvl, efl, dxp = case['units']
    rel, form, sh = case['dxrel'], case['samp'], case['shift']
    native = wvl * efl / (n1 * dxp)                    # lam f / D along x
    dxo = native * rel
    so = out_samples(form, n0, n1)
    s_units = (sh[0] * dxo, sh[1] * dxo)               # what the caller passes: output units, (x, y)
    # physical coordinates shown by output sample i: (i - n//2) dx - s
    Xo = ax(so[1]) * dxo
    Yo = ax(so[0]) * dxo
    X = (Xo - s_units[0])[None, :]
    Y = (Yo - s_units[1])[:, None]
    amp = dxp * dxo / (wvl * efl)
    extent = max(np.max(np.abs(X)) * n1, np.max(np.abs(Y)) * n0) * dxp / (wvl * efl) + 2.0 + case.get('kmax', 0)
    tol = tol_for(n0, n1, amp, extent) * case.get('tolx', 1)
    cell = f'{sq(n0, n1)}:{shift_class(sh)}' + case.get('tag', '')
    samples_arg = so if so[0] != so[1] else so[0]
    for ti, (kx, ky) in enumerate(case.get('tilts', TILTS)):
        p = tilted_pupil(n0, n1, kx, ky)
        want = focal_modulus(n0, n1, dxp, wvl, efl, kx, ky, X, Y, dxo)
        for method in ('mdft', 'czt'):
            sig = f'focus_fixed_sampling:{method}:{cell}'
            got = R.call(propagation.focus_fixed_sampling, p.copy(), dxp, efl, wvl, dxo, samples_arg, shift=s_units, method=method)
            a = as_array(R, got, sig)
            if a is not None:
                R.expect_close(np.abs(a), want, tol, sig,
                               f'|field| vs closed-form kernel centred at the physical spot ({kx}, {ky}) lam f/D, grid dx={dxo:.6g}um displaced by shift {sh} samples')
            # quick tier: per tilt either one more input variant or the Wavefront-method path, alternating with the running
            # index of the configuration (thorough: both, every variant)
            alld, rot = case.get('all_dtypes'), case.get('rot', 0)
            for kind, dt in (pick(PUPIL_VARIANTS, alld, rot // 2, ti // 2) if alld or (ti + rot) % 2 == 0 else []):
                if kind == 'tilt':
                    pv, wv = p.astype(DTYPES[dt]), want
                else:
                    pv = fringe_pupil(n0, n1, kx, ky).astype(DTYPES[dt])
                    wv = fringe_modulus(n0, n1, dxp, wvl, efl, kx, ky, X, Y, amp)
                sigv = sig + (':fringe' if kind == 'fringe' else '') + in_tag(dt)
                got = R.call(propagation.focus_fixed_sampling, pv, dxp, efl, wvl, dxo, samples_arg, shift=s_units, method=method)
                a = as_array(R, got, sigv)
                if a is not None:
                    R.expect_close(np.abs(a), wv, 2 * tol * tol_factor(dt), sigv,
                                   f'|field| of the {dt} {kind} pupil ({kx}, {ky}) vs closed form (spots at +-k lam f/D adding coherently for the fringe)')
            if not (alld or (ti + rot) % 2 == 1):
                continue
            w = Wavefront(p.copy(), wvl, dxp, 'pupil')
            out = R.call(w.focus_fixed_sampling, efl, dxo, so, shift=s_units, method=method)
            if out is FAILED:
                continue
            sigw = 'Wavefront.' + sig
            d = scalar(R, getattr(out, 'dx', None), sigw + ':dx')
            R.expect(d == dxo and getattr(out, 'space', None) == 'psf', sigw + ':dx', f'reported dx {d} / space, requested {dxo}')
            a = as_array(R, getattr(out, 'data', None), sigw)
            if a is None:
                continue
            if a.shape != so:
                R.violation(sigw, f'shape {a.shape} != {so}')
                continue
            inten = R.call(lambda: out.intensity)
            cv = None if inten is FAILED else coord_vectors(R, inten, so, sigw)
            if cv is None:
                continue
            # where the library says the samples are (its own coordinate grids), displaced by the requested shift
            want_w = focal_modulus(n0, n1, dxp, wvl, efl, kx, ky, cv[0] - s_units[0], cv[1] - s_units[1], dxo)
            R.expect_close(np.abs(a), want_w, tol, sigw, '|field| vs closed form evaluated on the reported intensity.x/.y grids')
    R.nontrivial()
    R.outcome(f'focus:{cell}')


# ---------------------------------------------------------------------------------------------
# (a) + (b): FFT route, square pupils

def run_fft_focus(case, seed, R):
    n, Q = case['n'], case['Q']
    wvl, efl, dxp = case['units']
    cell = f'{par(n)}:Q={"int" if float(Q).is_integer() else "frac"}' + (':threshold' if case.get('large') else '') + case.get('tag', '')
    sig = f'Wavefront.focus:{cell}'
    for kx, ky in (TILTS_LARGE if case.get('large') else TILTS):
        p = tilted_pupil(n, n, kx, ky)
        w = Wavefront(p.copy(), wvl, dxp, 'pupil')
        out = R.call(w.focus, efl, Q)
        if out is FAILED:
            continue
        a = as_array(R, getattr(out, 'data', None), sig)
        dx = scalar(R, getattr(out, 'dx', None), sig + ':dx')
        if a is None or dx is None:
            continue
        # whatever size the route pads to (ceil(N Q) today) is its own business; the physics below holds for the grid that came back
        npad = a.shape[0]
        if a.shape[0] != a.shape[1] or npad < n:
            R.violation(sig + ':shape', f'focal array {a.shape} from a square {n}x{n} pupil')
            continue
        R.expect(getattr(out, 'space', None) == 'psf', sig + ':space', 'space of the result')
        inten = R.call(lambda: out.intensity)
        cv = None if inten is FAILED else coord_vectors(R, inten, a.shape, sig)
        if cv is None:
            continue
        # the closed form at the coordinates the library reports.  Amplitude: unitary FFT over npad samples per axis;
        # NOT derived from the reported dx, so that a wrong dx cannot rescale the oracle along with the coordinates
        amp1 = 1 / math.sqrt(npad)
        t_x = kx / n - cv[0] * dxp / (wvl * efl)
        t_y = ky / n - cv[1] * dxp / (wvl * efl)
        want = amp1 * dirichlet(n, t_y) * amp1 * dirichlet(n, t_x)
        tol = tol_for(n, n, amp1 * amp1, n / 2 + 2 + max(abs(kx), abs(ky)))
        R.expect_close(np.abs(a), want, tol, sig,
                       f'|field| vs closed-form kernel at the reported coordinates (reported dx={dx:.6g}um), spot at ({kx}, {ky}) lam f/D')
        I = as_array(R, getattr(inten, 'data', None), sig + ':intensity')
        if I is not None:
            R.expect_close(I, want ** 2, 2 * tol * max(1.0, float(np.max(want))), sig + ':intensity', 'intensity vs closed form squared')
        # the grids themselves step by the reported dx from an origin at n//2
        R.expect_close(cv[0], np.broadcast_to(ax(npad)[None, :] * dx, a.shape), 4 * EPS * npad * abs(dx), sig + ':coords', 'intensity.x vs (i - n//2) dx')
        R.expect_close(cv[1], np.broadcast_to(ax(npad)[:, None] * dx, a.shape), 4 * EPS * npad * abs(dx), sig + ':coords', 'intensity.y vs (i - n//2) dx')
        # the other input dtypes / the real fringe pupil through the same route, judged on the same reported grid
        amp2 = amp1 * amp1
        for kind, dt in PUPIL_VARIANTS:
            pv = (p if kind == 'tilt' else fringe_pupil(n, n, kx, ky)).astype(DTYPES[dt])
            wv = want if kind == 'tilt' else fringe_modulus(n, n, dxp, wvl, efl, kx, ky, cv[0], cv[1], amp2)
            sigv = sig + (':fringe' if kind == 'fringe' else '') + in_tag(dt)
            o2 = R.call(Wavefront(pv, wvl, dxp, 'pupil').focus, efl, Q)
            if o2 is FAILED:
                continue
            a2 = as_array(R, getattr(o2, 'data', None), sigv)
            d2 = scalar(R, getattr(o2, 'dx', None), sigv + ':dx')
            if a2 is None or d2 is None:
                continue
            R.expect(d2 == dx, sigv + ':dx', f'reported dx {d2} depends on the input dtype ({dx} for complex128)')
            R.expect_close(np.abs(a2), wv, 2 * tol * tol_factor(dt), sigv, f'|field| of the {dt} {kind} pupil ({kx}, {ky}) vs closed form at the reported coordinates')
        # (b) the same spot through both fixed-sampling routes on the grid the FFT route reports
        for method in ('mdft', 'czt'):
            g = R.call(propagation.focus_fixed_sampling, p.copy(), dxp, efl, wvl, dx, npad, method=method)
            g = as_array(R, g, f'focus-vs-{method}:{cell}')
            if g is not None:
                R.expect_close(g, a, tol, f'focus-vs-{method}:{cell}',
                               f'{method} at the dx reported by the FFT route does not reproduce the FFT route (spot ({kx}, {ky}))')
    R.nontrivial()
    R.outcome('fft:' + cell)


def run_fft_nonsquare(case, seed, R):
    """not claimed: that one dx describes both axes of a non-square grid.  Checked: the DOCUMENTED convention of HEAD -- the
    reported dx is the spacing of axis 1 (columns / x), lam f/(n_cols_padded dx_in), for tall and wide arrays alike, so a
    pure x tilt lands at k lam f/D_x in the reported coordinates and a point source displaced along x un-focuses to the
    x slope per reported pupil sample -- and focus . unfocus(Q=1) reports the pupil spacing again"""
    n0, n1 = case['n']
    Q = case['Q']
    wvl, efl, dxp = case['units']
    cls = 'tall' if n0 > n1 else 'wide'
    dx = None
    for kx in (1, -2, 0.5):
        p = tilted_pupil(n0, n1, kx, 0)
        w = Wavefront(p, wvl, dxp, 'pupil')
        out = R.call(w.focus, efl, Q)
        if out is FAILED:
            continue
        sig = f'Wavefront.focus:nonsquare:{cls}'
        dx = scalar(R, getattr(out, 'dx', None), sig + ':dx')
        a = as_array(R, getattr(out, 'data', None), sig)
        if dx is None or a is None:
            continue
        p0, p1 = a.shape
        if p0 < n0 or p1 < n1:
            R.violation(sig + ':shape', f'focal array {a.shape} from a {n0}x{n1} pupil')
            continue
        want_dx = wvl * efl / (p1 * dxp)
        R.expect(abs(dx - want_dx) <= 8 * EPS * want_dx, sig + ':dx',
                 f'reported dx {dx} is not the x (columns) spacing lam f/(n_cols dx) = {want_dx} of the {a.shape} focal grid (rows: {wvl * efl / (p0 * dxp)})')
        inten = R.call(lambda: out.intensity)
        cv = None if inten is FAILED else coord_vectors(R, inten, a.shape, sig)
        if cv is None:
            continue
        # the row through the y origin (t_y = 0 exactly, whatever the y spacing): Dirichlet kernel along x at the reported x
        row = p0 // 2
        want = (n0 / math.sqrt(p0)) * (1 / math.sqrt(p1)) * dirichlet(n1, kx / n1 - cv[0][row, :] * dxp / (wvl * efl))
        R.expect_close(np.abs(a[row, :]), want, tol_for(n0, n1, 1 / math.sqrt(p0 * p1), n1 / 2 + 4), sig + ':x-spot',
                       f'|field| along the x axis vs closed-form kernel centred at {kx} lam f/D_x in the reported coordinates (reported dx={dx:.6g})')
        back = R.call(out.unfocus, efl, 1)
        if back is not FAILED:
            d2 = scalar(R, getattr(back, 'dx', None), 'Wavefront.unfocus:nonsquare:dx')
            if d2 is not None:
                # the true pupil spacing of the padded grid is dxp again along both axes
                R.expect(abs(d2 - dxp) <= 16 * EPS * dxp, 'Wavefront.focus-unfocus:nonsquare:dx-roundtrip',
                         f'focus(Q={Q}) then unfocus(Q=1) reports pupil dx {d2}, the field lives on dx {dxp}')
    # reverse: a point source displaced along x in a non-square focal array
    dxf = wvl * efl / (n1 * dxp)
    for j in sorted({0, n1 - 1, min(n1 - 1, n1 // 2 + 1)}):
        d = np.zeros((n0, n1), dtype=complex)
        d[n0 // 2, j] = 1
        x0 = (j - n1 // 2) * dxf
        sig = f'Wavefront.unfocus:nonsquare:{cls}'
        out = R.call(Wavefront(d, wvl, dxf, 'psf').unfocus, efl, Q)
        if out is FAILED:
            continue
        dp = scalar(R, getattr(out, 'dx', None), sig + ':dx')
        a = as_array(R, getattr(out, 'data', None), sig)
        if dp is None or a is None or a.shape[1] < 2:
            continue
        want_dp = wvl * efl / (a.shape[1] * dxf)
        R.expect(abs(dp - want_dp) <= 8 * EPS * want_dp, sig + ':dx', f'reported pupil dx {dp} is not the x (columns) spacing lam f/(n_cols dx_f) = {want_dp} of the {a.shape} grid')
        amp = 1 / math.sqrt(a.shape[0] * a.shape[1])
        tol = 1e3 * EPS * (2 + n1)
        if R.expect_close(np.abs(a), np.full(a.shape, amp), tol * amp, sig + ':modulus', 'a point source must un-focus to a uniform modulus'):
            rx = a[:, 1:] / a[:, :-1]
            R.expect_close(rx, np.full(rx.shape, np.exp(2j * np.pi * dp * x0 / (wvl * efl))), tol, sig + ':slope-x',
                           f'phase step between x neighbours vs exp(+2 pi i dx_reported x0/(lam f)), x0={x0:.6g}um')
    R.nontrivial()
    R.outcome('fft:nonsquare:' + cls)


# ---------------------------------------------------------------------------------------------
# shared chirp-Z / matrix-DFT executors across propagations of different sizes (history)

def _fast_len(n):
    try:
        from scipy.fft import next_fast_len
        return int(next_fast_len(int(n)))
    except Exception:   # noqa
        return 1 << int(math.ceil(math.log2(n)))


class SizeState:
    def __init__(self, init):
        self.init = init
        self.last = None
        self.done = []


def s_fresh(init, seed):
    reset_executors(64)          # the ONLY clear(): inside a history the shared executors keep what earlier calls left
    _scrub_module_state()
    return SizeState(init)


def s_events(init, hist, st):
    return init['events']


def s_apply(st, ev, R):
    # ev = [direction, method, n_in, n_out]; spacings are FIXED by the init so that dx_in dx_out/(lam f) is the same for every event
    direction, method, n, M = ev
    wvl, efl, dxp, dxf = st.init['wvl'], st.init['efl'], st.init['dxp'], st.init['dxf']
    k = st.init['k']
    if direction == 'focus':
        p = tilted_pupil(n, n, k[0], k[1])
        out = R.call(Wavefront(p, wvl, dxp, 'pupil').focus_fixed_sampling, efl, dxf, M, method=method, sig=f'sizes:focus:{method}:exception')
    else:
        d = np.zeros((n, n), dtype=complex)
        j = (n // 2 + k[1], n // 2 + k[0])
        d[j] = 1
        out = R.call(Wavefront(d, wvl, dxf, 'psf').unfocus_fixed_sampling, efl, dxp, M, method=method, sig=f'sizes:unfocus:{method}:exception')
    st.last = (ev, out)
    st.done.append([ev[0], ev[1], ev[2], ev[3]])
    return st


def s_check(st, init, hist, R):
    if st.last is None:
        return
    (direction, method, n, M), out = st.last
    if out is FAILED:
        return
    wvl, efl, dxp, dxf, k = init['wvl'], init['efl'], init['dxp'], init['dxf'], init['k']
    sig = f'sizes:{direction}:{method}:after-other-sizes' if len(hist) > 1 else f'sizes:{direction}:{method}:first'
    a = as_array(R, getattr(out, 'data', None), sig)
    if a is None:
        return
    if a.shape != (M, M):
        R.violation(sig, f'shape {a.shape} != {(M, M)}')
        return
    amp = dxp * dxf / (wvl * efl)
    if direction == 'focus':
        cv = coord_vectors(R, out.intensity, a.shape, sig)
        if cv is None:
            return
        want = focal_modulus(n, n, dxp, wvl, efl, k[0], k[1], cv[0], cv[1], dxf)
        extent = (M / 2) * dxf * dxp / (wvl * efl) * n + 2 + max(abs(k[0]), abs(k[1]))
        R.expect_close(np.abs(a), want, tol_for(n, n, amp, extent), sig,
                       f'{method}: pupil {n} -> {M} samples after {hist[:-1]}: |field| vs closed-form kernel centred at k lam f/D on the reported grid')
    else:
        x0, y0 = k[0] * dxf, k[1] * dxf
        xp = ax(M) * dxp
        arg = 2 * np.pi * (xp[None, :] * x0 + xp[:, None] * y0) / (wvl * efl)
        R.expect_close(a, amp * np.exp(1j * arg), 1e3 * EPS * amp * (2 + float(np.max(np.abs(arg)))), sig,
                       f'{method}: focal {n} -> pupil {M} samples after {hist[:-1]}: field of a point source vs exp(+2 pi i x x0/(lam f))')
    R.nontrivial(len(hist) > 1)
    R.outcome(f'{direction}:{method}')


def s_canon(st):
    """the shared executors remember every distinct call made so far (their cache keys); the next answer can depend on that set
    and, for a cache that keeps the latest entry per partial key, on the order -> the ordered list of distinct calls"""
    seen, out = set(), []
    for e in st.done:
        t = tuple(e)
        if t not in seen:
            seen.add(t)
            out.append(t)
    return tuple(out)


def size_inits(quick):
    """per init: one fixed pair of spacings and a family of sizes that share a fast FFT length n_in + n_out - 1 -> K;
    events: the fixed pupil to every output count, and every pupil size to the fixed output count, both methods (czt shares K, mdft as control)"""
    fams = [
        # (fixed n, outputs) ; (inputs, fixed M)
        {'n': 5, 'outs': [9, 10, 8], 'ins': [4, 5], 'M': 10},        # 5+9-1 = 13 -> 14 = 5+10-1
        {'n': 9, 'outs': [15, 16], 'ins': [8, 9], 'M': 16},          # 23 -> 24
        {'n': 10, 'outs': [28, 29, 31], 'ins': [10, 11], 'M': 28},   # 37, 38, 40 -> 40 ; 10+28-1 = 37, 11+28-1 = 38 -> 40
    ]
    if not quick:
        fams.append({'n': 48, 'outs': [72, 66, 67, 70], 'ins': [46, 48], 'M': 72})   # all K = 120
    inits = []
    for f in fams:
        wvl, efl, dxp = 0.5, 100.0, 0.1
        dxf = 0.73 * wvl * efl / (f['n'] * dxp)
        ev = []
        for method in ('czt', 'mdft'):
            ev += [['focus', method, f['n'], M] for M in f['outs']]
            ev += [['focus', method, n, f['M']] for n in f['ins'] if [n, f['M']] not in [[f['n'], M] for M in f['outs']]]
        ev += [['unfocus', 'czt', f['n'], M] for M in f['outs'][:2]]
        inits.append({'wvl': wvl, 'efl': efl, 'dxp': dxp, 'dxf': dxf, 'k': [1, -2], 'events': ev,
                      'fast_lens': sorted({_fast_len(e[2] + e[3] - 1) for e in ev})})
    return inits


# ---------------------------------------------------------------------------------------------
# shared executors across propagations of the SAME pair of sizes at OTHER samplings, both directions (history)

# shift in output samples; (s * d) / d == s exactly for s in {1, -2}, so the forward and the reverse trip hand the engines
# the very same shift whatever the spacings are
Q_SHIFTS = [[0, 0], [1, -2]]


def q_apply(st, ev, R):
    # ev = [direction, method, n_in, n_out, sampling index, shift index]
    direction, method, n, M, si, hi = ev
    wvl, efl, dxp, dxf = st.init['samplings'][si]
    sh, k = Q_SHIFTS[hi], st.init['k']
    if direction == 'focus':
        su = (sh[0] * dxf, sh[1] * dxf)
        p = tilted_pupil(n, n, k[0], k[1])
        out = R.call(Wavefront(p, wvl, dxp, 'pupil').focus_fixed_sampling, efl, dxf, M, shift=su, method=method, sig=f'samplings:focus:{method}:exception')
    else:
        su = (sh[0] * dxp, sh[1] * dxp)
        d = np.zeros((n, n), dtype=complex)
        d[n // 2, n // 2] += 1
        d[n // 2 + k[1], n // 2 + k[0]] += 1
        out = R.call(Wavefront(d, wvl, dxf, 'psf').unfocus_fixed_sampling, efl, dxp, M, shift=su, method=method, sig=f'samplings:unfocus:{method}:exception')
    st.last = (ev, out)
    st.done.append(list(ev))
    return st


def q_check(st, init, hist, R):
    if st.last is None:
        return
    (direction, method, n, M, si, hi), out = st.last
    if out is FAILED:
        return
    wvl, efl, dxp, dxf = init['samplings'][si]
    sh, k = Q_SHIFTS[hi], init['k']
    sig = f'samplings:{direction}:{method}:' + ('after-other-calls' if len(hist) > 1 else 'first')
    a = as_array(R, getattr(out, 'data', None), sig)
    if a is None:
        return
    if a.shape != (M, M):
        R.violation(sig, f'shape {a.shape} != {(M, M)}')
        return
    amp = dxp * dxf / (wvl * efl)
    if direction == 'focus':
        R.expect(getattr(out, 'dx', None) == dxf, sig + ':dx', f'reported dx {getattr(out, "dx", None)}, requested {dxf}')
        X = (ax(M) * dxf - sh[0] * dxf)[None, :]
        Y = (ax(M) * dxf - sh[1] * dxf)[:, None]
        want = focal_modulus(n, n, dxp, wvl, efl, k[0], k[1], X, Y, dxf)
        extent = (M / 2 + 2) * dxf * dxp / (wvl * efl) * n + 2 + max(abs(k[0]), abs(k[1]))
        R.expect_close(np.abs(a), want, tol_for(n, n, amp, extent), sig,
                       f'{method}: pupil {n} -> {M} samples, dx {dxp:.6g}mm -> {dxf:.6g}um, lam {wvl}, shift {sh} samples, after {hist[:-1]}: |field| vs closed-form kernel centred at k lam f/D on the requested grid')
    else:
        R.expect(getattr(out, 'dx', None) == dxp, sig + ':dx', f'reported dx {getattr(out, "dx", None)}, requested {dxp}')
        x0, y0 = k[0] * dxf, k[1] * dxf
        xp = ax(M) * dxp - sh[0] * dxp
        yp = ax(M) * dxp - sh[1] * dxp
        arg = 2 * np.pi * (xp[None, :] * x0 + yp[:, None] * y0) / (wvl * efl)
        want = amp * (1 + np.exp(1j * arg))
        tol = 2e3 * EPS * amp * (2 + float(np.max(np.abs(arg))))
        what = f'{method}: focal {n} -> pupil {M} samples, dx {dxf:.6g}um -> {dxp:.6g}mm, lam {wvl}, shift {sh} samples, after {hist[:-1]}: field of two point sources (origin, ({x0:.6g}, {y0:.6g})um) vs 1 + exp(+2 pi i x x0/(lam f))'
        if any(sh):
            R.expect_close(np.abs(a), np.abs(want), tol, sig, '|.| of the ' + what)
        else:
            R.expect_close(a, want, tol, sig, what)
    R.nontrivial(len(hist) > 1)
    R.outcome(f'{direction}:{method}')


def sampling_inits(quick):
    """per init: two sizes A, B and a sampling alphabet [lam, f, dx_pupil, dx_focal]: the first is the reference; the others change
    the focal spacing, the pupil spacing + wavelength, the focal length -- each changes Q = lam f/(n dx_in dx_out) of every trip.
    Events: {focus, unfocus} x {mdft, czt} x (n_in, n_out) in {(A,B), (B,A), (A,A)} x sampling x shift in Q_SHIFTS.  A trip B -> A at
    the sampling of an earlier trip A -> B is the matched return trip (Q_back n_back == Q_out n_out); at another sampling it is not."""
    fams = [{'A': 6, 'B': 9, 'k': [1, -2]}] + ([] if quick else [{'A': 8, 'B': 5, 'k': [-2, 1]}, {'A': 7, 'B': 12, 'k': [2, 3]}])
    inits = []
    for f in fams:
        A, B = f['A'], f['B']
        wvl, efl, dxp = 0.5, 100.0, 0.1
        dxf = 0.73 * wvl * efl / (A * dxp)
        samplings = [[wvl, efl, dxp, dxf], [wvl, efl, dxp, 1.7 * dxf], [0.6, efl, 0.08, dxf]] + ([] if quick else [[wvl, 37.5, dxp, dxf]])
        ev = []
        for method in ('mdft', 'czt'):
            for direction in ('focus', 'unfocus'):
                for n, M in ([A, B], [B, A], [A, A]):
                    if method == 'czt' and n == M:
                        continue                      # czt is the control; its own size-sharing state is the business of size_history
                    for si in range(len(samplings)):
                        for hi in range(len(Q_SHIFTS)):
                            ev.append([direction, method, n, M, si, hi])
        inits.append({'samplings': samplings, 'k': f['k'], 'events': ev})
    return inits


# ---------------------------------------------------------------------------------------------
# (c): reverse

def positions(n0, n1, every):
    if every:
        return [(i, j) for i in range(n0) for j in range(n1)]
    c0, c1 = n0 // 2, n1 // 2
    out = []
    for j in range(n1):
        out.append((c0, j))
    for i in range(n0):
        out.append((i, c1))
    for t in range(max(n0, n1)):
        out.append((t % n0, t % n1))
        out.append((t % n0, (n1 - 1 - t) % n1))
    seen, res = set(), []
    for q in out:
        if q not in seen:
            seen.add(q)
            res.append(q)
    return res


def slope_checks(R, a, x0, y0, dxp_out, wvl, efl, amp, sig, tf=1.0):
    """phase slope per axis from ratios of neighbouring samples, unit-modulus pattern"""
    n0, n1 = a.shape
    tol = 1e3 * EPS * tf * max(1.0, (abs(x0) * n1 + abs(y0) * n0) * dxp_out / (wvl * efl))
    if not R.expect_close(np.abs(a), np.full(a.shape, amp), tol * amp, sig + ':modulus', 'a point source must un-focus to a uniform modulus'):
        return
    if n1 > 1:
        rx = a[:, 1:] / a[:, :-1]
        R.expect_close(rx, np.full(rx.shape, np.exp(2j * np.pi * dxp_out * x0 / (wvl * efl))), tol, sig + ':slope-x',
                       f'phase step between x neighbours vs exp(+2 pi i dx_p x0/(lam f)), x0={x0:.6g}um')
    if n0 > 1:
        ry = a[1:, :] / a[:-1, :]
        R.expect_close(ry, np.full(ry.shape, np.exp(2j * np.pi * dxp_out * y0 / (wvl * efl))), tol, sig + ':slope-y',
                       f'phase step between y neighbours vs exp(+2 pi i dx_p y0/(lam f)), y0={y0:.6g}um')


def run_unfocus_fft(case, seed, R):
    n, Q = case['n'], case['Q']
    wvl, efl, dxp = case['units']
    dxf = wvl * efl / (n * dxp)               # a focal grid that belongs to the pupil alphabet
    cell = f'{par(n)}:Q={"int" if float(Q).is_integer() else "frac"}' + (':threshold' if case.get('large') else '') + case.get('tag', '')
    pos = [(n // 2, n // 2), (0, 0), (n - 1, n // 3), (n // 3, n - 1)] if case.get('large') else positions(n, n, case['every'])
    for pi_, (i, j) in enumerate(pos):
        x0, y0 = (j - n // 2) * dxf, (i - n // 2) * dxf
        # a point source is a REAL array as naturally as a complex one: every input dtype must give the same pupil tilt
        for dt in pick(DT_ORDER, case.get('all_dtypes'), case.get('rot', 0), pi_):
            tf = tol_factor(dt)
            sig = f'Wavefront.unfocus:{cell}' + in_tag(dt)
            d = np.zeros((n, n), dtype=DTYPES[dt])
            d[i, j] = 1
            w = Wavefront(d, wvl, dxf, 'psf')
            out = R.call(w.unfocus, efl, Q)
            if out is FAILED:
                continue
            a = as_array(R, getattr(out, 'data', None), sig)
            dx = scalar(R, getattr(out, 'dx', None), sig + ':dx')
            if a is None or dx is None:
                continue
            npad = a.shape[0]
            if a.shape[0] != a.shape[1] or npad < n:
                R.violation(sig + ':shape', f'pupil array {a.shape} from a square {n}x{n} focal array')
                continue
            amp = 1.0 / npad                          # unitary inverse FFT over npad x npad samples
            R.expect(getattr(out, 'space', None) == 'pupil', sig + ':space', 'space of the result')
            # slope per REPORTED pupil sample
            slope_checks(R, a, x0, y0, dx, wvl, efl, amp, sig, tf)
            xp = ax(npad) * dx
            want = amp * np.exp(2j * np.pi * (xp[None, :] * x0 + xp[:, None] * y0) / (wvl * efl))
            tol = 1e3 * EPS * amp * (npad + 2) * tf
            R.expect_close(a, want, tol, sig, f'pupil field of a {dt} point source at ({x0:.6g}, {y0:.6g})um vs exp(+2 pi i (x x0 + y y0)/(lam f)) on the reported grid dx={dx:.6g}mm')
            # the reverse of the reverse: the reported pupil spacing focuses the tilt back onto the source sample
            for method in ('mdft', 'czt'):
                sgm = f'unfocus-vs-{method}:{cell}' + in_tag(dt)
                g = R.call(propagation.unfocus_fixed_sampling, d.copy(), dxf, efl, wvl, dx, npad, method=method)
                g = as_array(R, g, sgm)
                if g is not None:
                    R.expect_close(g, want, 2 * tol, sgm, f'{method} at the reported pupil dx: pupil field of a {dt} point source at ({x0:.6g}, {y0:.6g})um vs closed form')
    R.nontrivial()
    R.outcome('unfocus_fft:' + cell)


def run_fixed_unfocus(case, seed, R):
    n0, n1 = case['n']                         # focal array
    wvl, efl, dxp = case['units']
    rel, form, sh = case['dxrel'], case['samp'], case['shift']
    dxf = wvl * efl / (n1 * dxp)               # focal spacing (um) from the alphabet
    dxo = dxp * rel                            # requested pupil spacing (mm)
    so = out_samples(form, n0, n1)
    s_units = (sh[0] * dxo, sh[1] * dxo)
    shifted = any(sh)
    amp = dxf * dxo / (wvl * efl)              # (1/sqrt(N Q))^2 with N Q = lam f/(dx_f dx_p) per axis
    xp = ax(so[1]) * dxo - s_units[0]
    yp = ax(so[0]) * dxo - s_units[1]
    cell = f'{sq(n0, n1)}:{shift_class(sh)}' + case.get('tag', '')
    samples_arg = so if so[0] != so[1] else so[0]
    for pi_, (i, j) in enumerate(case['pos'] if 'pos' in case else positions(n0, n1, case['every'])):
        x0, y0 = (j - n1 // 2) * dxf, (i - n0 // 2) * dxf
        arg = 2 * np.pi * (xp[None, :] * x0 + yp[:, None] * y0) / (wvl * efl)
        for dt in pick(DT_ORDER, case.get('all_dtypes'), case.get('rot', 0), pi_):
            tf = tol_factor(dt) * case.get('tolx', 1)
            tol = 1e3 * EPS * amp * (2 + float(np.max(np.abs(arg)))) * tf
            d = np.zeros((n0, n1), dtype=DTYPES[dt])
            d[i, j] = 1
            pair = np.zeros((n0, n1), dtype=DTYPES[dt])
            pair[n0 // 2, n1 // 2] += 1
            pair[i, j] += 1
            for method in ('mdft', 'czt'):
                sig = f'unfocus_fixed_sampling:{method}:{cell}' + in_tag(dt)
                if not shifted:
                    got = R.call(propagation.unfocus_fixed_sampling, d.copy(), dxf, efl, wvl, dxo, samples_arg, shift=s_units, method=method)
                    a = as_array(R, got, sig)
                    if a is not None and a.shape == so:
                        slope_checks(R, a, x0, y0, dxo, wvl, efl, amp, sig, tf)
                        R.expect_close(a, amp * np.exp(1j * arg), tol, sig, f'pupil field of a {dt} point source at ({x0:.6g}, {y0:.6g})um on the requested grid dx={dxo:.6g}mm')
                    elif a is not None:
                        R.violation(sig, f'shape {a.shape} != {so}')
                # two sources (origin + (i,j)): modulus 2|cos(arg/2)| is tied to the pupil coordinates, hence to the shift
                w = Wavefront(pair.copy(), wvl, dxf, 'psf')
                out = R.call(w.unfocus_fixed_sampling, efl, dxo, so, shift=s_units, method=method)
                if out is FAILED:
                    continue
                sigw = 'Wavefront.' + sig
                R.expect(getattr(out, 'dx', None) == dxo and getattr(out, 'space', None) == 'pupil', sigw + ':dx', 'reported dx / space')
                a = as_array(R, getattr(out, 'data', None), sigw)
                if a is None:
                    continue
                want = amp * (1 + np.exp(1j * arg))
                if shifted:
                    R.expect_close(np.abs(a), np.abs(want), 2 * tol, sigw, f'|pupil field| of two {dt} point sources (origin and ({x0:.6g}, {y0:.6g})um) vs 2|cos|, grid displaced by shift {sh} samples')
                else:
                    R.expect_close(a, want, 2 * tol, sigw, f'pupil field of two {dt} point sources (origin and ({x0:.6g}, {y0:.6g})um)')
    R.nontrivial()
    R.outcome(f'unfocus:{cell}')


# ---------------------------------------------------------------------------------------------
# argument forms of the requested shift; the SAME shift object handed to call after call

FORM_TILTS = [[1, 0], [0, -2], [1.25, -0.5], [-1, 2]]


def shift_forms(sh, dxo):
    """[name, object handed to the library, (sx, sy) in output units it stands for]: every sequence form HEAD answers for (a non-zero
    shift as tuple / list / tuple of numpy scalars / float64 ndarray / a strided float64 view / int64 ndarray of whole output units).
    A float64 ndarray is the form a routine can rescale IN PLACE through np.asarray(shift) -- the object is built once per case and
    handed to every call of the case"""
    su = (sh[0] * dxo, sh[1] * dxo)
    # whole output units (um / mm) next to the requested ones, same zero pattern, never 0 where the shift is not
    iu = tuple(0 if v == 0 else int(math.copysign(max(1.0, round(abs(v))), v)) for v in su)
    return [
        ['tuple', (su[0], su[1]), su],
        ['ndarray-f64', np.array(su, dtype=np.float64), su],
        ['list', [su[0], su[1]], su],
        ['npscalars', (np.float64(su[0]), np.float64(su[1])), su],
        ['view-f64', np.array([su[0], 7.0, su[1], 7.0], dtype=np.float64)[::2], su],
        ['ndarray-int', np.array(iu, dtype=np.int64), (float(iu[0]), float(iu[1]))],
    ]


def _form_values(obj):
    try:
        return (float(obj[0]), float(obj[1]))
    except Exception:   # noqa
        return None


def run_shift_forms(case, seed, R):
    """one case = one configuration and one shift; per form ONE shift object, handed to 2 rounds x {mdft, czt} x {function, Wavefront
    method} calls with other field content each time (what a caller looping over methods / wavelengths / planes does); every call is
    judged by the closed form displaced by the shift the object stood for when it was built, and the object must still hold it"""
    n0, n1 = case['n']
    wvl, efl, dxp = case['units']
    rel, form, sh = case['dxrel'], case['samp'], case['shift']
    focus = case['dir'] == 'focus'
    so = out_samples(form, n0, n1)
    samples_arg = so if so[0] != so[1] else so[0]
    if focus:
        dxi, dxo = dxp, wvl * efl / (n1 * dxp) * rel           # pupil mm -> focal um
    else:
        dxi, dxo = wvl * efl / (n1 * dxp), dxp * rel           # focal um -> pupil mm
    amp = dxi * dxo / (wvl * efl)
    fname = 'focus_fixed_sampling' if focus else 'unfocus_fixed_sampling'
    func = getattr(propagation, fname, None)
    pos = near_positions(n0, n1)[1:]
    for name, obj, su in shift_forms(sh, dxo):
        X = (ax(so[1]) * dxo - su[0])[None, :]
        Y = (ax(so[0]) * dxo - su[1])[:, None]
        ci = 0
        for rnd in range(2):
            for method in ('mdft', 'czt'):
                for path in ('function', 'Wavefront'):
                    sig = ('Wavefront.' if path == 'Wavefront' else '') + f'{fname}:{method}:shift-form:{name}'
                    what = f'shift given as {name} ({su[0]:.6g}, {su[1]:.6g}), call {ci + 1} with the same object'
                    if focus:
                        kx, ky = FORM_TILTS[ci % len(FORM_TILTS)]
                        field = tilted_pupil(n0, n1, kx, ky)
                        want = focal_modulus(n0, n1, dxp, wvl, efl, kx, ky, X, Y, dxo)
                        extent = max(np.max(np.abs(X)) * n1, np.max(np.abs(Y)) * n0) * dxp / (wvl * efl) + 4.0
                        tol = tol_for(n0, n1, amp, extent)
                        what = f'|field| of the pupil tilted by ({kx}, {ky}) waves vs closed form displaced by the shift; ' + what
                    else:
                        i, j = pos[ci % len(pos)]
                        field = np.zeros((n0, n1), dtype=complex)
                        field[n0 // 2, n1 // 2] += 1
                        field[i, j] += 1
                        x0, y0 = (j - n1 // 2) * dxi, (i - n0 // 2) * dxi
                        arg = 2 * np.pi * (X * x0 + Y * y0) / (wvl * efl)
                        want = amp * np.abs(1 + np.exp(1j * arg))
                        tol = 2e3 * EPS * amp * (2 + float(np.max(np.abs(arg))))
                        what = f'|pupil field| of two point sources (origin and ({x0:.6g}, {y0:.6g})um) vs 2|cos| displaced by the shift; ' + what
                    ci += 1
                    if path == 'function':
                        got = R.call(func, field, dxi, efl, wvl, dxo, samples_arg, shift=obj, method=method, sig=sig + ':exception')
                    else:
                        w = Wavefront(field, wvl, dxi, 'pupil' if focus else 'psf')
                        got = R.call(getattr(w, fname), efl, dxo, so, shift=obj, method=method, sig=sig + ':exception')
                        got = FAILED if got is FAILED else getattr(got, 'data', None)
                    a = as_array(R, got, sig)
                    if a is not None:
                        R.expect_close(np.abs(a), want, tol, sig, what)
                    R.expect(_form_values(obj) == (float(su[0]), float(su[1])),
                             f'{fname}:shift-form:{name}:argument-rescaled', f'the shift object handed in holds {_form_values(obj)} after the call, it was built as {su}')
    R.nontrivial()
    R.outcome(f'shift-forms:{case["dir"]}:{sq(n0, n1)}')


def shift_form_cases(quick):
    shapes = [[4, 4], [5, 5], [3, 6], [6, 3]] + ([] if quick else [[7, 5], [2, 2], [8, 9], [9, 9]])
    units = (UNITS[0], UNITS[7]) if quick else UNITS
    cases = []
    for direction in ('focus', 'unfocus'):
        for s in shapes:
            for u in units:
                for rel in DXRELS:
                    for form in (['N+1'] if quick else SAMP):
                        for sh in SHIFTS[1:]:
                            cases.append({'dir': direction, 'n': s, 'units': u, 'dxrel': rel, 'samp': form, 'shift': sh})
    return cases


# ---------------------------------------------------------------------------------------------
# requested spacings NEXT TO a special one (a whole / half-whole Q, the FFT's own spacing): "at any requested dx"

# relative distance of the requested Q from the special value: inside every tolerance a library plausibly uses to call two
# spacings equal (0.1 % of Wavefront arithmetic, np.isclose 1e-5 / 1e-8, math.isclose 1e-9) and one well outside (3 %);
# each is >= 1e3 x the rounding of the divisions that produce Q, and moves light by >= 30 x the tolerance of the closed form
NEAR_DELTAS = [3e-2, 7e-4, 6e-6, 6e-8, 6e-10]
NEAR_Q = [1, 2, 3, 4, 0.5, 1.5, 2.5, 1 / 3]
NEAR_TILTS = [[0, 0], [2, 0], [0, -2], [1.25, -0.5], [-1, 2]]
NEAR_TILTS_LARGE = [[0, 0], [18, 0], [-7.5, 11.25], [0, -25]]


def near_rels(Q0, deltas):
    """requested spacing relative to the native one, 1/Q, for Q = Q0 exactly (first: it fills whatever the shared executors
    cache for the special value) and then Q0 (1 +- delta), closest first"""
    out = [[0.0, 1.0 / Q0]]
    for d in sorted(deltas):
        out += [[d, 1.0 / (Q0 * (1 + d))], [-d, 1.0 / (Q0 * (1 - d))]]
    return out


def near_positions(n0, n1):
    c0, c1 = n0 // 2, n1 // 2
    out = [(c0, c1), (0, 0), (n0 - 1, n1 // 3), (n0 // 3, n1 - 1), (c0, n1 - 1), (0, c1)]
    seen, res = set(), []
    for q in out:
        if q not in seen:
            seen.add(q)
            res.append(q)
    return res


def run_near(case, seed, R):
    """one case = one special Q0 and, IN ONE PROCESS STATE (no executor reset in between), the requested spacings for Q0 and
    Q0 (1 +- delta): every one is judged by the same closed form at ITS OWN requested (= reported) coordinates"""
    n0, n1 = case['n']
    for d, rel in near_rels(case['Q0'], case['deltas']):
        sub = dict(case, dxrel=rel, tag='' if d == 0 else ':near-special-Q')
        if case['dir'] == 'focus':
            run_fixed_focus(sub, seed, R)
        else:
            sub['pos'] = near_positions(n0, n1)[:6 if max(n0, n1) <= 9 else 4]
            run_fixed_unfocus(sub, seed, R)


def near_cases(quick):
    small = [[4, 4], [5, 5], [3, 6], [6, 3], [4, 6], [7, 5]] + ([] if quick else [[2, 2], [9, 9], [8, 3], [5, 8]])
    large = [[64, 64], [48, 64]] + ([] if quick else [[32, 32], [64, 48], [100, 100]])
    combos = [[u, form, sh] for u in (UNITS[0], UNITS[7], UNITS[3]) for form in ('N+1', '2N+1') for sh in ([0, 0], [-1, 2.5])]
    cases, ci = [], 0
    for direction in ('focus', 'unfocus'):
        for s in small:
            for Q0 in NEAR_Q:
                ci += 1
                for u, form, sh in (combos if not quick else [combos[(5 * ci) % 12]]):
                    cases.append({'dir': direction, 'n': s, 'Q0': Q0, 'deltas': NEAR_DELTAS, 'units': u, 'samp': form, 'shift': sh,
                                  'tilts': NEAR_TILTS, 'kmax': 2, 'every': False, 'rot': ci % 20, 'all_dtypes': False})
        for s in large:
            for Q0 in ([1, 2, 3, 2.5] if quick else NEAR_Q):
                ci += 1
                cases.append({'dir': direction, 'n': s, 'Q0': Q0, 'deltas': NEAR_DELTAS, 'units': UNITS[ci % 8], 'samp': '2N+1', 'shift': [0, 0],
                              'tilts': NEAR_TILTS_LARGE, 'kmax': 25, 'tolx': 1 if direction == 'focus' else 20, 'every': False, 'rot': ci % 20, 'all_dtypes': False})
    return cases


# ---------------------------------------------------------------------------------------------
# (d): scalar conversions

def run_conversions(case, seed, R):
    n = case['n']
    wvl, efl, dxp = case['units']
    r = 8 * EPS
    # closed forms
    want_f = wvl * efl / (n * dxp)
    dxf = scalar(R, R.call(propagation.pupil_sample_to_psf_sample, dxp, n, wvl, efl), 'pupil_sample_to_psf_sample')
    if dxf is not None:
        R.expect(abs(dxf - want_f) <= r * want_f, 'pupil_sample_to_psf_sample', f'{dxf} != lam f/(N dx) = {want_f}')
        back = scalar(R, R.call(propagation.psf_sample_to_pupil_sample, dxf, n, wvl, efl), 'psf_sample_to_pupil_sample')
        if back is not None:
            R.expect(abs(back - dxp) <= r * dxp, 'sample-conversion:roundtrip', f'psf_sample_to_pupil_sample(pupil_sample_to_psf_sample({dxp})) = {back}')
    for dxfocal in (want_f, 1.37 * want_f, 4.0):
        want_p = wvl * efl / (n * dxfocal)
        g = scalar(R, R.call(propagation.psf_sample_to_pupil_sample, dxfocal, n, wvl, efl), 'psf_sample_to_pupil_sample')
        if g is None:
            continue
        R.expect(abs(g - want_p) <= r * want_p, 'psf_sample_to_pupil_sample', f'{g} != lam f/(N dx) = {want_p}')
        back = scalar(R, R.call(propagation.pupil_sample_to_psf_sample, g, n, wvl, efl), 'pupil_sample_to_psf_sample')
        if back is not None:
            R.expect(abs(back - dxfocal) <= r * dxfocal, 'sample-conversion:roundtrip', f'pupil_sample_to_psf_sample(psf_sample_to_pupil_sample({dxfocal})) = {back}')
    # Q_for_sampling
    D = n * dxp
    for rel in DXRELS + [1 / 3] + [1.0 / (Q0 * (1 + d)) for Q0 in (1, 2, 3) for d in (7e-4, -7e-4, 6e-8, -6e-8)]:
        dxo = want_f * rel
        q = scalar(R, R.call(propagation.Q_for_sampling, D, efl, wvl, dxo), 'Q_for_sampling')
        if q is not None:
            R.expect(abs(q - (wvl * efl / D) / dxo) <= r * abs((wvl * efl / D) / dxo), 'Q_for_sampling', f'Q_for_sampling({D},{efl},{wvl},{dxo}) = {q}, (lam f/D)/dx = {(wvl * efl / D) / dxo}')
    # consistency with the spacing conversion: an FFT padded from n to m samples has focal spacing
    # pupil_sample_to_psf_sample(dxp, m) and that spacing needs Q = m/n
    for Q in QS + [2.5]:
        m = math.ceil(n * Q)
        d = R.call(propagation.pupil_sample_to_psf_sample, dxp, m, wvl, efl)
        d = scalar(R, d, 'pupil_sample_to_psf_sample')
        if d is None:
            continue
        q = scalar(R, R.call(propagation.Q_for_sampling, D, efl, wvl, d), 'Q_for_sampling')
        if q is not None:
            R.expect(abs(q - m / n) <= r * m / n, 'Q_for_sampling:vs-sample-conversion', f'Q for the spacing of an FFT padded {n}->{m} is {q}, not {m}/{n}')
    R.nontrivial()
    R.outcome('conversions')


# ---------------------------------------------------------------------------------------------
# coordinates reported after earlier results had theirs read and edited in place (history)

H_WVL, H_EFL, H_DXP = 0.5, 100.0, 0.1


class CoordState:
    def __init__(self, init):
        self.init = init
        self.results = []      # (label, Wavefront at the focal plane, (kx, ky), pupil n)
        self.held = []         # [label, x, y, scribbled]  coordinate arrays handed out earlier
        self.labels = set()
        self.scribbled = set()


def _scrub_module_state():
    """histories must start from the state of a fresh process: empty every module-level mutable container / memo of the
    anchored modules (there is none on the pinned tree; a tree that grows one must not leak it from one history to the next,
    else a replay in a fresh process would not reproduce what the explorer saw)"""
    import prysm._richdata as m1
    import prysm.coordinates as m2
    for m in (m1, m2, propagation):
        for k, v in list(vars(m).items()):
            if k.startswith('__'):
                continue
            if isinstance(v, (dict, list, set)):
                v.clear()
            elif hasattr(v, 'cache_clear'):
                v.cache_clear()


def h_fresh(init, seed):
    reset_executors(64)
    _scrub_module_state()
    return CoordState(init)


def h_events(init, hist, st):
    ev = ['focus:A', 'focus:B', 'focus:C', 'fixed:A']
    if st.results:
        ev += ['read:first', 'read:last']
    if any(not h[3] for h in st.held):
        ev += ['edit-in-place']
    return ev


def _h_pupil(init, which):
    n = init['n'] + (1 if which == 'C' else 0)           # C: another shape; A, B: same shape and dx, different tilt
    k = {'A': (1, 0), 'B': (0, -1), 'C': (-1, 1)}[which]
    return n, k, Wavefront(tilted_pupil(n, n, *k), H_WVL, H_DXP, 'pupil')


def h_apply(st, ev, R):
    init = st.init
    kind, _, arg = ev.partition(':')
    if kind == 'focus':
        n, k, w = _h_pupil(init, arg)
        out = R.call(w.focus, H_EFL, init['Q'], sig='history:Wavefront.focus:exception')
        if out is not FAILED:
            st.results.append((ev, out, k, n))
            st.labels.add(ev)
    elif kind == 'fixed':
        # the grid of focus:A through the fixed-sampling route: same output shape, same dx
        n, k, w = _h_pupil(init, arg)
        npad = math.ceil(n * init['Q'])
        dxo = H_WVL * H_EFL / (npad * H_DXP)
        out = R.call(w.focus_fixed_sampling, H_EFL, dxo, npad, sig='history:Wavefront.focus_fixed_sampling:exception')
        if out is not FAILED:
            st.results.append((ev, out, k, n))
            st.labels.add(ev)
    elif kind == 'read':
        label, out, k, n = st.results[0 if arg == 'first' else -1]
        rd = R.call(lambda: out.intensity)
        if rd is not FAILED:
            x, y = R.call(lambda: rd.x), R.call(lambda: rd.y)
            if x is not FAILED and y is not FAILED:
                st.held.append([label, x, y, False])
    elif kind == 'edit-in-place':
        # what a caller does to re-reference / rescale ITS coordinates
        for h in st.held:
            if not h[3]:
                try:
                    h[1] -= 3.0
                    h[2] *= 1e-3
                except Exception:   # noqa -- read-only coordinates are a legitimate defence
                    pass
                h[3] = True
                st.scribbled.add(h[0])
    return st


def h_check(st, init, hist, R):
    """every result held, through a FRESH .intensity (and .phase): coordinates are (i - n//2) dx and the spot is reported at
    k lam f / D; coordinates handed out earlier and not edited are unchanged"""
    for label, out, k, n in st.results:
        sig = 'history:coords:' + label.split(':')[0]
        a = as_array(R, getattr(out, 'data', None), sig)
        dx = scalar(R, getattr(out, 'dx', None), sig)
        if a is None or dx is None:
            continue
        for view in ('intensity', 'phase'):
            rd = R.call(lambda: getattr(out, view))
            if rd is FAILED:
                continue
            cv = coord_vectors(R, rd, a.shape, sig)
            if cv is None:
                continue
            wx = np.broadcast_to(ax(a.shape[1])[None, :] * dx, a.shape)
            wy = np.broadcast_to(ax(a.shape[0])[:, None] * dx, a.shape)
            okx = R.expect_close(cv[0], wx, 4 * EPS * a.shape[1] * abs(dx), sig, f'{view}.x of {label} after {hist} vs (i - n//2) dx')
            oky = R.expect_close(cv[1], wy, 4 * EPS * a.shape[0] * abs(dx), sig, f'{view}.y of {label} after {hist} vs (i - n//2) dx')
            if view == 'intensity' and okx and oky:
                I = as_array(R, getattr(rd, 'data', None), sig)
                if I is not None and I.shape == a.shape:
                    iy, ix = np.unravel_index(int(np.argmax(I)), I.shape)
                    D = n * H_DXP
                    want = (k[0] * H_WVL * H_EFL / D, k[1] * H_WVL * H_EFL / D)
                    # on the grid when k * (padded/unpadded) is an integer, else the nearest sample (within half a sample)
                    ongrid = all(float(kk * a.shape[0] / n).is_integer() for kk in k)
                    stol = 1e3 * EPS * (abs(want[0]) + abs(want[1]) + abs(dx)) if ongrid else 0.5 * abs(dx) * (1 + 1e-9)
                    R.expect_close((cv[0][iy, ix], cv[1][iy, ix]), want, stol, sig + ':spot',
                                   f'reported position of the brightest sample of {label} vs k lam f/D')
    for label, x, y, scribbled in st.held:
        if scribbled:
            continue
        try:
            xs, ys = np.asarray(x), np.asarray(y)
            ok = xs.ndim == 2 and ys.ndim == 2 and xs[0, xs.shape[1] // 2] == 0 and ys[ys.shape[0] // 2, 0] == 0
        except Exception:   # noqa
            ok = False
        R.expect(ok, 'history:coords:held', f'coordinates read earlier from {label} changed without being edited, after {hist}')
    R.nontrivial(len(st.results) > 0 and len(hist) > 1)
    R.outcome('edited' if st.scribbled else 'clean')


def h_canon(st):
    """what a later transition can depend on: which (route, shape, dx) results exist, whose coordinates were edited,
    whether un-edited coordinates are still held (enables the edit), and which results are first / last"""
    first = st.results[0][0] if st.results else None
    last = st.results[-1][0] if st.results else None
    return (tuple(sorted(st.labels)), tuple(sorted(st.scribbled)), tuple(sorted({h[0] for h in st.held if not h[3]})), first, last)


# ---------------------------------------------------------------------------------------------

# ---------------------------------------------------------------------------------------------
# object history of ONE Wavefront across planes: propagate, resize in place (pad2d / crop), propagate back -- the reported sample
# spacing of the result is the physical one for the array that was actually transformed (lam f / (N_now dx_now)), whatever the object
# went through before

def run_resize_roundtrip(case, seed, R):
    n, Q, rz, direction = case['n'], case['Q'], case['resize'], case['dir']
    wvl, efl, dx0 = H_WVL, H_EFL, H_DXP
    x = tilted_pupil(n, n, 1, 0) if direction == 'focus-first' else (np.eye(n) + 0j)
    w = Wavefront(x.copy(), wvl, dx0, 'pupil' if direction == 'focus-first' else 'psf')
    first, second = (w.focus, 'unfocus') if direction == 'focus-first' else (w.unfocus, 'focus')
    mid = R.call(first, efl, Q, sig='resize-history:first-propagation:exception')
    if mid is FAILED:
        return
    npad = np.shape(mid.data)[0]
    dx_mid = scalar(R, getattr(mid, 'dx', None), 'resize-history:dx')
    if dx_mid is None:
        return
    R.expect_close(dx_mid, wvl * efl / (npad * dx0), 64 * EPS * dx_mid, 'resize-history:first-dx', f'dx after the first propagation of a {n}-sample plane at Q={Q}')
    kind, arg, inplace = rz
    obj = mid
    if kind == 'pad':
        obj = R.call(mid.pad2d, arg, inplace=inplace, sig='resize-history:pad2d:exception')
    elif kind == 'pad_to':
        obj = R.call(mid.pad2d, 1, out_shape=(npad + arg, npad + arg), inplace=inplace, sig='resize-history:pad2d:exception')
    elif kind == 'crop':
        obj = R.call(mid.crop, max(npad - arg, 1), inplace=inplace, sig='resize-history:crop:exception')
    if obj is FAILED:
        return
    nnow = np.shape(obj.data)[0]
    back = R.call(getattr(obj, second), efl, 1, sig='resize-history:second-propagation:exception')
    if back is FAILED:
        return
    dxb = scalar(R, getattr(back, 'dx', None), 'resize-history:dx')
    if dxb is None:
        return
    sig = f'Wavefront.{second}:after-{kind}{"-inplace" if inplace and kind != "none" else ""}:dx'
    R.expect_close(dxb, wvl * efl / (nnow * dx_mid), 64 * EPS * abs(dxb), sig,
                   f'dx reported by {second}(efl, Q=1) after {direction.split("-")[0]}(Q={Q}) and {kind}({arg}, inplace={inplace}): the transformed array has {nnow} samples of {dx_mid}')
    cv = R.call(lambda: back.intensity.x, sig='resize-history:coords:exception', hygiene=False)
    if cv is not FAILED:
        R.expect_close(np.asarray(cv)[0], ax(nnow) * wvl * efl / (nnow * dx_mid), 8 * EPS * nnow * abs(dxb) + 1e-300, sig + ':coords', 'x coordinates of the result')
    if kind == 'none' and direction == 'focus-first' and float(Q).is_integer():
        got = as_array(R, back.data, 'resize-history:roundtrip')
        if got is not None and got.shape[0] == npad:
            lo = npad // 2 - n // 2
            R.expect_close(got[lo:lo + n, lo:lo + n], x, 2e3 * EPS, 'resize-history:roundtrip', 'unfocus(focus(x, Q), 1) restricted to the original window')
    R.nontrivial()
    R.outcome(f'{direction}:{kind}')


def plan(tier, seed):
    quick = tier == 'quick'
    NS = list(range(2, 10))
    shapes = [[a, b] for a in NS for b in NS]
    shapes.sort(key=lambda s: (max(s), s[0] + s[1]))
    rs = lambda: reset_executors(64)   # noqa
    hdepth = 4 if quick else 5
    DT_RULE = ' Input dtype alphabet: besides the complex128 tilted pupil, the complex64 tilted pupil and the REAL fringe pupil cos(tilt phase) (k=0: the uniform real pupil) as float64 / float32 / complex128 / complex64, judged by the coherent two-spot closed form; point sources as float64 / float32 / complex128 / complex64 arrays (thorough: every dtype for every configuration; quick: one per source position and one per second tilt -- alternating with the Wavefront-method path --, rotating with the running index; every dtype on shapes <= 2); tolerance by input dtype.'

    def keep(ci, small):
        # quick tier: the full product on the smallest shapes, every 7th cell of the product elsewhere (by running index;
        # 7 is co-prime with every alphabet length, so every value of every dimension still meets every shape)
        return (not quick) or small or ci % 7 == 0

    ff_cases, fu_cases = [], []
    ci = 0
    for s in shapes:
        for u in UNITS:
            for rel in DXRELS:
                for form in SAMP:
                    for sh in SHIFTS:
                        ci += 1
                        if keep(ci, max(s) <= 3):
                            alld = (not quick) or max(s) <= 2
                            ff_cases.append({'n': s, 'units': u, 'dxrel': rel, 'samp': form, 'shift': sh, 'rot': ci % 20, 'all_dtypes': alld})
                            fu_cases.append({'n': s, 'units': u, 'dxrel': rel, 'samp': form, 'shift': sh, 'every': not quick, 'rot': ci % 20, 'all_dtypes': alld})
    fft_cases = [{'n': n, 'Q': Q, 'units': u} for n in NS for Q in QS for u in UNITS]
    ns_cases = [{'n': s, 'Q': Q, 'units': u} for s in shapes if s[0] != s[1] for Q in QS for u in UNITS]
    uf_cases = [{'n': n, 'Q': Q, 'units': u, 'every': True, 'rot': (n + QS.index(Q) + UNITS.index(u)) % 4, 'all_dtypes': not quick} for n in NS for Q in QS for u in UNITS]
    # threshold alphabet for the FFT route: sizes whose padded length ceil(N Q) has a prime factor >= 13 (where an FFT
    # backend's preferred lengths differ from the requested one) next to smooth neighbours, a few larger ones
    NL = [11, 12, 13, 16, 17, 19, 23, 26, 29, 31, 37, 64, 65, 67] + ([] if quick else [43, 47, 53, 97, 101]) + [127, 130]
    big_cases = [{'n': n, 'Q': Q, 'units': u, 'large': True, 'every': False, 'rot': (n + int(2 * Q)) % 4, 'all_dtypes': not quick} for n in NL for Q in (1, 2, 1.5) for u in (UNITS[0], UNITS[7])]
    cv_cases = [{'n': n, 'units': u} for n in range(1, 28) for u in UNITS]
    # Q handed to the FFT route next to a whole number (sibling of the requested-dx alphabet of near_special_dx)
    QN = [1.0007, 1.9994, 2.000006, 3.00000006, 1.5004] + ([] if quick else [0.9993, 2.0007, 2.99999994, 1.00000000006])
    fq_cases = [{'n': n, 'Q': Q, 'units': u, 'tag': ':near-whole-Q'} for n in (NS if not quick else [4, 5, 8, 9]) for Q in QN for u in (UNITS[1], UNITS[6])]
    uq_cases = [dict(c, every=True, rot=(c['n'] + i) % 4, all_dtypes=not quick) for i, c in enumerate(fq_cases)]
    nr_cases = near_cases(quick)
    thin = ' (quick: full product on shapes <= 3, every 7th cell of the product elsewhere)' if quick else ''
    return [
        ScopeUnit('conversions', cv_cases, run_conversions,
                  'every N in [1..27] (covers every padded size ceil(N Q)) x lam {0.5,1} x f {100,37.5} x dx {0.1,0.25}: pupil_sample_to_psf_sample and '
                  'psf_sample_to_pupil_sample vs lam f/(N dx), both round trips, Q_for_sampling vs (lam f/D)/dx and vs the spacing of an FFT padded by Q in {1,1.5,2,2.5,3}'),
        ScopeUnit('fft_focus', fft_cases, run_fft_focus,
                  f'square pupils N in [2..9] x Q in {QS} x 8 unit sets; inside every case all {len(TILTS)} tilts (0; k in {TILTS1} waves on x, on y, on both with different k per axis): '
                  'Wavefront.focus -> |field| and intensity vs the closed-form Dirichlet kernel at the coordinates intensity.x/.y it reports (amplitude not derived from the reported dx), '
                  'grids vs reported dx, and both fixed-sampling methods at the reported dx reproduce the FFT field; every pupil input variant of the dtype alphabet for every tilt.' + DT_RULE, reset=rs),
        ScopeUnit('fft_nonsquare', ns_cases, run_fft_nonsquare,
                  'non-square pupils in [2..9]^2 (tall and wide) x Q x units: the documented convention -- reported dx = x (columns) spacing lam f/(n_cols_padded dx); x tilts k in {1,-2,0.5}: |field| along the x axis vs the closed form at the '
                  'reported coordinates; point sources displaced along x un-focus to the x slope per reported pupil sample; focus then unfocus(Q=1) reports the pupil dx again', reset=rs),
        ScopeUnit('fixed_focus', ff_cases, run_fixed_focus,
                  f'pupil shapes [2..9]^2 (square and non-square) x 8 unit sets x requested dx in {DXRELS} x native x samples_out in {SAMP} (per axis) x shift in {SHIFTS} output samples (x,y){thin}; '
                  f'inside every case all {len(TILTS)} tilts x {{mdft, czt}} x {{function, Wavefront method}}: |field| vs closed-form kernel centred at k lam f/D_axis on the requested grid '
                  'displaced by the shift (function) and on the reported intensity.x/.y grids (method).' + DT_RULE, reset=rs),
        ScopeUnit('fft_threshold', big_cases, run_fft_focus,
                  f'threshold alphabet: square pupils N in {NL} x Q in {{1,2,1.5}} x 2 unit sets x tilts {TILTS_LARGE}: the same closed form at the reported coordinates, '
                  'whatever size the route pads to, and both fixed-sampling methods at the reported dx; not closed over the tilt dimension', reset=rs),
        ScopeUnit('unfocus_threshold', big_cases, run_unfocus_fft,
                  'the same threshold alphabet through Wavefront.unfocus with point sources at the origin, a corner and two generic positions', reset=rs),
        ScopeUnit('unfocus_fft', uf_cases, run_unfocus_fft,
                  'focal arrays N in [2..9] x Q x units x EVERY point-source position: Wavefront.unfocus -> uniform modulus, phase slope per axis per reported pupil sample, full field vs '
                  'exp(+2 pi i (x x0 + y y0)/(lam f)) on the reported grid; both fixed-sampling methods at the reported pupil dx give the same closed form.' + DT_RULE, reset=rs),
        ScopeUnit('fixed_unfocus', fu_cases, run_fixed_unfocus,
                  f'focal shapes [2..9]^2 x units x requested pupil dx in {DXRELS} x dx_p x samples_out x shift{thin}; inside: point-source positions (every position in the thorough tier; quick: '
                  'the two axes through the origin and both diagonals) x {mdft, czt}: unshifted single source -> slope per axis + full complex field; origin + source pair through the Wavefront method -> '
                  'complex field (unshifted) or modulus 2|cos| displaced by the shift.' + DT_RULE, reset=rs),
        ScopeUnit('near_special_dx', nr_cases, run_near,
                  f'requested-spacing alphabet next to special values: Q0 = (lam f/D)/dx in {[round(q, 4) for q in NEAR_Q]} and, in the SAME process state (shared executors not reset inside a case, exact Q0 first), '
                  f'Q0 (1 +- delta) for delta in {NEAR_DELTAS} (inside every plausible is-close tolerance down to 6e-10, >= 1e3 x the rounding of Q); focus_fixed_sampling (function and Wavefront method, '
                  f'tilts {NEAR_TILTS}) and unfocus_fixed_sampling (6 source positions), both methods, small shapes (square and non-square, where only one axis may be near a whole Q) with '
                  'unit set / samples_out / shift rotating with the running index (thorough: every combination), and threshold shapes 64, 48x64 (thorough also 32, 64x48, 100; 4 source positions) with samples 2N+1 and '
                  f'large tilts {NEAR_TILTS_LARGE} (18 waves off axis a 0.07 % error of Q is 0.03 sample); judged by the same closed form at the requested = reported coordinates; '
                  'not closed over the tilt dimension for the threshold shapes', reset=rs),
        ScopeUnit('fft_near_whole_Q', fq_cases, run_fft_focus,
                  f'Wavefront.focus with Q in {QN} (next to a whole number, never equal) x N x 2 unit sets x all tilts: the closed form at the reported coordinates of whatever grid comes back', reset=rs),
        ScopeUnit('unfocus_near_whole_Q', uq_cases, run_unfocus_fft,
                  'the same Q alphabet through Wavefront.unfocus, every source position', reset=rs),
        ScopeUnit('resize_roundtrip', [{'n': n, 'Q': Q, 'resize': rz, 'dir': d} for n in (4, 5, 6) for Q in (1, 2, 1.5) for d in ('focus-first', 'unfocus-first')
                                       for rz in (['none', 0, True], ['pad', 2, True], ['pad', 2, False], ['pad_to', 3, True], ['crop', 1, True], ['crop', 2, False], ['crop', 2, True])],
                  run_resize_roundtrip,
                  'ONE Wavefront across planes: n in {4,5,6} x Q in {1,2,1.5} x {focus then unfocus, unfocus then focus} x resize between the two {none, pad2d(2) in / out of place, pad2d to +3 samples, crop by 1 / 2 in / out of place}, '
                  'second propagation at the same efl with Q=1: the dx (and x coordinates) it reports are lam f / (N_now dx_now) of the array actually transformed; unresized integer-Q round trips return the pupil', reset=rs),
        HistoryUnit('size_history', size_inits(quick), s_fresh, s_events, s_apply, s_check, s_canon, 2 if quick else 3,
                    'BFS (depth 2 quick = every ordered pair, 3 thorough) on the SHARED czt / mdft executors without clear(): per initial state one fixed pair of spacings and a family of sizes whose '
                    'n_in + n_out - 1 share a fast FFT length (5->{9,10,8}, 9->{15,16}, 10->{28,29,31}; thorough also 48->{72,66,67,70}); events: fixed pupil -> every output count, every pupil size -> fixed output count, '
                    'both methods, plus czt unfocus; canonical state = ordered list of distinct calls made; invariant after every call: the spot is at k lam f/D on the reported grid (closed form), the un-focused point source has the closed-form tilt', reset=rs),
        ScopeUnit('shift_forms', shift_form_cases(quick), run_shift_forms,
                  'argument forms of the requested shift: {focus, unfocus}_fixed_sampling x shapes {4, 5, 3x6, 6x3} (thorough also 7x5, 2, 8x9, 9) x 2 unit sets (thorough 8) x requested dx in '
                  f'{DXRELS} x native x samples_out N+1 (thorough every form) x every non-zero shift of {SHIFTS[1:]} output samples; inside every case the form alphabet [tuple, float64 ndarray, list, tuple of '
                  'numpy scalars, strided float64 view, int64 ndarray of whole output units]: ONE object per form, handed to 2 rounds x {mdft, czt} x {function, Wavefront method} consecutive calls with other '
                  f'field content each time (tilts {FORM_TILTS} / origin + one of 5 source positions): every call judged by the closed form displaced by the shift the object was built with (modulus), and the '
                  'object must still hold those values after every call.  Zero shifts are only given as tuples (mdft on HEAD cannot hash a zero list / ndarray; the docstring says tuple)', reset=rs),
        HistoryUnit('sampling_history', sampling_inits(quick), s_fresh, s_events, q_apply, q_check, s_canon, 2,
                    'BFS depth 2 (= every ordered pair of calls) on the SHARED mdft / czt executors without clear(): sizes A=6, B=9 (thorough also 8/5, 7/12); events {focus, unfocus}_fixed_sampling (Wavefront methods) x '
                    '{mdft; czt as control} x (n_in, n_out) in {(A,B), (B,A), (A,A) mdft only} x sampling in [reference; focal dx x 1.7; pupil dx 0.08 + lam 0.6; thorough: f 37.5] x shift in {none, (1,-2) samples, the same '
                    'in samples for both directions}: a trip back at the sampling of the trip out (matched Q) and at any other; canonical state = ordered list of distinct calls; invariant after every call: the spot is at '
                    'k lam f/D (+ shift) on the REQUESTED grid of THIS call (closed form), two point sources un-focus to 1 + exp(+2 pi i x x0/(lam f)) on the requested pupil grid (complex when unshifted, modulus when shifted)', reset=rs),
        HistoryUnit('coords_history', [{'n': 4, 'Q': 2}, {'n': 5, 'Q': 1}, {'n': 3, 'Q': 1.5}], h_fresh, h_events, h_apply, h_check, h_canon, hdepth,
                    f'BFS to depth {hdepth} over events [focus:A, focus:B (same shape and dx, other tilt), focus:C (other shape), fixed:A (same grid through focus_fixed_sampling), '
                    'read:first / read:last (.intensity.x/.y of a held result handed to the caller), edit-in-place (the caller re-references and rescales the arrays it was handed)]; '
                    'canonical state = (results present, whose coordinates were edited, un-edited coordinates still held, first/last result); invariant in every state: every held result reports, '
                    'through a fresh .intensity and .phase, coordinates (i - n//2) dx and the brightest sample at k lam f/D; coordinates handed out earlier and not edited are unchanged', reset=rs),
    ]
