"""C04 -- one origin convention: sample n//2 is the origin for every grid, pad, crop, slice, centroid.

Reference model: index n//2 of an axis is the origin.  All comparisons are exact (integer labels or
exactly representable numbers) except coordinate values with non-dyadic dx, which are compared at
4 eps of the configured precision (the origin itself must be an exact zero).
"""
import itertools

import numpy as np

from mc import ScopeUnit, HistoryUnit, FAILED
from mc.state import reset_executors

from prysm import fttools, coordinates, psf as psfmod
from prysm._richdata import RichData
from prysm.propagation import Wavefront
from prysm.conf import config

ID = 'C04'
ASSUMPTIONS = ['np.pad semantics for edge / wrap modes are taken as the definition of those modes; '
               'only the placement of the source block is the library\'s responsibility']


# integer types of a sample count (n <= 24 fits all of them): numpy signed and unsigned scalars next to the python int
COUNT_FORMS = ('int64', 'int32', 'int16', 'int8', 'uint8', 'uint16', 'uint32', 'uint64')


def par(n):
    return 'odd' if n % 2 else 'even'


def labels(shape):
    return (np.arange(int(np.prod(shape)), dtype=float).reshape(shape) + 1.0)


# ---------------------------------------------------------------------------------------------
# grids

def run_grid(case, seed, R):
    n0, n1, dx, prec = case['n0'], case['n1'], case['dx'], case['prec']
    config.precision = prec
    eps = np.finfo(config.precision).eps
    dt = np.dtype(config.precision)
    try:
        for n in {n0, n1}:
            v = R.call(fttools.fftrange, n)
            ref = np.arange(n) - n // 2
            R.expect_equal(v, ref, f'fftrange:{par(n)}', f'fftrange({n})')
            v = R.call(fttools.fftrange, n, dtype=config.precision)
            R.expect_equal(v, ref.astype(float), f'fftrange:{par(n)}', f'fftrange({n}, dtype)')
            # frequency axes
            f = R.call(fttools.forward_ft_unit, dx, n, True)
            reff = (np.arange(n) - n // 2) / (n * dx)
            if R.expect_close(f, reff, 4 * eps * np.abs(reff), f'forward_ft_unit:shift:{par(n)}', f'forward_ft_unit({dx},{n})'):
                R.expect(f[n // 2] == 0, f'forward_ft_unit:shift:{par(n)}', 'origin sample is not exactly zero')
            f0 = R.call(fttools.forward_ft_unit, dx, n, False)
            R.expect_close(f0, np.fft.ifftshift(reff), 4 * eps * np.abs(np.fft.ifftshift(reff)),
                           f'forward_ft_unit:noshift:{par(n)}', f'forward_ft_unit({dx},{n},shift=False)')
            # the shift flag in the truthy / falsy spellings a numpy comparison or an int option hands over
            if f is not FAILED and f0 is not FAILED:
                for flag, wantf in ((np.True_, f), (np.bool_(True), f), (1, f), (np.False_, f0), (0, f0)):
                    g = R.call(fttools.forward_ft_unit, dx, n, flag)
                    R.expect_equal(g, wantf, 'forward_ft_unit:shift-flag-form', f'forward_ft_unit({dx}, {n}, shift={flag!r}) vs shift={bool(flag)}')
            R.nontrivial(n > 1)
            # the sample count in the integer types an array shape, a file header field or an index computation hands over
            for tname in COUNT_FORMS:
                nn = getattr(np, tname)(n)
                v = R.call(fttools.fftrange, nn, dtype=config.precision)
                R.expect_equal(v, ref.astype(float), f'fftrange:count-form:{"unsigned" if tname.startswith("u") else "signed"}', f'fftrange(np.{tname}({n}), dtype)')
                v = R.call(fttools.fftrange, nn)
                R.expect_equal(v, ref, f'fftrange:count-form:{"unsigned" if tname.startswith("u") else "signed"}', f'fftrange(np.{tname}({n}))')
                f = R.call(fttools.forward_ft_unit, dx, nn, True)
                R.expect_close(f, reff, 4 * eps * np.abs(reff), f'forward_ft_unit:count-form:{"unsigned" if tname.startswith("u") else "signed"}', f'forward_ft_unit({dx}, np.{tname}({n}))')
        xr = (np.arange(n1) - n1 // 2) * dx
        yr = (np.arange(n0) - n0 // 2) * dx
        sig = f'make_xy_grid:{par(n0)}x{par(n1)}'
        out = R.call(coordinates.make_xy_grid, (n0, n1), dx=dx, grid=False)
        if out is not FAILED:
            x, y = out
            R.expect_close(x, xr, 4 * eps * np.abs(xr), sig, 'x vector')
            R.expect_close(y, yr, 4 * eps * np.abs(yr), sig, 'y vector')
            R.expect(np.asarray(x).shape == (n1,) and x[n1 // 2] == 0 and y[n0 // 2] == 0, sig, 'exact zero at n//2')
            R.expect(np.asarray(x).dtype == dt, sig + ':dtype', f'dtype {np.asarray(x).dtype} != configured {dt}')
            # the two vectors are independent arrays: a caller offsetting one in place (half-pitch shifts of lenslet /
            # actuator lattices do exactly that) must not move the other
            if not R.expect(not np.shares_memory(x, y), sig + ':vectors-alias', 'x and y vectors returned by make_xy_grid(grid=False) share memory'):
                pass
            try:
                x += 3.5 * dx
            except Exception:   # noqa
                pass
            R.expect_close(y, yr, 4 * eps * np.abs(yr), sig + ':vectors-alias', 'y vector changed when the caller shifted the x vector in place')
        out = R.call(coordinates.make_xy_grid, (n0, n1), dx=dx, grid=True)
        X, Y = np.meshgrid(xr, yr)
        if out is not FAILED:
            x, y = out
            R.expect_close(x, X, 4 * eps * np.abs(X), sig, 'x grid')
            R.expect_close(y, Y, 4 * eps * np.abs(Y), sig, 'y grid')
            if np.asarray(x).shape == (n0, n1):
                R.expect(np.all(x[:, n1 // 2] == 0) and np.all(y[n0 // 2, :] == 0), sig, 'exact zero line at n//2')
                R.expect(not np.shares_memory(x, y), sig + ':grids-alias', 'x and y grids returned by make_xy_grid share memory')
        for tname in COUNT_FORMS:
            out = R.call(coordinates.make_xy_grid, (getattr(np, tname)(n0), getattr(np, tname)(n1)), dx=dx, grid=False)
            if out is not FAILED:
                fs = 'unsigned' if tname.startswith('u') else 'signed'
                R.expect_close(out[0], xr, 4 * eps * np.abs(xr), f'make_xy_grid:count-form:{fs}', f'x vector, shape given as np.{tname}')
                R.expect_close(out[1], yr, 4 * eps * np.abs(yr), f'make_xy_grid:count-form:{fs}', f'y vector, shape given as np.{tname}')
        if n0 == n1:
            out = R.call(coordinates.make_xy_grid, n0, dx=dx, grid=True)
            if out is not FAILED:
                R.expect_close(out[0], X, 4 * eps * np.abs(X), sig, 'x grid (int shape)')
                R.expect_close(out[1], Y, 4 * eps * np.abs(Y), sig, 'y grid (int shape)')
        # diameter form: dx = diameter / max(shape)
        dia = dx * max(n0, n1)
        out = R.call(coordinates.make_xy_grid, (n0, n1), diameter=dia, grid=False)
        if out is not FAILED:
            R.expect_close(out[0], xr, 8 * eps * np.abs(xr), sig + ':diameter', 'x vector (diameter form)')
            R.expect_close(out[1], yr, 8 * eps * np.abs(yr), sig + ':diameter', 'y vector (diameter form)')
        # RichData coordinates
        rd = RichData(np.zeros((n0, n1)), dx, 0.5)
        x = R.call(lambda: rd.x)
        y = R.call(lambda: rd.y)
        R.expect_close(x, X, 4 * eps * np.abs(X), f'RichData.x:{par(n0)}x{par(n1)}', 'RichData.x')
        R.expect_close(y, Y, 4 * eps * np.abs(Y), f'RichData.y:{par(n0)}x{par(n1)}', 'RichData.y')
        rd = RichData(np.zeros((n0, n1)), dx, 0.5)
        y = R.call(lambda: rd.y)   # y first: the other lazy-initialisation order
        x = R.call(lambda: rd.x)
        R.expect_close(x, X, 4 * eps * np.abs(X), f'RichData.x:{par(n0)}x{par(n1)}', 'RichData.x (y read first)')
        R.expect_close(y, Y, 4 * eps * np.abs(Y), f'RichData.y:{par(n0)}x{par(n1)}', 'RichData.y (y read first)')
        # coordinates of different objects are independent: writing into the array one object handed out must not
        # change what another object (same shape, dx, precision) or a later fresh object reports
        a, b = RichData(np.zeros((n0, n1)), dx, 0.5), RichData(np.zeros((n0, n1)), dx, 0.5)
        xa, ya = R.call(lambda: a.x), R.call(lambda: a.y)
        if xa is not FAILED and ya is not FAILED:
            try:
                xa += 3.5
                ya -= 1.25
            except Exception:   # noqa
                pass
            c = RichData(np.zeros((n0, n1)), dx, 0.5)
            for nm, o in (('other', b), ('fresh', c)):
                R.expect_close(R.call(lambda: o.x), X, 4 * eps * np.abs(X), f'RichData.x:shared-between-objects', f'x of an {nm} object after an in-place edit of another object\'s x')
                R.expect_close(R.call(lambda: o.y), Y, 4 * eps * np.abs(Y), f'RichData.y:shared-between-objects', f'y of an {nm} object after an in-place edit of another object\'s y')
            g = R.call(coordinates.make_xy_grid, (n0, n1), dx=dx, grid=True)
            if g is not FAILED:
                R.expect_close(g[0], X, 4 * eps * np.abs(X), sig + ':after-edit', 'make_xy_grid after a caller edited earlier coordinates in place')
        # ... and so are the coordinates of a COPY: grids built (x, y, r, t, slices), copy taken, the copy's grids re-centred in place
        # (what Interferogram.copy().crop().recenter() does): the original still has its zero at n//2
        for pre in (('x', 'y'), ('r', 't'), ()):
            o = RichData(np.zeros((n0, n1)), dx, 0.5)
            for a_ in pre:
                getattr(o, a_)
            if not pre:
                R.call(o.slices, sig='RichData.slices:exception', hygiene=False)
            c2 = R.call(o.copy, sig='RichData.copy:exception', hygiene=False)
            if c2 is FAILED:
                continue
            try:
                for a_ in ('x', 'y', 'r', 't'):
                    v = getattr(c2, a_)
                    v += 2.5 * dx
            except Exception:   # noqa
                pass
            R.expect_close(R.call(lambda: o.x), X, 4 * eps * np.abs(X), 'RichData.x:shared-with-copy', f'x of the original after its copy\'s coordinates were shifted in place (grids read before the copy: {pre})')
            R.expect_close(R.call(lambda: o.y), Y, 4 * eps * np.abs(Y), 'RichData.y:shared-with-copy', f'y of the original after its copy\'s coordinates were shifted in place (grids read before the copy: {pre})')
            rr = R.call(lambda: o.r)
            R.expect_close(rr, np.hypot(X, Y), 8 * eps * (np.abs(X) + np.abs(Y)), 'RichData.r:shared-with-copy', 'r of the original after its copy\'s coordinates were shifted in place')
        R.outcome('grid')
    finally:
        config.precision = 64


# ---------------------------------------------------------------------------------------------
# pad / crop

def ref_pad(a, out_shape, mode, value):
    n0, n1 = a.shape
    N0, N1 = out_shape
    o0, o1 = N0 // 2 - n0 // 2, N1 // 2 - n1 // 2
    I, J = np.meshgrid(np.arange(N0) - o0, np.arange(N1) - o1, indexing='ij')
    inside = (I >= 0) & (I < n0) & (J >= 0) & (J < n1)
    if mode == 'constant':
        out = np.full((N0, N1), float(value))
        out[inside] = a[I[inside], J[inside]]
        return out
    if mode == 'edge':
        return a[np.clip(I, 0, n0 - 1), np.clip(J, 0, n1 - 1)]
    if mode == 'wrap':
        return a[np.mod(I, n0), np.mod(J, n1)]
    raise ValueError(mode)


def ref_crop(a, out_shape):
    n0, n1 = a.shape
    N0, N1 = out_shape
    l0, l1 = n0 // 2 - N0 // 2, n1 // 2 - N1 // 2
    return a[l0:l0 + N0, l1:l1 + N1]


def run_pad(case, seed, R):
    n0, n1, N0, N1 = case['n0'], case['n1'], case['N0'], case['N1']
    a = labels((n0, n1))
    grow = (N0, N1) != (n0, n1)
    sig = f'pad2d:{par(n0)}->{par(N0)},{par(n1)}->{par(N1)}'
    for mode, value in (('constant', 0), ('constant', 7.5), ('edge', 0), ('wrap', 0)):
        want = ref_pad(a, (N0, N1), mode, value)
        got = R.call(fttools.pad2d, a.copy(), out_shape=(N0, N1), value=value, mode=mode)
        ok = R.expect_equal(got, want, sig + f':{mode}', f'pad2d {a.shape}->{(N0, N1)} mode={mode} value={value}')
        if mode == 'constant' and got is not FAILED and ok:
            # crop undoes pad exactly
            back = R.call(fttools.crop_center, got, (n0, n1))
            R.expect_equal(back, a, f'crop(pad):{par(n0)}->{par(N0)},{par(n1)}->{par(N1)}', 'crop_center(pad2d(x)) != x')
    # data kinds: the container the caller handed in is kept (dtype) and so is every value, whatever the type of the fill value
    if grow:
        for kind, b0 in (('frac', a + 0.25), ('complex', a * (1 + 0.5j) + 0.125j), ('float32', (a + 0.5).astype(np.float32)), ('int', a.astype(np.int64))):
            for value in (0, 1, -2, 7.5):
                if kind == 'int' and value == 7.5:
                    continue
                want = ref_pad(np.real(b0).astype(float), (N0, N1), 'constant', value).astype(complex if kind == 'complex' else float)
                if kind == 'complex':
                    want = want + 1j * ref_pad(np.imag(b0).astype(float), (N0, N1), 'constant', 0)
                got = R.call(fttools.pad2d, b0.copy(), out_shape=(N0, N1), value=value, mode='constant')
                if got is FAILED:
                    continue
                R.expect_equal(np.asarray(got).astype(want.dtype), want, sig + f':constant:{kind}-data', f'pad2d of {kind} data {b0.shape}->{(N0, N1)} with fill value {value!r}: values not preserved')
                R.expect(np.asarray(got).dtype == b0.dtype, sig + f':constant:{kind}-data:dtype', f'pad2d of {b0.dtype} data with fill value {value!r} returned {np.asarray(got).dtype}')
                back = R.call(fttools.crop_center, got, (n0, n1))
                R.expect_equal(back, b0, f'crop(pad):{kind}-data', f'crop_center(pad2d(x, value={value!r})) != x for {kind} data')
    # crop_center on its own inverse direction: crop the big labelled array down to (n0,n1)
    b = labels((N0, N1))
    got = R.call(fttools.crop_center, b, (n0, n1))
    R.expect_equal(got, ref_crop(b, (n0, n1)), f'crop_center:{par(N0)}->{par(n0)},{par(N1)}->{par(n1)}',
                   f'crop_center {(N0, N1)}->{(n0, n1)}')
    got = R.call(fttools.pad2d, ref_crop(b, (n0, n1)).copy(), out_shape=(N0, N1)) if grow else b
    if got is not FAILED and grow:
        # pad(crop(b)) must agree with b wherever it is non-zero: the surviving block did not move
        keep = np.asarray(got) != 0
        R.expect(np.asarray(got).shape == b.shape and np.array_equal(np.asarray(got)[keep], b[keep]) and keep.sum() == n0 * n1,
                 f'pad(crop):{par(N0)}->{par(n0)},{par(N1)}->{par(n1)}', 'pad2d(crop_center(b)) moved the block')
    if N0 == N1:
        got = R.call(fttools.pad2d, a.copy(), out_shape=N0)
        R.expect_equal(got, ref_pad(a, (N0, N1), 'constant', 0), sig + ':constant', 'pad2d int out_shape')
        got = R.call(fttools.crop_center, b, n0) if n0 == n1 else None
        if got is not None:
            R.expect_equal(got, ref_crop(b, (n0, n1)), f'crop_center:{par(N0)}->{par(n0)},{par(N1)}->{par(n1)}', 'crop_center int shape')
    # Wavefront wrappers (both in-place and not)
    for inplace in (True, False):
        w = Wavefront(a.copy().astype(complex), 0.5, 1.0)
        out = R.call(w.pad2d, 1, out_shape=(N0, N1), inplace=inplace)
        if out is not FAILED:
            R.expect_equal(out.data, ref_pad(a, (N0, N1), 'constant', 0).astype(complex), 'Wavefront.' + sig, 'Wavefront.pad2d')
            R.expect((out is w) == inplace, 'Wavefront.pad2d:inplace', 'inplace flag not honoured')
            R.expect(out.dx == 1.0 and out.wavelength == 0.5, 'Wavefront.pad2d:meta', 'dx / wavelength changed by pad')
        w = Wavefront(b.copy().astype(complex), 0.5, 1.0)
        out = R.call(w.crop, (n0, n1), inplace=inplace)
        if out is not FAILED:
            R.expect_equal(out.data, ref_crop(b, (n0, n1)).astype(complex),
                           f'Wavefront.crop:{par(N0)}->{par(n0)},{par(N1)}->{par(n1)}', 'Wavefront.crop')
    R.nontrivial(grow)
    R.outcome('grow' if grow else 'same')


def run_padQ(case, seed, R):
    import math
    n0, n1, Q = case['n0'], case['n1'], case['Q']
    a = labels((n0, n1))
    out_shape = (math.ceil(n0 * Q), math.ceil(n1 * Q))
    got = R.call(fttools.pad2d, a.copy(), Q)
    sig = f'pad2d:{par(n0)}->{par(out_shape[0])},{par(n1)}->{par(out_shape[1])}:Q'
    R.expect_equal(got, ref_pad(a, out_shape, 'constant', 0), sig, f'pad2d Q={Q} {a.shape}->{out_shape}')
    w = Wavefront(a.copy(), 0.5, 1.0)
    out = R.call(w.pad2d, Q, inplace=False)
    if out is not FAILED:
        R.expect_equal(out.data, ref_pad(a, out_shape, 'constant', 0), 'Wavefront.' + sig, 'Wavefront.pad2d(Q)')
    R.nontrivial(Q != 1)
    R.outcome('Q')


# ---------------------------------------------------------------------------------------------
# slices, centroid

AZ = ('azavg', 'azmedian', 'azmin', 'azmax')


def az_check(R, s, origin_value, sig, what):
    """the azimuthal slices start at r = 0, i.e. AT the origin sample: every one of them must report the origin sample there"""
    for nm in AZ:
        out = R.call(getattr, s, nm, sig=f'{sig}:{nm}:exception', hygiene=False)
        if out is FAILED:
            continue
        try:
            rr, vv = out
            ok = len(rr) > 0 and float(rr[0]) == 0.0 and abs(float(vv[0]) - float(origin_value)) <= 1e-9 * max(1.0, abs(float(origin_value)))
            msg = f'{what}: {nm} starts at r={float(rr[0])!r} with value {float(vv[0])!r}, the origin sample holds {float(origin_value)!r}'
        except Exception as e:   # noqa
            ok, msg = False, f'{what}: unusable {nm} output: {type(e).__name__}: {e}'
        R.expect(ok, f'{sig}:az-origin', msg)


def run_slices(case, seed, R):
    n0, n1, dx = case['n0'], case['n1'], case['dx']
    a = labels((n0, n1))
    sig = f'slices:{par(n0)}x{par(n1)}'
    for pre in ('none', 'xy'):
        rd = RichData(a.copy(), dx, 0.5)
        if pre == 'xy':
            rd.x, rd.y   # noqa -- populated caches
        s = R.call(rd.slices, True)
        if s is FAILED:
            continue
        cx, vx = s.x
        cy, vy = s.y
        R.expect_equal(vx, a[n0 // 2, :], sig + ':x', 'x slice is not the row through n//2')
        R.expect_equal(vy, a[:, n1 // 2], sig + ':y', 'y slice is not the column through n//2')
        eps = np.finfo(float).eps
        R.expect_close(cx, (np.arange(n1) - n1 // 2) * dx, 4 * eps * n1 * dx, sig + ':x', 'x slice coordinates')
        R.expect_close(cy, (np.arange(n0) - n0 // 2) * dx, 4 * eps * n0 * dx, sig + ':y', 'y slice coordinates')
        az_check(R, s, a[n0 // 2, n1 // 2], sig, f'RichData.slices() of {a.shape} data (caches: {pre})')
        # object history: the data array is replaced (assignment, as Interferogram.filter does) or rewritten in place after slices
        # were taken -- the next slices() must be slices of the CURRENT data
        b = a[::-1, ::-1] * 2 + 1
        for how in ('assign', 'inplace'):
            rd2 = RichData(a.copy(), dx, 0.5)
            if pre == 'xy':
                rd2.x, rd2.y   # noqa
            for ts in (True, False):
                R.call(rd2.slices, ts)
            if how == 'assign':
                rd2.data = b.copy()
            else:
                rd2.data[...] = b
            s2 = R.call(rd2.slices, True)
            if s2 is not FAILED:
                R.expect_equal(s2.x[1], b[n0 // 2, :], sig + f':after-data-{how}:x', f'x slice taken after the data were replaced ({how}) is not the row n//2 of the current data')
                R.expect_equal(s2.y[1], b[:, n1 // 2], sig + f':after-data-{how}:y', f'y slice taken after the data were replaced ({how}) is not the column n//2 of the current data')
            s2 = R.call(rd2.slices, False)
            if s2 is not FAILED:
                R.expect_equal(s2.x[1], b[n0 // 2, n1 // 2:], sig + f':after-data-{how}:x1', f'one-sided x slice after the data were replaced ({how})')
        s = R.call(rd.slices, False)
        if s is FAILED:
            continue
        cx, vx = s.x
        cy, vy = s.y
        R.expect_equal(vx, a[n0 // 2, n1 // 2:], sig + ':x1', 'one-sided x slice')
        R.expect_equal(vy, a[n0 // 2:, n1 // 2], sig + ':y1', 'one-sided y slice')
        R.expect(len(cx) > 0 and cx[0] == 0 and len(cy) > 0 and cy[0] == 0, sig + ':onesided-origin', 'one-sided slice does not start at 0')
    # coordinates whose zero is not at n//2 (an off-centre crop carries its coordinates along; x/y assigned through the
    # setters; Slices built directly): the slices still pass through the sample whose coordinate is zero
    from prysm._richdata import Slices
    origins = [(i0, j0) for i0 in sorted({0, n0 // 2 - 1, n0 // 2 + 1, n0 - 1} & set(range(n0)))
               for j0 in sorted({0, n1 // 2 - 1, n1 // 2 + 1, n1 - 1} & set(range(n1)))]
    # orientation: ascending; x descending (mirrored); y descending (y-up image convention) -- the latter two at a few origins only
    flips = [(o, (1, 1)) for o in origins] + [(o, f) for o in origins[:1] + origins[-1:] + origins[len(origins) // 2:len(origins) // 2 + 1] for f in ((-1, 1), (1, -1))]
    for (i0, j0), (sx, sy) in flips:
        xv, yv = sx * (np.arange(n1) - j0) * dx, sy * (np.arange(n0) - i0) * dx
        X, Y = np.meshgrid(xv, yv)
        rd = RichData(a.copy(), dx, 0.5)
        rd.x, rd.y = X, Y
        for how, mk in ((f'setters{sx:+d}{sy:+d}', lambda ts: rd.slices(ts)), (f'direct{sx:+d}{sy:+d}', lambda ts: Slices(a, xv, yv, twosided=ts))):
            s = R.call(mk, True)
            if s is FAILED:
                continue
            R.expect_equal(s.x[1], a[i0, :], sig + ':shifted-origin:x', f'{how}: x slice is not the row of the zero y coordinate (row {i0} of {n0})')
            R.expect_equal(s.y[1], a[:, j0], sig + ':shifted-origin:y', f'{how}: y slice is not the column of the zero x coordinate (column {j0} of {n1})')
            az_check(R, s, a[i0, j0], sig + ':shifted-origin', f'{how}, origin at {(i0, j0)}')
            s = R.call(mk, False)
            if s is FAILED:
                continue
            R.expect_equal(s.x[1], a[i0, j0:], sig + ':shifted-origin:x1', f'{how}: one-sided x slice, origin at {(i0, j0)}')
            R.expect_equal(s.y[1], a[i0:, j0], sig + ':shifted-origin:y1', f'{how}: one-sided y slice, origin at {(i0, j0)}')
            R.expect(len(s.x[0]) > 0 and s.x[0][0] == 0 and len(s.y[0]) > 0 and s.y[0][0] == 0, sig + ':shifted-origin:onesided-origin',
                     f'{how}: one-sided slice does not start at coordinate 0 (origin at {(i0, j0)})')
    R.nontrivial(n0 * n1 > 1)
    R.outcome('slices')


def run_centroid(case, seed, R):
    n0, n1, dx = case['n0'], case['n1'], case['dx']
    sig = f'centroid:{par(n0)}x{par(n1)}'
    eps = np.finfo(float).eps
    for i in range(n0):
        for j in range(n1):
            d = np.zeros((n0, n1))
            d[i, j] = 2.5
            got = R.call(psfmod.centroid, d, dx, 'spatial')
            want = (dx * (i - n0 // 2), dx * (j - n1 // 2))
            R.expect_close(got, want, 8 * eps * dx * max(n0, n1), sig, f'centroid of delta at {(i, j)} in {(n0, n1)} dx={dx}')
            got = R.call(psfmod.centroid, d, None, 'pixels')
            R.expect_close(got, (i, j), 8 * eps * max(n0, n1), sig + ':pixels', f'pixel centroid of delta at {(i, j)}')
    # camera frames: integer dtypes with large pixel values (value x index exceeds the container), float32
    for dt, val in (('uint8', 200), ('uint16', 4000), ('int16', 30000), ('int32', 2 ** 30), ('float32', 2.5)):
        for (i, j) in {(0, 0), (n0 - 1, n1 - 1), (n0 // 2, n1 - 1), (n0 - 1, n1 // 2)}:
            d = np.zeros((n0, n1), dtype=dt)
            d[i, j] = val
            got = R.call(psfmod.centroid, d, dx, 'spatial')
            R.expect_close(got, (dx * (i - n0 // 2), dx * (j - n1 // 2)), 1e-6 * dx * max(n0, n1), sig + f':{dt}',
                           f'centroid of a {dt} frame with a point source of value {val} at {(i, j)} in {(n0, n1)}')
            got = R.call(psfmod.centroid, d, None, 'pixels')
            R.expect_close(got, (i, j), 1e-6 * max(n0, n1), sig + f':pixels:{dt}', f'pixel centroid of a {dt} frame, source at {(i, j)}')
    # two equal point sources straddling the origin symmetrically -> centroid exactly at origin
    if n0 >= 3 and n1 >= 3:
        d = np.zeros((n0, n1))
        d[n0 // 2 - 1, n1 // 2 - 1] = 1
        d[n0 // 2 + 1, n1 // 2 + 1] = 1
        got = R.call(psfmod.centroid, d, dx, 'spatial')
        R.expect_close(got, (0.0, 0.0), 8 * eps * dx * max(n0, n1), sig + ':pair', 'symmetric pair about origin')
    R.nontrivial(n0 * n1 > 1)
    R.outcome('centroid')


def run_centroid_large(case, seed, R):
    """size thresholds of the centroid: windowed / decimated fast paths for big frames; point sources at the edges, at the corners,
    just inside and outside a 48 / 64-sample margin and at the origin, every one judged exactly"""
    n0, n1, dx = case['n0'], case['n1'], case['dx']
    eps = np.finfo(float).eps
    rows = sorted({0, 1, 10, 47, 48, 63, 64, n0 // 2 - 1, n0 // 2, n0 - 65, n0 - 48, n0 - 2, n0 - 1} & set(range(n0)))
    cols = sorted({0, 1, 20, 47, 48, 63, 64, n1 // 2, n1 // 2 + 1, n1 - 64, n1 - 49, n1 - 2, n1 - 1} & set(range(n1)))
    pts = [(rows[k % len(rows)], cols[(3 * k + 1) % len(cols)]) for k in range(max(len(rows), len(cols)) * 2)] + [(0, 0), (n0 - 1, n1 - 1), (0, n1 - 1), (n0 - 1, 0), (n0 // 2, n1 // 2)]
    d = np.zeros((n0, n1))
    for k, (i, j) in enumerate(dict.fromkeys(pts)):
        d[i, j] = 2.5
        got = R.call(psfmod.centroid, d, dx, 'spatial', hygiene=k == 0)
        R.expect_close(got, (dx * (i - n0 // 2), dx * (j - n1 // 2)), 64 * eps * dx * max(n0, n1), 'centroid:large', f'centroid of a point source at {(i, j)} in a {(n0, n1)} frame, dx={dx}')
        got = R.call(psfmod.centroid, d, None, 'pixels', hygiene=False)
        R.expect_close(got, (i, j), 64 * eps * max(n0, n1), 'centroid:large:pixels', f'pixel centroid of a point source at {(i, j)} in a {(n0, n1)} frame')
        d[i, j] = 0.0
    R.nontrivial()
    R.outcome('centroid:large')


# ---------------------------------------------------------------------------------------------
# object history: one Wavefront padded / cropped / written to repeatedly (explicit-state BFS).  The reference model is a
# plain array on which pad = "embed with sample n//2 at N//2", crop = "centre slice about n//2", write = "add 100 everywhere".

WF_SIZES = [[2, 3], [3, 3], [4, 5], [5, 4], [6, 6]]


class WfState:
    __slots__ = ('wf', 'model', 'dead', 'side')

    def __init__(self, wf, model):
        self.wf, self.model, self.dead, self.side = wf, model, False, None


def wf_fresh(init, seed):
    a = labels(tuple(init['shape'])).astype(complex)
    return WfState(Wavefront(a.copy(), 0.5, 1.0), a.copy())


def wf_events(init, history, st):
    if st.dead:
        return []
    cur = st.model.shape
    out = []
    for sz in WF_SIZES:
        if tuple(sz) == cur:
            continue
        if sz[0] >= cur[0] and sz[1] >= cur[1]:
            out += [['pad', sz, 0], ['pad', sz, 7.5], ['pad_new', sz, 0]]
        if sz[0] <= cur[0] and sz[1] <= cur[1]:
            out += [['crop', sz], ['crop_new', sz]]
    out += ['write', 'rebind', 'inspect']
    return out


def wf_apply(st, ev, R):
    if st.dead:
        return st
    w = st.wf
    name = ev if isinstance(ev, str) else ev[0]
    st.side = None
    if name in ('pad', 'pad_new'):
        out = R.call(w.pad2d, 1, value=ev[2], out_shape=tuple(ev[1]), inplace=name == 'pad', sig=f'Wavefront.pad2d:history:exception')
        want = ref_pad(st.model.real, tuple(ev[1]), 'constant', ev[2]) + 1j * ref_pad(st.model.imag, tuple(ev[1]), 'constant', 0)
        if name == 'pad':
            st.model = want
        else:
            st.side = (out, want)
    elif name in ('crop', 'crop_new'):
        out = R.call(w.crop, tuple(ev[1]), inplace=name == 'crop', sig='Wavefront.crop:history:exception')
        want = ref_crop(st.model, tuple(ev[1])).copy()
        if name == 'crop':
            st.model = want
        else:
            st.side = (out, want)
    elif name == 'write':          # the user writes into the whole current frame in place (a mask, a phase screen)
        out = None
        w.data[...] = w.data + 100
        st.model = st.model + 100
    elif name == 'inspect':        # the user looks at the field between steps: intensity / phase views with their coordinates and slices
        out = None                 # (an event of its own: histories are replayed without the per-state checks, so only an event can
        for attr in ('intensity', 'phase'):                               # leave something behind in the object)
            v = R.call(getattr, w, attr, sig=f'Wavefront.{attr}:history:exception', hygiene=False)
            if v is FAILED:
                out = FAILED
                break
            for a in ('x', 'y', 'r', 't'):
                R.call(getattr, v, a, sig=f'Wavefront.{attr}.{a}:history:exception', hygiene=False)
            R.call(v.slices, sig=f'Wavefront.{attr}.slices:history:exception', hygiene=False)
    elif name == 'rebind':         # the user assigns a new array of the same shape (wf.data = wf.data * 2)
        out = None
        w.data = w.data * 2
        st.model = st.model * 2
    else:
        raise ValueError(ev)
    if out is FAILED:
        st.dead = True
    return st


def wf_check(st, init, history, R):
    if st.dead:
        R.outcome('exception')
        return
    last = history[-1] if history else 'init'
    name = last if isinstance(last, str) else last[0]
    R.expect_equal(st.wf.data, st.model, f'Wavefront:history:{name}', f'Wavefront data after {history} differ from the array model (pad embeds sample n//2 at N//2 into a border of the fill value, crop slices about n//2)')
    R.expect(st.wf.dx == 1.0 and st.wf.wavelength == 0.5, f'Wavefront:history:{name}:meta', 'dx / wavelength changed')
    # the views a user inspects (intensity / real part as RichData with coordinates and slices) are judged in EVERY state, on a copy of
    # the object; the event ``inspect`` is what primes a view that remembers the grid or the slices of an earlier state
    n0, n1 = st.model.shape
    import copy as _copy
    probe = _copy.deepcopy(st.wf)     # observer effect: taking a view may leave something behind in the object, so the oracle looks at a copy
    for attr, wantd in (('intensity', np.abs(st.model) ** 2), ('real', st.model.real)):
        v = R.call(getattr, probe, attr, sig=f'Wavefront.{attr}:history:exception', hygiene=False)
        if v is FAILED:
            continue
        R.expect_equal(getattr(v, 'data', None), wantd, f'Wavefront.{attr}:history:data', f'.{attr}.data after {history}')
        x = R.call(getattr, v, 'x', sig=f'Wavefront.{attr}.x:history:exception', hygiene=False)
        y = R.call(getattr, v, 'y', sig=f'Wavefront.{attr}.y:history:exception', hygiene=False)
        X, Y = np.meshgrid(np.arange(n1) - n1 // 2, np.arange(n0) - n0 // 2)
        R.expect_equal(x, X.astype(float), f'Wavefront.{attr}:history:grid', f'.{attr}.x after {history}: not the {(n0, n1)} grid with its zero at n//2')
        R.expect_equal(y, Y.astype(float), f'Wavefront.{attr}:history:grid', f'.{attr}.y after {history}: not the {(n0, n1)} grid with its zero at n//2')
        sl = R.call(v.slices, True, sig=f'Wavefront.{attr}.slices:history:exception', hygiene=False)
        if sl is not FAILED:
            R.expect_equal(sl.x[1], wantd[n0 // 2, :], f'Wavefront.{attr}:history:slices', f'.{attr}.slices().x after {history} is not the row n//2 of the current data')
            R.expect_equal(sl.y[1], wantd[:, n1 // 2], f'Wavefront.{attr}:history:slices', f'.{attr}.slices().y after {history} is not the column n//2 of the current data')
    if st.side is not None:
        out, want = st.side
        if out is not FAILED:
            R.expect(out is not st.wf, f'Wavefront:history:{name}:inplace', 'inplace=False returned the object itself')
            R.expect_equal(getattr(out, 'data', None), want, f'Wavefront:history:{name}:result', f'out-of-place result after {history}')
    R.nontrivial(len(history) >= 2)
    R.outcome(name)


def _attr_digest(v, depth=2):
    if v is None or isinstance(v, (bool, int, float, str)):
        return repr(v)
    if isinstance(v, np.ndarray):
        return ('nd', v.shape, str(v.dtype), np.ascontiguousarray(v).tobytes() if v.size <= 4096 else None)
    if isinstance(v, (tuple, list)):
        return tuple(_attr_digest(w, depth) for w in v)
    if isinstance(v, dict):
        return tuple(sorted((repr(k), _attr_digest(w, depth)) for k, w in v.items()))
    if depth > 0 and hasattr(v, '__dict__'):
        return (type(v).__name__,) + tuple(sorted((k, _attr_digest(w, depth - 1)) for k, w in vars(v).items()))
    return type(v).__name__


WF_KNOWN = {'data', 'wavelength', 'dx', 'space'}


def wf_canon(st):
    if st.dead:
        return 'dead'
    d = np.asarray(st.wf.data)
    # anything else an implementation keeps on the instance (a remembered grid, a pad buffer, a tag of the unpadded shape) can be read
    # by a later transition and is part of the state; on the pinned tree there is no such attribute
    extra = tuple(sorted((k, _attr_digest(v)) for k, v in vars(st.wf).items() if k not in WF_KNOWN))
    return (d.shape, np.ascontiguousarray(d).tobytes(), bool(d.flags.owndata), bool(d.flags.c_contiguous), extra)


def plan(tier, seed):
    B1 = 12 if tier == 'quick' else 24      # 1-D style bounds (grids)
    B2 = 6 if tier == 'quick' else 9        # per-axis bound for the 4-index pad/crop product
    grid_cases = [{'n0': n0, 'n1': n1, 'dx': dx, 'prec': p}
                  for n0 in range(1, B1 + 1) for n1 in range(1, B1 + 1) for dx in (1.0, 0.3, 0.125) for p in (64, 32)]
    pad_cases = [{'n0': n0, 'n1': n1, 'N0': N0, 'N1': N1}
                 for n0 in range(1, B2 + 1) for n1 in range(1, B2 + 1)
                 for N0 in range(n0, B2 + 1) for N1 in range(n1, B2 + 1)]
    # the long 1-D tail: one axis fixed at 1 or 2, the other up to B1 (every parity transition at larger sizes)
    seen = {(c['n0'], c['n1'], c['N0'], c['N1']) for c in pad_cases}
    for n in range(1, B1 + 1):
        for N in range(n, B1 + 1):
            for t in ((n, 2, N, 3), (2, n, 3, N), (n, n, N, N)):
                if t not in seen:
                    seen.add(t)
                    pad_cases.append(dict(zip(('n0', 'n1', 'N0', 'N1'), t)))
    padq_cases = [{'n0': n0, 'n1': n1, 'Q': Q} for n0 in range(1, B1 + 1) for n1 in range(1, B1 + 1)
                  for Q in (1, 1.5, 2, 3, 1.25)]
    sl_cases = [{'n0': n0, 'n1': n1, 'dx': dx} for n0 in range(1, B1 + 1) for n1 in range(1, B1 + 1) for dx in (1.0, 0.3)]
    # magnitude of the sample spacing (metres for a detector pitch, microradians ...): absolute closeness tests misfire at these
    sl_cases += [{'n0': n0, 'n1': n1, 'dx': dx} for (n0, n1) in ((1, 1), (2, 2), (2, 3), (3, 2), (4, 4), (5, 5), (4, 7), (7, 4), (B1, B1 - 1)) for dx in (6.5e-9, 1e-12, 1e-300, 2.5e6)]
    cl_cases = [{'n0': n0, 'n1': n1, 'dx': 0.5} for (n0, n1) in ((513, 512), (512, 514), (700, 400), (1030, 1031))] + \
        ([] if tier == 'quick' else [{'n0': n0, 'n1': n1, 'dx': 0.3} for (n0, n1) in ((2049, 2050), (300, 4000), (129, 2100))])
    ce_cases = [{'n0': n0, 'n1': n1, 'dx': dx} for n0 in range(1, B2 + 3) for n1 in range(1, B2 + 3) for dx in (1.0, 0.3)]
    ce_cases += [{'n0': n0, 'n1': n1, 'dx': 0.5} for (n0, n1) in ((33, 48), (48, 33), (64, 64), (65, 65), (1, 300), (257, 2))]   # index x value overflows narrow containers
    rs = lambda: reset_executors(64)   # noqa
    wf_depth = 4 if tier == 'quick' else 5
    wf_inits = [{'shape': sz} for sz in ([[3, 3], [4, 5]] if tier == 'quick' else WF_SIZES)]
    wf_unit = HistoryUnit('wavefront_history', wf_inits, wf_fresh, wf_events, wf_apply, wf_check, wf_canon, wf_depth,
                          f'BFS to depth {wf_depth} over histories of ONE Wavefront object from shapes {[i["shape"] for i in wf_inits]}: events pad2d in place to every '
                          f'larger-or-equal size of {WF_SIZES} with fill 0 / 7.5, pad2d out of place, crop in place / out of place to every smaller-or-equal '
                          'size, write (data[...] += 100 in place), rebind (data = data*2), inspect (take the intensity / phase views and read their x, y, r, t and slices); labelled complex data; in every state the data equal the plain-array '
                          'model (pad embeds sample n//2 at N//2 into a border of the fill value, crop slices about n//2), out-of-place results equal the model '
                          'result and leave the object alone; canonical state = (shape, data bytes, owns-data / contiguity flags of the data array, digest of every further instance attribute)', reset=rs)
    return [
        wf_unit,
        ScopeUnit('grids', grid_cases, run_grid,
                  f'every (n0,n1) in [1..{B1}]^2 x dx in {{1,0.3,0.125}} x precision {{64,32}}: fftrange, forward_ft_unit (both conventions), '
                  'make_xy_grid (vectors, meshgrid, int shape, diameter form), RichData.x/.y in both lazy-initialisation orders; the sample count also as numpy int8..int64 / uint8..uint64 scalars; non-trivial when n>1', reset=rs),
        ScopeUnit('pad_crop', pad_cases, run_pad,
                  f'every (n0,n1)->(N0,N1) with n<=N<={B2} per axis plus 1-D tails up to {B1}: pad2d (constant 0, constant 7.5, edge, wrap; tuple and int out_shape), '
                  'crop_center, crop(pad(x))==x, pad(crop(b)) keeps block in place, Wavefront.pad2d / crop in and out of place; data are unique integer labels so placement is decided exactly; non-trivial when the shape changes', reset=rs),
        ScopeUnit('pad_Q', padq_cases, run_padQ,
                  f'every (n0,n1) in [1..{B1}]^2 x Q in {{1,1.25,1.5,2,3}} through the Q form of pad2d and Wavefront.pad2d', reset=rs),
        ScopeUnit('slices', sl_cases, run_slices,
                  f'every shape in [1..{B1}]^2 x dx {{1, 0.3}} (plus dx in {{6.5e-9, 1e-12, 1e-300, 2.5e6}} on 9 shapes): RichData.slices() two- and one-sided, with and without populated coordinate caches, the azimuthal slices at r = 0, '
                  'slices taken again after the data array was replaced / rewritten in place, shifted-origin and mirrored coordinate vectors through the setters and through Slices directly; labelled data', reset=rs),
        ScopeUnit('centroid_large', cl_cases, run_centroid_large,
                  f'size-threshold alphabet of frame shapes {[(c["n0"], c["n1"]) for c in cl_cases]} (all above 512x512 samples, above 2^20 for the largest): point sources at the corners, edges, '
                  'just inside / outside 48- and 64-sample margins, next to and at the origin, spatial and pixel units, each judged exactly; not closed over sizes', reset=rs),
        ScopeUnit('centroid', ce_cases, run_centroid,
                  f'every shape in [1..{B2 + 2}]^2 x dx x EVERY point-source position, spatial and pixel units, plus a symmetric pair', reset=rs),
    ]
