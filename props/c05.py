"""C05 -- fixed-sampling results depend on the physical field, not its array embedding.

Metamorphic relations, judged on operator matrices (column k = F(delta_k)), through the public
physical-unit functions focus_fixed_sampling / unfocus_fixed_sampling / to_fpm_and_back and the
Wavefront methods:

  (i)   linearity: F(i*delta) = i*F(delta), F(dense) = A @ dense;
  (ii)  F(embed(f)) = F(f): the operator on the larger array, restricted to the columns of the
        embedded window, equals the operator on the small array (embedding done here: n//2 -> N//2);
  (iii) F(f^T; samples and shift swapped) = F(f)^T;
  (iv)  to_fpm_and_back with an all-ones mask covering the whole band is the identity, every shift;
  (v)   T(mask) + T(1-mask) = T(ones); Wavefront.babinet(lyot, fpm) = lyot*(f - T(1-fpm) f).

No transform reference is needed: every oracle is a relation between two runs of the code under
test, or the identity matrix.
"""
import numpy as np

import json
import os

from mc import ScopeUnit, HistoryUnit, FAILED
from mc import ref_dft
from mc.linalg import dense, deltas
from mc.state import reset_executors

from prysm import propagation
from prysm.propagation import Wavefront

ID = 'C05'
ASSUMPTIONS = [
    'one physical sample spacing per plane (the public functions take a scalar dx); per-axis arguments are the output sample counts and the shift',
    'masks are ndarrays (real or complex); Wavefront-typed masks are outside the scope',
    'the full-band all-ones mask is square: with one dx per plane n_axis*Q_axis = wvl*efl/(dx*fpm_dx) is the same number on both axes',
    'accuracy demanded: 2e3 * eps(float64) per operator entry (entries are O(1) or smaller)',
]

K_TOL = 2e3
EPS = float(np.finfo(float).eps)
TOL = K_TOL * EPS
UNITS = [[0.5, 100.0, 0.1], [1.55, 37.5, 0.26]]      # (wavelength um, focal length mm, input-plane dx)


def sqc(shape):
    return 'square' if shape[0] == shape[1] else 'nonsquare'


def shift_class(sh):
    if sh[0] == 0 and sh[1] == 0:
        return 'noshift'
    return 'shift-int' if float(sh[0]).is_integer() and float(sh[1]).is_integer() else 'shift-frac'


def embed_index(n, N):
    """flat C-order indices, in an array of shape N, of the origin-preserving window of shape n"""
    o0, o1 = N[0] // 2 - n[0] // 2, N[1] // 2 - n[1] // 2
    i, j = np.meshgrid(np.arange(n[0]) + o0, np.arange(n[1]) + o1, indexing='ij')
    return (i * N[1] + j).ravel()


def embed(a, N):
    out = np.zeros(N[0] * N[1], dtype=a.dtype)
    out[embed_index(a.shape, N)] = a.ravel()
    return out.reshape(N)


def op(R, f, shape_in, sig, shape_out, mult=1.0, post=None):
    """operator matrix of f on complex arrays of shape_in; None after recording a violation"""
    cols = []
    for d in deltas(shape_in, complex):
        out = R.call(f, d * mult, sig=sig + ':exception')
        if out is FAILED:
            return None
        try:
            out = np.asarray(out if post is None else post(out))
            if out.dtype.kind not in 'fc':
                raise TypeError(out.dtype)
        except Exception as e:   # noqa
            R.violation(sig + ':type', f'unusable output ({type(e).__name__}: {e})')
            return None
        if out.shape != tuple(shape_out):
            R.violation(sig + ':shape', f'output shape {out.shape} != {tuple(shape_out)} for input shape {tuple(shape_in)}')
            return None
        cols.append(out.ravel())
    A = np.stack(cols, axis=1)
    if not np.all(np.isfinite(A)):
        R.violation(sig, 'non-finite entries in the operator matrix')
        return None
    R.observe(A)
    return A


def close(A, B, tol=TOL):
    return A is not None and B is not None and A.shape == B.shape and bool(np.all(np.abs(A - B) <= tol))


def samples_arg(S):
    return S[0] if S[0] == S[1] else tuple(S)


# ---------------------------------------------------------------------------------------------
# (i) (ii) (iii)

def make_F(fwd, method, wvl, efl, dxi, dxo, S, shift_units):
    fn = propagation.focus_fixed_sampling if fwd else propagation.unfocus_fixed_sampling
    return lambda a: fn(a, dxi, efl, wvl, dxo, samples_arg(S), shift=shift_units, method=method)   # noqa


def warm_calls(sh, fwd):
    """sibling calls of a geometry (name, shift in output samples, direction): the judged call is repeated after each of them"""
    out = [] if (sh[0] == 0 and sh[1] == 0) else [('unshifted', (0, 0), fwd)]
    return out + [('other-shift', (sh[1] + 1, sh[0] - 2), fwd), ('other-direction', tuple(sh), not fwd)]


def run_embed(case, seed, R):
    N, S, P, sh = tuple(case['N']), tuple(case['out']), case['band'], tuple(case['shift'])
    wvl, efl, dxi = UNITS[case['units']]
    nmax = case['nmax']
    dxo = wvl * efl / (dxi * P)          # physical output spacing; per-axis Q = P / n_axis follows from the physical diameter
    shu = (sh[0] * dxo, sh[1] * dxo)     # shift in output units, (x, y) order
    sc = shift_class(sh)
    sc2 = 'noshift' if sc == 'noshift' else 'shifted'      # signature cell (one defect, few signatures)
    for method in ('mdft', 'czt'):
        for fwd in (True, False):
            reset_executors(64)
            name = 'focus_fixed_sampling' if fwd else 'unfocus_fixed_sampling'
            base = f'{name}:{method}'
            F = make_F(fwd, method, wvl, efl, dxi, dxo, S, shu)
            A = op(R, F, N, base, S)
            if A is None:
                continue
            # (i) linearity
            Ai = op(R, F, N, base + ':linearity', S, mult=1j)
            if Ai is not None:
                R.expect_close(Ai, 1j * A, TOL, base + ':linearity', f'F(i*delta) != i*F(delta), input {N} -> {S}')
            x = dense(N, seed, 3)
            y = R.call(F, x.copy())
            nx = float(np.linalg.norm(x))
            R.expect_close(y, (A @ x.ravel()).reshape(S), TOL * max(1.0, nx), base + ':linearity', f'F(dense) != operator matrix @ dense, input {N} -> {S}')
            R.expect_close(R.call(F, 2.5 * x.real), 2.5 * ((A @ x.real.ravel()).reshape(S)), TOL * max(1.0, nx) * 2.5, base + ':linearity:real-input',
                           'F(real dense) != operator matrix @ dense')
            # (iii) transposition: input transposed, per-axis arguments swapped
            Ft = make_F(fwd, method, wvl, efl, dxi, dxo, S[::-1], shu[::-1])
            cols = []
            for d in deltas(N, complex):
                o = R.call(Ft, np.ascontiguousarray(d.T), sig=base + ':transpose:exception')
                if o is FAILED:
                    cols = None
                    break
                o = np.asarray(o)
                if o.shape != S[::-1]:
                    R.violation(base + ':transpose:shape', f'F(f^T) has shape {o.shape}, expected {S[::-1]}')
                    cols = None
                    break
                cols.append(o.T.ravel())
            if cols is not None:
                R.expect_close(np.stack(cols, axis=1), A, TOL, f'{base}:transpose:{sqc(N)}->{sqc(S)}:{sc2}',
                               f'F(f^T; samples {S[::-1]}, shift {shu[::-1]}) != F(f; samples {S}, shift {shu})^T for input shape {N}')
            # (ii) every smaller physical window of the same field
            for n0 in range(1, min(N[0], nmax) + 1):
                for n1 in range(1, min(N[1], nmax) + 1):
                    n = (n0, n1)
                    if n == N:
                        continue
                    An = op(R, F, n, base, S)
                    if An is None:
                        continue
                    R.expect_close(A[:, embed_index(n, N)], An, TOL, f'{base}:embedding:{sqc(n)}->{sqc(N)}:{sc2}',
                                   f'F(embed(f)) != F(f): field of shape {n} embedded in {N}, output {S} at dx_out={dxo:.6g} (dx_in={dxi}), shift {sh} samples')
            # Wavefront methods, dense field in the smallest non-trivial window
            n = (max(1, min(N[0], nmax) - 1), min(N[1], nmax))
            if n != N:
                xs = dense(n, seed, 4)
                space = 'pupil' if fwd else 'psf'
                outs = []
                for arr in (xs, embed(xs, N)):
                    w = Wavefront(arr.copy(), wvl, dxi, space)
                    o = R.call(getattr(w, name), efl, dxo, samples_arg(S), shift=shu, method=method)
                    outs.append(o)
                if outs[0] is not FAILED and outs[1] is not FAILED:
                    R.expect_close(getattr(outs[1], 'data', None), np.asarray(getattr(outs[0], 'data', np.nan)), TOL * max(1.0, float(np.linalg.norm(xs))),
                                   f'Wavefront.{base}:embedding:{sc2}', f'Wavefront.{name} of the embedded field differs, {n} in {N}')
                    R.expect(outs[0].dx == dxo and outs[1].dx == dxo, f'Wavefront.{name}:dx', 'reported dx is not the requested one')
            # (i) (ii) (iii) once more with WARM executors: every call above found either an empty cache or an entry made for exactly
            # its own key.  Here the executors are cleared, ONE sibling call of the same geometry is made (same array shape, spacing,
            # output samples, method -- only the shift, or only the direction, differs) and then the judged call; its complex field
            # must be the one the cold operator matrix A (large array) predicts.
            nw = (min(N[0], nmax), min(N[1], nmax))
            wins = [N] + [n for n in dict.fromkeys([nw, (max(1, nw[0] - 1), nw[1]), (nw[0], max(1, nw[1] - 1))]) if n != N][:2]
            for wname, wsh, wfwd in warm_calls(sh, fwd):
                wshu = (wsh[0] * dxo, wsh[1] * dxo)
                for n in wins:
                    xn = x if n == N else dense(n, seed, 5)
                    want = (A[:, embed_index(n, N)] @ xn.ravel()).reshape(S)
                    tolw = TOL * max(1.0, float(np.linalg.norm(xn)))
                    rel = 'linearity' if n == N else f'embedding:{sqc(n)}->{sqc(N)}'
                    reset_executors(64)
                    R.call(make_F(wfwd, method, wvl, efl, dxi, dxo, S, wshu), xn.copy(), sig=base + ':exception', hygiene=False)
                    R.expect_close(R.call(F, xn.copy(), sig=base + ':exception', hygiene=False), want, tolw, f'{base}:warm:after-{wname}:{rel}:{sc2}',
                                   f'F(f) of a {n} array, shift {sh} samples, called after one {wname} call of the same geometry on cleared executors, '
                                   f'is not what the operator of the {N} array gives for the embedded field (output {S}, dx_out={dxo:.6g})')
                    if n == N:
                        reset_executors(64)
                        R.call(make_F(wfwd, method, wvl, efl, dxi, dxo, S[::-1], wshu[::-1]), np.ascontiguousarray(xn.T), sig=base + ':transpose:exception', hygiene=False)
                        o = R.call(Ft, np.ascontiguousarray(xn.T), sig=base + ':transpose:exception', hygiene=False)
                        R.expect_close(o.T if isinstance(o, np.ndarray) and o.ndim == 2 else o, want, tolw, f'{base}:warm:after-{wname}:transpose:{sqc(N)}->{sqc(S)}:{sc2}',
                                       f'F(f^T; swapped) after one {wname} call of the same (transposed) geometry is not F(f)^T, input {N} -> {S}, shift {sh}')
    R.nontrivial(N != (1, 1))
    R.outcome(sc)


# ---------------------------------------------------------------------------------------------
# (iv) all-ones mask over the whole band

def run_fpm_identity(case, seed, R):
    n, M, sh = tuple(case['n']), case['M'], tuple(case['shift'])
    wvl, efl, dx = UNITS[case['units']]
    fpm_dx = wvl * efl / (dx * M)        # n_axis * Q_axis = M exactly: the M x M mask covers the whole band
    shu = (sh[0] * fpm_dx, sh[1] * fpm_dx)
    sc = shift_class(sh)
    ones = np.ones((M, M))
    I = np.eye(n[0] * n[1])
    x = dense(n, seed, 6)
    for method in ('mdft', 'czt'):
        reset_executors(64)
        T = op(R, lambda a: propagation.to_fpm_and_back(a, dx, efl, wvl, ones, fpm_dx, shift=shu, method=method), n, f'to_fpm_and_back:{method}', n)   # noqa
        # the two legs called directly, the same number of focal-plane samples of shift on both

        def pair(a):
            f = propagation.focus_fixed_sampling(a, dx, efl, wvl, fpm_dx, M, shift=shu, method=method)
            return propagation.unfocus_fixed_sampling(f, fpm_dx, efl, wvl, dx, n if n[0] != n[1] else n[0], shift=(sh[0] * dx, sh[1] * dx), method=method)
        B = op(R, pair, n, f'fixed_sampling_pair:{method}', n)
        R.checks += 2
        okT, okB = close(T, I), close(B, I)
        where = f'pupil {n} dx={dx}, mask {M}x{M} ones at fpm_dx={fpm_dx:.6g} (full band), shift {sh} focal samples'
        if B is not None and not okB:
            R.violation(f'fixed_sampling_pair:{method}:full-band:{sc}',
                        f'unfocus_fixed_sampling(focus_fixed_sampling(f)) with the same shift in samples on both legs is not f: max dev {float(np.max(np.abs(B - I))):.3e}; {where}')
        if T is not None and not okT:
            dev = float(np.max(np.abs(T - I)))
            if okB or B is None:
                # the legs are consistent; the composite is not
                R.violation(f'to_fpm_and_back:return-shift:{method}:{sc}', f'all-ones full-band mask is not the identity (max dev {dev:.3e}) although the two legs with equal sample shifts are; {where}')
            elif not close(T, B):
                R.violation(f'to_fpm_and_back:return-shift:{method}:{sc}', f'all-ones full-band mask is not the identity (max dev {dev:.3e}) and differs from the two legs called with equal sample shifts; {where}')
            # else: same operator as the (already reported) inconsistent pair
        # Wavefront method
        w = Wavefront(x.copy(), wvl, dx, 'pupil')
        for more in (False, True):
            o = R.call(w.to_fpm_and_back, efl, ones, fpm_dx, method=method, shift=shu, return_more=more)
            if o is FAILED:
                continue
            if more:
                if not R.expect(isinstance(o, tuple) and len(o) == 3, 'Wavefront.to_fpm_and_back:return_more', 'return_more=True does not return three planes'):
                    continue
                R.expect_close(getattr(o[2], 'data', None), np.asarray(getattr(o[1], 'data', np.nan)), 0, 'Wavefront.to_fpm_and_back:return_more', 'all-ones mask changed the focal-plane field')
                o = o[0]
            if T is not None:
                R.expect_close(getattr(o, 'data', None), (T @ x.ravel()).reshape(n), TOL * 10, f'Wavefront.to_fpm_and_back:{method}:vs-function', 'Wavefront method differs from the function')
                R.expect(getattr(o, 'dx', None) == dx and getattr(o, 'space', None) == 'pupil', 'Wavefront.to_fpm_and_back:meta', 'dx / space of the returned wavefront')
    R.nontrivial(n != (1, 1) or sc != 'noshift')
    R.outcome(sc)


# ---------------------------------------------------------------------------------------------
# (v) Babinet

def run_babinet(case, seed, R):
    n, m = tuple(case['n']), tuple(case['mask'])
    wvl, efl, dx = UNITS[case['units']]
    rel = 'mask=pupil' if m == n else ('mask<pupil' if m[0] <= n[0] and m[1] <= n[1] else ('mask>pupil' if m[0] >= n[0] and m[1] >= n[1] else 'mask-mixed'))
    x = dense(n, seed, 8)
    nx = float(np.linalg.norm(x))
    for band in case['bands']:
        fpm_dx = wvl * efl / (dx * band)
        for cplx in (False, True):
            mask = dense(m, seed, 11 + int(cplx), complex_=cplx)
            kind = 'complex-mask' if cplx else 'real-mask'
            mmax = 1.0 + float(np.max(np.abs(mask)))
            for method in ('mdft', 'czt'):
                reset_executors(64)
                for sh in ((0, 0), (0.5, -1)):
                    shu = (sh[0] * fpm_dx, sh[1] * fpm_dx)
                    sc = shift_class(sh)
                    T = {}
                    for key, mk in (('mask', mask), ('comp', 1 - mask), ('ones', np.ones(m))):
                        T[key] = op(R, lambda a: propagation.to_fpm_and_back(a, dx, efl, wvl, mk, fpm_dx, shift=shu, method=method), n, f'to_fpm_and_back:{method}', n)   # noqa
                    if any(v is None for v in T.values()):
                        continue
                    R.expect_close(T['mask'] + T['comp'], T['ones'], TOL * mmax * 2, f'to_fpm_and_back:babinet-sum:{method}:{kind}:{rel}:{sc}',
                                   f'T(mask) + T(1-mask) != T(ones): pupil {n}, mask {m}, fpm_dx={fpm_dx:.6g}, shift {sh}')
                    # linearity of T in the field
                    Ti = op(R, lambda a: propagation.to_fpm_and_back(a, dx, efl, wvl, mask, fpm_dx, shift=shu, method=method), n, f'to_fpm_and_back:{method}', n, mult=1j)   # noqa
                    if Ti is not None:
                        R.expect_close(Ti, 1j * T['mask'], TOL * mmax, f'to_fpm_and_back:linearity:{method}', 'T(i*delta) != i*T(delta)')
                    y = R.call(propagation.to_fpm_and_back, x.copy(), dx, efl, wvl, mask, fpm_dx, shift=shu, method=method)
                    R.expect_close(y, (T['mask'] @ x.ravel()).reshape(n), TOL * mmax * max(1.0, nx), f'to_fpm_and_back:linearity:{method}', 'T(dense) != operator @ dense')
                    if sh != (0, 0):
                        continue
                    # Wavefront.babinet(lyot, fpm) = lyot * (f - T(1 - fpm) f)
                    for lk in ('none', 'real', 'complex'):
                        lyot = None if lk == 'none' else dense(n, seed, 15, complex_=(lk == 'complex'))
                        L = np.ones(n[0] * n[1]) if lyot is None else lyot.ravel()
                        want = L[:, None] * (np.eye(n[0] * n[1]) - T['comp'])
                        Bm = op(R, lambda a: Wavefront(a, wvl, dx, 'pupil').babinet(efl, lyot, mask, fpm_dx, method=method), n, f'Wavefront.babinet:{method}', n,   # noqa
                                post=lambda o: o.data)
                        if Bm is not None:
                            R.expect_close(Bm, want, TOL * mmax * (1 + float(np.max(np.abs(L)))), f'Wavefront.babinet:{method}:{kind}:lyot-{lk}:{rel}',
                                           f'babinet(lyot, fpm) != lyot*(f - T(1-fpm) f): pupil {n}, mask {m}, fpm_dx={fpm_dx:.6g}')
                    o = R.call(Wavefront(x.copy(), wvl, dx, 'pupil').babinet, efl, None, mask, fpm_dx, method=method, return_more=True)
                    if o is not FAILED and R.expect(isinstance(o, tuple) and len(o) == 4, 'Wavefront.babinet:return_more', 'return_more=True does not return four planes'):
                        want = x - (T['comp'] @ x.ravel()).reshape(n)
                        t = TOL * mmax * max(1.0, nx)
                        R.expect_close(getattr(o[0], 'data', None), want, t, f'Wavefront.babinet:{method}:return_more', 'field after lyot')
                        R.expect_close(getattr(o[3], 'data', None), want, t, f'Wavefront.babinet:{method}:return_more', 'field at lyot')
                        R.expect_close(getattr(o[2], 'data', None), np.asarray(getattr(o[1], 'data', np.nan)) * (1 - mask) if np.shape(getattr(o[1], 'data', None)) == m else None,
                                       t, f'Wavefront.babinet:{method}:return_more', 'field after fpm != field at fpm * (1 - fpm)')
    R.nontrivial(True)
    R.outcome(rel)


# ---------------------------------------------------------------------------------------------
# (v) over the DTYPE, the integer VALUE SET and the memory LAYOUT of the mask array: the to-mask-and-back map is linear in the mask

MD_DTYPES = ['bool', 'uint8', 'uint16', 'uint32', 'uint64', 'int8', 'int16', 'int32', 'int64', 'float16', 'float32', 'float64', 'complex64', 'complex128']
MD_PATTERNS = ['binary', 'ones', 'zeros', 'overlap-sum', 'counts', 'scaled', 'twos', 'gray', 'signed', 'negated']
# Wavefront.babinet computes `1 - fpm` in the mask's own dtype; for an unsigned mask holding values above 1 that wraps around (HEAD: reported as a
# candidate defect, proposed_fixes/C05-babinet-unsigned-mask-complement.diff).  Judged only when this switch is on (set it to True once the fix is in).
MD_BABINET_UNSIGNED_COUNTS = os.environ.get('C05_BABINET_UNSIGNED_COUNTS', '1') == '1'     # in the domain since the fix "babinet forms the complement of the mask in floating point"
MD_LAYOUTS = ['C', 'F', 'strided-view', 'reversed-view', 'transposed-view', 'read-only']
MD_GEOM = [  # pupil shape, mask shape, band (fpm_dx = wvl*efl/(dx*band)), shift in focal samples, unit set
    {'n': [3, 4], 'mask': [6, 6], 'band': 6.0, 'shift': [0, 0], 'units': 0},        # full band: babinet(M) = T(M)
    {'n': [4, 3], 'mask': [5, 7], 'band': 8.6, 'shift': [0.5, -1], 'units': 1},    # part of the band, non-square mask, shifted
]


def md_pattern(name, shape, vmax, seed):
    """integer-valued mask pattern (int64); every mask of the unit is this pattern cast to the dtype under test"""
    ii, jj = np.mgrid[0:shape[0], 0:shape[1]]
    yy, xx = ii - shape[0] // 2, jj - shape[1] // 2
    spot = (xx * xx + yy * yy <= 2).astype(np.int64)
    bar = (np.abs(xx) <= 0).astype(np.int64) | (ii == 0).astype(np.int64)
    if name == 'binary':
        return spot
    if name == 'ones':
        return np.ones(shape, dtype=np.int64)
    if name == 'zeros':
        return np.zeros(shape, dtype=np.int64)
    if name == 'overlap-sum':
        return spot + bar                                   # 0, 1, 2
    if name == 'counts':
        return (3 * ii + 5 * jj + seed) % 4                 # 0 .. 3, generic positions
    if name == 'scaled':
        return 3 * spot
    if name == 'twos':
        return 2 * np.ones(shape, dtype=np.int64)
    if name == 'gray':
        p = (37 * ii + 11 * jj + 13 * seed) % (vmax + 1)
        p[0, 0], p[-1, -1] = vmax, 0
        return p
    if name == 'signed':
        return 1 - (spot + bar)                             # -1, 0, 1: the complement of an overlap sum
    if name == 'negated':
        return -((3 * ii + 5 * jj + seed) % 4)
    raise ValueError(name)


def md_kind(dt):
    return {'b': 'bool', 'u': 'unsigned', 'i': 'signed', 'f': 'float', 'c': 'complex'}[np.dtype(dt).kind]


def md_cast(p, dt):
    """the integer pattern as a mask of dtype dt (None when it is not representable); complex masks get an imaginary part"""
    dt = np.dtype(dt)
    if dt.kind == 'b':
        return p.astype(bool) if p.min() >= 0 and p.max() <= 1 else None
    if dt.kind in 'ui':
        info = np.iinfo(dt)
        return p.astype(dt) if p.min() >= info.min and p.max() <= info.max else None
    if dt.kind == 'c':
        return (p * (1 + 0.5j)).astype(dt)
    return p.astype(dt)


def md_layout(m, layout):
    """the same mask values in another memory layout"""
    if layout == 'C':
        return np.ascontiguousarray(m)
    if layout == 'F':
        return np.asfortranarray(m)
    if layout == 'strided-view':
        big = np.zeros((2 * m.shape[0], 3 * m.shape[1]), dtype=m.dtype)
        big[::2, 1::3] = m
        big[1::2] = 7 if m.dtype.kind != 'b' else True
        return big[::2, 1::3]
    if layout == 'reversed-view':
        return np.ascontiguousarray(m[::-1, ::-1])[::-1, ::-1]
    if layout == 'transposed-view':
        return np.ascontiguousarray(m.T).T
    if layout == 'read-only':
        out = m.copy()
        out.flags.writeable = False
        return out
    raise ValueError(layout)


def run_mask_dtypes(case, seed, R):
    n, ms, sh = tuple(case['n']), tuple(case['mask']), tuple(case['shift'])
    wvl, efl, dx = UNITS[case['units']]
    fpm_dx = wvl * efl / (dx * case['band'])
    shu = (sh[0] * fpm_dx, sh[1] * fpm_dx)
    full = bool(case['full'])
    dt = np.dtype(case['dtype'])
    kind = md_kind(dt)
    vmax = 127 if dt == np.dtype('int8') else 255
    p = md_pattern(case['pattern'], ms, vmax, seed)
    m0 = md_cast(p, dt)
    if m0 is None:                        # plan() only lists representable patterns
        R.violation('mask-dtypes:harness', f'pattern {case["pattern"]} is not representable in {dt}')
        return
    m = md_layout(m0, case['layout'])
    vc = 'binary' if (p.min() >= 0 and p.max() <= 1) else 'nonbinary'
    cell = f'{kind}:{vc}' + ('' if case['layout'] == 'C' else ':layout')
    lin = 1 + 0.5j if kind == 'complex' else 1
    mmax = 1.0 + float(np.abs(p).max()) * 3 * abs(lin)
    where = f'mask dtype {dt}, pattern {case["pattern"]} (values {int(p.min())}..{int(p.max())}), layout {case["layout"]}, mask {ms}, pupil {n}, fpm_dx={fpm_dx:.6g}, shift {sh}'
    x = dense(n, seed, 23)
    nx = max(1.0, float(np.linalg.norm(x)))
    I = np.eye(n[0] * n[1])
    for method in ('mdft', 'czt'):
        reset_executors(64)

        def T(mask):
            return op(R, lambda a: propagation.to_fpm_and_back(a, dx, efl, wvl, mask, fpm_dx, shift=shu, method=method), n, f'to_fpm_and_back:{method}:mask-dtype', n)   # noqa

        def sig(rel):
            return f'to_fpm_and_back:mask-dtype:{rel}:{method}:{cell}'
        Tm = T(m)
        if Tm is None:
            continue
        # the unmasked result, from a float64 all-ones mask and from the all-ones mask of the dtype under test
        T1 = T(np.ones(ms))
        T1d = T(np.ones(ms, dtype=dt))
        R.expect_close(T1d, T1, TOL * 2, sig('ones'), f'T(ones of the mask dtype) != T(float64 ones): {where}')
        # mask + complement = unmasked.  The complement formed in float64 / complex128 (always exact for these integer-valued masks) ...
        wide = complex if kind == 'complex' else float
        cw = 1 - m.astype(wide)
        Tc = T(cw)
        if Tc is not None and T1 is not None:
            R.expect_close(Tm + Tc, T1, TOL * mmax * 2, sig('babinet-sum'), f'T(mask) + T(1 - mask [as {np.dtype(wide)}]) != T(ones): {where}')
        # ... and formed in the mask's own dtype where that dtype can hold it
        cd = None
        if kind == 'bool':
            cd = ~m
        elif kind == 'unsigned':
            cd = (1 - m) if p.max() <= 1 else None
        elif kind == 'signed':
            cd = md_cast(1 - p, dt)
        else:
            cd = 1 - m
        if cd is not None:
            if not R.expect(cd.dtype == dt and np.array_equal(cd.astype(wide), cw), 'mask-dtypes:harness', f'complement in the own dtype is not the complement: {where}'):
                return
            Tcd = T(cd)
            if Tcd is not None and T1 is not None:
                R.expect_close(Tm + Tcd, T1, TOL * mmax * 2, sig('babinet-sum'), f'T(mask) + T(1 - mask [in {dt}]) != T(ones): {where}')
        # masks combine additively: the two overlapping binary masks whose sum this pattern is; any pattern = its two halves
        parts = []
        if case['pattern'] in ('overlap-sum', 'signed'):
            spot = md_pattern('binary', ms, vmax, seed)
            rest = p - spot
            parts.append((spot, rest))
        ii = np.mgrid[0:ms[0], 0:ms[1]][0]
        parts.append((np.where(ii % 2 == 0, p, 0), np.where(ii % 2 == 1, p, 0)))
        for pa, pb in parts:
            a, b = md_cast(pa, dt), md_cast(pb, dt)
            if a is None or b is None:
                continue
            Ta, Tb = T(a), T(b)
            if Ta is not None and Tb is not None:
                R.expect_close(Ta + Tb, Tm, TOL * mmax * 2, sig('additive'), f'T(a) + T(b) != T(a + b) for two masks of dtype {dt} with a + b = mask: {where}')
        # homogeneity: k * mask, formed exactly, in the same dtype
        for k in (3, -2):
            km = md_cast(k * p, dt)
            if km is None or kind == 'bool':
                continue
            Tk = T(km)
            if Tk is not None:
                R.expect_close(Tk, k * Tm, TOL * mmax * 2, sig('homogeneous'), f'T({k} * mask) != {k} * T(mask), both masks of dtype {dt}: {where}')
        if full and p.min() == 1 and p.max() == 1:
            R.expect_close(Tm, I * lin, TOL * 2, sig('ones'), f'all-ones full-band mask is not the identity: {where}')
        # the function and the Wavefront methods called with the arrays as explicit arguments (call hygiene), dense field
        want = (Tm @ x.ravel()).reshape(n)
        tol = TOL * mmax * nx * 10
        y = R.call(propagation.to_fpm_and_back, x.copy(), dx, efl, wvl, m, fpm_dx, shift=shu, method=method, sig=f'to_fpm_and_back:{method}:mask-dtype:exception')
        R.expect_close(y, want, tol, sig('linearity'), f'T(dense) != operator @ dense: {where}')
        o = R.call(Wavefront(x.copy(), wvl, dx, 'pupil').to_fpm_and_back, efl, m, fpm_dx, method=method, shift=shu, sig=f'Wavefront.to_fpm_and_back:{method}:mask-dtype:exception')
        if o is not FAILED:
            R.expect_close(getattr(o, 'data', None), want, tol, f'Wavefront.to_fpm_and_back:mask-dtype:{method}:{cell}', f'Wavefront method differs from the operator of the function: {where}')
        # Wavefront.babinet forms 1 - fpm itself, in the mask's dtype: unsigned masks with values above 1 cannot hold their complement
        # (unsigned arithmetic wraps) and are outside the domain of THIS route; babinet takes no shift
        if sh == (0, 0) and (MD_BABINET_UNSIGNED_COUNTS or not (kind == 'unsigned' and p.max() > 1)) and Tc is not None:
            wantb = x - (Tc @ x.ravel()).reshape(n)
            for lk in ('none', 'real', 'mask-dtype'):
                lyot = None if lk == 'none' else dense(n, seed, 24, complex_=False)
                if lk == 'mask-dtype':      # a Lyot stop stored like the mask: 0/1 for bool, transmission counts 0..3 otherwise
                    lyot = md_cast(md_pattern('binary' if kind == 'bool' else 'counts', n, vmax, seed + 1), dt)
                o = R.call(Wavefront(x.copy(), wvl, dx, 'pupil').babinet, efl, lyot, m, fpm_dx, method=method, sig=f'Wavefront.babinet:{method}:mask-dtype:exception')
                if o is FAILED:
                    continue
                L = 1.0 if lyot is None else lyot.astype(wide)
                tb = tol * (1.0 if lyot is None else 1.0 + float(np.abs(L).max()))
                R.expect_close(getattr(o, 'data', None), L * wantb, tb, f'Wavefront.babinet:mask-dtype:{method}:{cell}', f'babinet(lyot-{lk}, fpm) != lyot*(f - T(1-fpm) f): {where}')
                if full:
                    R.expect_close(getattr(o, 'data', None), L * want, tb, f'Wavefront.babinet:mask-dtype:{method}:{cell}', f'on the full-band grid babinet(lyot-{lk}, fpm) != lyot*T(fpm) f: {where}')
    R.nontrivial(True)
    R.outcome(f'{kind}:{vc}')


def md_cases():
    out = []
    for g in MD_GEOM:
        full = int(g['band'] == g['mask'][0] == g['mask'][1])
        for dtn in MD_DTYPES:
            dt = np.dtype(dtn)
            vmax = 127 if dtn == 'int8' else 255
            for pat in MD_PATTERNS:
                if md_cast(md_pattern(pat, tuple(g['mask']), vmax, 0), dt) is None:
                    continue
                lays = MD_LAYOUTS if (pat == 'counts' and dtn in ('uint8', 'int64', 'float64')) or (pat == 'binary' and dtn == 'bool') else ['C']
                for lay in lays:
                    out.append(dict(g, full=full, dtype=dtn, pattern=pat, layout=lay))
    out.sort(key=lambda c: (c['layout'] != 'C', MD_PATTERNS.index(c['pattern'])))
    return out


# ---------------------------------------------------------------------------------------------
# argument forms of the shift; re-use of one shift object

def shift_forms(shu):
    """the same physical shift as tuple of numpy scalars / list / float64 ndarray / integer ndarray (when integral)"""
    a, b = shu
    forms = [('np-scalars', lambda: (np.float64(a), np.float64(b))), ('list', lambda: [a, b]), ('float64-array', lambda: np.array([a, b], dtype=np.float64))]
    if float(a).is_integer() and float(b).is_integer():
        forms.append(('int-array', lambda: np.array([int(a), int(b)], dtype=np.int64)))
        forms.append(('int-tuple', lambda: (int(a), int(b))))
    return forms


def run_shift_forms(case, seed, R):
    n, S, P, shu = tuple(case['n']), tuple(case['out']), case['band'], tuple(float(v) for v in case['shift_units'])
    wvl, efl, dxi = UNITS[0]
    dxo = wvl * efl / (dxi * P)           # = 500 / P: shifts below are given in physical output units
    x = dense(n, seed, 17)
    X = dense(S, seed, 18)
    nx = max(1.0, float(np.linalg.norm(x)), float(np.linalg.norm(X)))
    mask = dense(S, seed, 19)
    for method in ('mdft', 'czt'):
        reset_executors(64)
        calls = [
            ('focus_fixed_sampling', lambda sh: R.call(propagation.focus_fixed_sampling, x.copy(), dxi, efl, wvl, dxo, samples_arg(S), shift=sh, method=method)),                 # noqa
            ('unfocus_fixed_sampling', lambda sh: R.call(propagation.unfocus_fixed_sampling, X.copy(), dxo, efl, wvl, dxi, samples_arg(n), shift=sh, method=method)),           # noqa
            ('to_fpm_and_back', lambda sh: R.call(propagation.to_fpm_and_back, x.copy(), dxi, efl, wvl, mask, dxo, shift=sh, method=method)),                                     # noqa
            ('Wavefront.focus_fixed_sampling', lambda sh: getattr(R.call(Wavefront(x.copy(), wvl, dxi, 'pupil').focus_fixed_sampling, efl, dxo, samples_arg(S), shift=sh, method=method), 'data', FAILED)),   # noqa
            ('Wavefront.to_fpm_and_back', lambda sh: getattr(R.call(Wavefront(x.copy(), wvl, dxi, 'pupil').to_fpm_and_back, efl, mask, dxo, method=method, shift=sh), 'data', FAILED)),                      # noqa
        ]
        for name, f in calls:
            base = f(shu)
            if base is FAILED:
                continue
            base = np.asarray(base)
            for form, mk in shift_forms(shu):
                sh = mk()
                keep = np.array(sh, dtype=float)
                got = f(sh)
                sig = f'{name}:{method}:shift-form:{form}'
                R.expect_close(got, base, TOL * nx * 10, sig, f'shift given as {form} {sh!r} gives another field than the tuple {shu}')
                R.expect(np.array_equal(np.array(sh, dtype=float), keep), sig + ':shift-modified', f'the caller\'s shift object was modified: {keep.tolist()} -> {np.array(sh, dtype=float).tolist()}')
                # the same object again (a user keeps one shift vector for many calls)
                again = f(sh)
                R.expect_close(again, base, TOL * nx * 10, sig + ':reuse', f'second call with the same shift object ({form}) gives another field')
        # memory layout of the field x the (anisotropic) shift of this case: column-major, a transposed view of the transposed data, a strided
        # window, a reversed-stride view -- the same numbers must give the same field (a layout fast path has to carry the per-axis
        # arguments with it); the hygiene layer tries layouts only on the first call signature of a case, which need not be a shifted one
        layouts = {'F': np.asfortranarray, 'T-view': lambda a: np.ascontiguousarray(a.T).T,
                   'strided': lambda a: np.repeat(np.repeat(a, 2, axis=0), 2, axis=1)[::2, ::2], 'reversed': lambda a: a[::-1, ::-1].copy()[::-1, ::-1]}
        lay_calls = [('focus_fixed_sampling', x, lambda arr: propagation.focus_fixed_sampling(arr, dxi, efl, wvl, dxo, samples_arg(S), shift=shu, method=method)),        # noqa
                     ('unfocus_fixed_sampling', X, lambda arr: propagation.unfocus_fixed_sampling(arr, dxo, efl, wvl, dxi, samples_arg(n), shift=shu, method=method)),    # noqa
                     ('to_fpm_and_back', x, lambda arr: propagation.to_fpm_and_back(arr, dxi, efl, wvl, mask, dxo, shift=shu, method=method)),                            # noqa
                     ('to_fpm_and_back[mask]', mask, lambda arr: propagation.to_fpm_and_back(x.copy(), dxi, efl, wvl, arr, dxo, shift=shu, method=method))]                 # noqa
        for name, arr0, g in lay_calls:
            base = R.call(g, arr0.copy(), sig=f'{name}:{method}:layout:exception', hygiene=False)
            if base is FAILED:
                continue
            for lname, mk in layouts.items():
                got = R.call(g, mk(arr0), sig=f'{name}:{method}:layout:exception', hygiene=False)
                R.expect_close(got, np.asarray(base), TOL * nx * 10, f'{name}:{method}:layout:shifted', f'{lname} layout of the array with shift {shu} gives another field than the C-ordered array')
    R.nontrivial()
    R.outcome('forms')


# ---------------------------------------------------------------------------------------------
# nearly square arrays (aspect-ratio thresholds): a few probe fields, not closed over the data dimension

def run_near_square(case, seed, R):
    N, S, P, sh = tuple(case['N']), tuple(case['out']), case['band'], tuple(case['shift'])
    wvl, efl, dxi = UNITS[case['units']]
    dxo = wvl * efl / (dxi * P)
    shu = (sh[0] * dxo, sh[1] * dxo)
    big = max(N)
    hy = N[0] * N[1] <= 1_500_000          # the call-hygiene repeats copy every argument several times
    tol = 200 * EPS * big ** 1.5           # phases grow like n, accumulation like sqrt(n) (as C01 'large')
    n = (3, 4)
    xs = dense(n, seed, 21)
    xe = embed(xs, N)
    aspect = f'{abs(N[0] - N[1]) / max(N):.1e}'
    for method in ('mdft', 'czt'):
        for fwd in (True, False):
            reset_executors(64)
            name = 'focus_fixed_sampling' if fwd else 'unfocus_fixed_sampling'
            fn = propagation.focus_fixed_sampling if fwd else propagation.unfocus_fixed_sampling
            sig = f'{name}:{method}:near-square'
            # (ii) a small window of field in the huge nearly square array
            small = R.call(fn, xs.copy(), dxi, efl, wvl, dxo, samples_arg(S), shift=shu, method=method)
            large = R.call(fn, xe, dxi, efl, wvl, dxo, samples_arg(S), shift=shu, method=method, hygiene=hy)
            if small is not FAILED:
                R.expect_close(large, np.asarray(small), tol * max(1.0, float(np.linalg.norm(xs))), sig + ':embedding',
                               f'F(embed(f)) != F(f): {n} window in {N} (sides differ by {aspect}), output {S} at dx_out={dxo:.6g}, shift {sh}')
            # (iii) impulses at the far corners, transposed
            for idx in ((0, 0), (N[0] - 1, N[1] - 1), (N[0] // 2, N[1] - 1))[:3 if big <= 500 else 1]:
                d = np.zeros(N, dtype=complex)
                d[idx] = 1
                a = R.call(fn, d, dxi, efl, wvl, dxo, samples_arg(S), shift=shu, method=method, hygiene=False)
                b = R.call(fn, np.ascontiguousarray(d.T), dxi, efl, wvl, dxo, samples_arg(S[::-1]), shift=shu[::-1], method=method, hygiene=False)
                if a is FAILED or b is FAILED:
                    continue
                R.expect_close(np.asarray(b).T if np.ndim(b) == 2 else b, np.asarray(a), tol, sig + ':transpose',
                               f'F(f^T; swapped) != F(f)^T for an impulse at {idx} of {N}, output {S}, shift {sh}')
    R.nontrivial()
    R.outcome('near-square')


# ---------------------------------------------------------------------------------------------
# histories on the SHARED executors: one physical field in arrays of different size, one after the other, nothing cleared

HIST_UNITS = [[0.5, 100.0, 0.1], [0.6328, 123.0, 0.1]]


class EmbHist:
    def __init__(self, init, seed):
        self.trace = []
        self.results = []          # (event, output array or FAILED)
        b = init['base']
        self.f = dense((b, b), seed, 41)


def he_fresh(init, seed):
    reset_executors(64)
    return EmbHist(init, seed)


def he_events(init, hist, st):
    return [[shape, method, fwd] for shape in init['shapes'] for method in ('mdft', 'czt') for fwd in (1, 0)]


def he_apply(st, ev, R, init=None):
    st.trace = st.trace + [ev]
    st.pending = ev
    return st


def _he_run(st, init, ev, R):
    shape, method, fwd = tuple(ev[0]), ev[1], bool(ev[2])
    wvl, efl, dxi = HIST_UNITS[init['units']]
    M = init['M']
    dxo = wvl * efl / (dxi * init['band'])
    fn = propagation.focus_fixed_sampling if fwd else propagation.unfocus_fixed_sampling
    a = embed(st.f, shape)
    return R.call(fn, a, dxi, efl, wvl, dxo, M, method=method, sig=f'history:{fn.__name__}:{method}:exception')


def he_check(st, init, hist, R):
    # the explorer replays histories through apply(); the calls are made here, in order, so that every event of the
    # history runs on the shared executors exactly once per replay
    if not hist:
        return
    outs = []
    for ev in hist:
        outs.append(_he_run(st, init, ev, R))
    ev, got = hist[-1], outs[-1]
    if got is FAILED:
        return
    shape, method, fwd = tuple(ev[0]), ev[1], bool(ev[2])
    M, b, P = init['M'], init['base'], init['band']
    name = 'focus_fixed_sampling' if fwd else 'unfocus_fixed_sampling'
    after = f'after {hist[:-1]}' if len(hist) > 1 else 'in a fresh state'
    ref = ref_dft.dft2(st.f, (P / b, P / b), (M, M), (0, 0), fwd)
    scale = max(1.0, float(np.abs(ref).max()))
    tol = 200 * EPS * max(max(shape), M) ** 1.5 * scale
    R.expect_close(got, ref, tol, f'history:{name}:{method}:textbook', f'{name}({method}) of the {b}x{b} field embedded in {shape} -> {M}x{M} vs the textbook sum {after}')
    for e0, o0 in zip(hist[:-1], outs[:-1]):
        if o0 is not FAILED and bool(e0[2]) == fwd and np.shape(o0) == np.shape(got):
            R.expect_close(got, np.asarray(o0), tol, f'history:{name}:{method}:embedding', f'the same physical field in {tuple(e0[0])} ({e0[1]}) and then in {shape} ({method}) gives different fields')
    R.nontrivial(len(hist) > 1)
    R.outcome(f'hist:{method}')


def he_canon(st):
    return json.dumps(st.trace)


# ---------------------------------------------------------------------------------------------
# object history: ONE Wavefront sent to masks repeatedly while its data are replaced / edited / resized in between

OBJ_M = 8                                   # mask grid M x M; with fpm_dx = wvl*efl/(dx*M) it covers the whole band of every pupil <= 8
OBJ_EVENTS = ['fpm_A', 'fpm_B', 'fpm_A_shifted', 'fpm_ones', 'babinet_A', 'focus_fixed', 'set_data', 'scale_data', 'pad_inplace', 'crop_inplace']
OBJ_PROP = {'fpm_A', 'fpm_B', 'fpm_A_shifted', 'fpm_ones', 'babinet_A', 'focus_fixed'}


class ObjState:
    def __init__(self, init, seed):
        self.seed = seed
        self.method = init['method']
        self.wvl, self.efl, dx = HIST_UNITS[init['units']]
        self.fpm_dx = self.wvl * self.efl / (dx * OBJ_M)
        self.w = Wavefront(dense(tuple(init['shape']), seed, 61), self.wvl, dx, 'pupil')
        self.masks = {'A': dense((OBJ_M, OBJ_M), seed, 62), 'B': dense((OBJ_M, OBJ_M), seed, 63, complex_=False), 'ones': np.ones((OBJ_M, OBJ_M))}
        self.trace = []
        self.last = None
        self.nset = 0


def ho_fresh(init, seed):
    reset_executors(64)
    return ObjState(init, seed)


def ho_events(init, hist, st):
    return OBJ_EVENTS


def _obj_call(st, w, ev, R, hygiene=True):
    """run propagation event ev on Wavefront w; returns ndarray (the field of the returned Wavefront) or FAILED"""
    k = dict(method=st.method)
    if ev in ('fpm_A', 'fpm_B', 'fpm_ones', 'fpm_A_shifted'):
        mask = st.masks['A' if ev.startswith('fpm_A') else ev[4:]]
        if ev == 'fpm_A_shifted':
            k['shift'] = (0.5 * st.fpm_dx, -1 * st.fpm_dx)
        o = R.call(w.to_fpm_and_back, st.efl, mask, st.fpm_dx, sig='history:Wavefront.to_fpm_and_back:exception', hygiene=hygiene, **k)
    elif ev == 'babinet_A':
        o = R.call(w.babinet, st.efl, None, st.masks['A'], st.fpm_dx, sig='history:Wavefront.babinet:exception', hygiene=hygiene, **k)
    else:
        o = R.call(w.focus_fixed_sampling, st.efl, st.fpm_dx, OBJ_M, sig='history:Wavefront.focus_fixed_sampling:exception', hygiene=hygiene, **k)
    if o is FAILED:
        return FAILED
    d = getattr(o, 'data', None)
    return np.asarray(d) if d is not None else FAILED


def ho_apply(st, ev, R):
    st.trace = st.trace + [ev]
    st.last = None
    w = st.w
    if ev in OBJ_PROP:
        before = np.array(w.data, copy=True)
        out = _obj_call(st, w, ev, R)
        st.last = (ev, out, before)
    elif ev == 'set_data':
        st.nset += 1
        w.data = dense(w.data.shape, st.seed, 70 + st.nset)                 # another field, same shape
    elif ev == 'scale_data':
        w.data *= (0.5 + 0.25j)                                             # edited in place
    elif ev == 'pad_inplace':
        R.call(w.pad2d, 1, out_shape=(6, 7), inplace=True, sig='history:Wavefront.pad2d:exception') if max(w.data.shape) <= 6 else None
    elif ev == 'crop_inplace':
        R.call(w.crop, (3, 4), inplace=True, sig='history:Wavefront.crop:exception') if min(w.data.shape) >= 4 else None
    return st


def ho_check(st, init, hist, R):
    w = st.w
    cur = np.array(w.data, copy=True)
    after = f'after {hist[:-1]}' if len(hist) > 1 else 'as the first event'
    scale = max(1.0, float(np.abs(cur).max())) * 10
    if st.last is not None:
        ev, out, before = st.last
        R.expect_equal(cur, before, 'history:Wavefront:propagation-modified-data', f'{ev} changed the data of the wavefront it was called on')
        # the same call on a FRESH Wavefront carrying the object's current data / dx / wavelength
        fresh = _obj_call(st, Wavefront(cur.copy(), w.wavelength, w.dx, w.space), ev, R, hygiene=False)
        if out is not FAILED and fresh is not FAILED:
            R.expect_close(out, fresh, TOL * scale * (1 + float(np.abs(st.masks['A']).max())), f'history:Wavefront.{ev}:{st.method}:stale-object-state',
                           f'{ev} on a Wavefront {after} differs from the same call on a fresh Wavefront with the same data, dx and wavelength (shape {cur.shape})')
        R.outcome('propagate')
    else:
        R.outcome('edit')
    # all-pass mask over the whole band returns the CURRENT field, whatever happened to the object before
    o = _obj_call(st, w, 'fpm_ones', R, hygiene=False)
    R.expect_close(o, cur, TOL * scale, f'history:Wavefront.to_fpm_and_back:{st.method}:all-pass', f'all-ones full-band mask does not return the current field {("after " + str(hist)) if hist else "initially"} (shape {cur.shape})')
    R.nontrivial(len(hist) > 0)


def ho_canon(st):
    return json.dumps(st.trace)


# ---------------------------------------------------------------------------------------------
# histories on the SHARED executors over (array embedding, method, direction, SHIFT, transposition): relations (ii) (iii) with
# warm caches -- one physical field, the executors never cleared inside a history

class ShiftHist:
    def __init__(self, init, seed):
        self.trace = []
        self.f = dense(tuple(init['base']), seed, 43)


def hs_fresh(init, seed):
    reset_executors(64)
    return ShiftHist(init, seed)


def hs_apply(st, ev, R):
    st.trace = st.trace + [ev]          # the calls are made in hs_check, in order, once per replay (as in embedding_history)
    return st


def hs_events(init, hist, st):
    return [[si, method, fwd, hi, tr] for si in range(len(init['shapes'])) for method in ('mdft', 'czt') for fwd in (1, 0)
            for hi in range(len(init['shifts'])) for tr in init.get('transposed', (0, 1))]


def _hs_run(st, init, ev, R):
    """the event's call; returns the output in the orientation of the un-transposed problem, or FAILED"""
    shape, method, fwd, sh, tr = tuple(init['shapes'][ev[0]]), ev[1], bool(ev[2]), init['shifts'][ev[3]], bool(ev[4])
    wvl, efl, dxi = HIST_UNITS[init['units']]
    S = tuple(init['out'])
    dxo = wvl * efl / (dxi * init['band'])
    shu = (sh[0] * dxo, sh[1] * dxo)
    fn = propagation.focus_fixed_sampling if fwd else propagation.unfocus_fixed_sampling
    a = embed(st.f, shape)
    sig = f'shift-history:{fn.__name__}:{method}:exception'
    if tr:
        o = R.call(fn, np.ascontiguousarray(a.T), dxi, efl, wvl, dxo, samples_arg(S[::-1]), shift=shu[::-1], method=method, sig=sig, hygiene=False)
        if o is not FAILED and isinstance(o, np.ndarray) and o.ndim == 2:
            o = o.T
    else:
        o = R.call(fn, a, dxi, efl, wvl, dxo, samples_arg(S), shift=shu, method=method, sig=sig, hygiene=False)
    if o is FAILED or not isinstance(o, np.ndarray) or o.shape != S:
        if o is not FAILED:
            R.violation(f'shift-history:{fn.__name__}:{method}:shape', f'output {np.shape(o)} for requested samples {S}')
        return FAILED
    return o


def hs_check(st, init, hist, R):
    if not hist:
        return
    outs = [_hs_run(st, init, ev, R) for ev in hist]
    ev, got = hist[-1], outs[-1]
    if got is FAILED:
        return
    shape, method, fwd, sh, tr = tuple(init['shapes'][ev[0]]), ev[1], bool(ev[2]), init['shifts'][ev[3]], bool(ev[4])
    name = 'focus_fixed_sampling' if fwd else 'unfocus_fixed_sampling'
    b, P, S = tuple(init['base']), init['band'], tuple(init['out'])
    sc = 'noshift' if (sh[0] == 0 and sh[1] == 0) else 'shifted'
    after = f'after {hist[:-1]}' if len(hist) > 1 else 'in a fresh state'
    what = f'{name}({method}) of the {b} field in a {shape} array{" (transposed problem)" if tr else ""}, shift {sh} samples, output {S}'
    tol = TOL * max(1.0, float(np.linalg.norm(st.f)))
    if sc == 'noshift':
        R.expect_close(got, ref_dft.dft2(st.f, (P / b[0], P / b[1]), S, (0, 0), fwd), tol, f'shift-history:{name}:{method}:textbook', f'{what} vs the textbook sum {after}')
    # the same physical field, direction and shift earlier in this history (any array, any method, transposed or not)
    for e0, o0 in zip(hist[:-1], outs[:-1]):
        if o0 is not FAILED and bool(e0[2]) == fwd and e0[3] == ev[3]:
            rel = 'transpose' if bool(e0[4]) != tr else ('embedding' if e0[0] != ev[0] else ('methods' if e0[1] != method else 'repeat'))
            R.expect_close(got, o0, tol, f'shift-history:{name}:{method}:{rel}:{sc}', f'{what} {after} differs from the result of event {e0} earlier in the same history')
    # the same call, and the same field in the NEXT array of the alphabet, on cleared executors
    reset_executors(64)
    cold = _hs_run(st, init, ev, R)
    if cold is not FAILED:
        R.expect_close(got, cold, tol, f'shift-history:{name}:{method}:warm-vs-cold:{sc}', f'{what} {after} differs from the same call on cleared executors')
    reset_executors(64)
    other = _hs_run(st, init, [(ev[0] + 1) % len(init['shapes']), method, ev[2], ev[3], ev[4]], R)
    if other is not FAILED:
        R.expect_close(got, other, tol, f'shift-history:{name}:{method}:embedding:{sc}',
                       f'{what} {after} differs from the same field in a {tuple(init["shapes"][(ev[0] + 1) % len(init["shapes"])])} array on cleared executors')
    R.nontrivial(len(hist) > 1)
    R.outcome(f'hist:{sc}')


# ---------------------------------------------------------------------------------------------
# argument-buffer history: ONE mask array, ONE Lyot array and ONE field array handed to babinet / to_fpm_and_back again and again
# while the caller refills them in place (preallocated buffers of a broadband / optimisation loop)

MB_M = 6                                    # full-band mask grid for every pupil with sides <= 6
MB_PROP = ['babinet', 'babinet_lyot', 'babinet_more', 'babinet_w2', 'wf_fpm', 'fn_fpm', 'backprop']
MB_EDIT = ['refill', 'scale', 'complement', 'new_object', 'lyot_refill', 'field_refill']
MB_EVENTS = MB_PROP + MB_EDIT


class MaskBuf:
    def __init__(self, init, seed):
        self.seed = seed
        self.method = init['method']
        self.cplx = bool(init['complex_mask'])
        self.wvl, self.efl, self.dx = HIST_UNITS[init['units']]
        self.fpm_dx = self.wvl * self.efl / (self.dx * MB_M)
        self.w = Wavefront(dense(tuple(init['shape']), seed, 81), self.wvl, self.dx, 'pupil')
        self.w2 = Wavefront(dense(tuple(init['shape'])[::-1], seed, 82), self.wvl, self.dx, 'pupil')
        self.buf = dense((MB_M, MB_M), seed, 83, complex_=self.cplx)
        self.lyot = dense(tuple(init['shape']), seed, 84)
        self.trace = []
        self.n = 0
        self.last = None


def hm_fresh(init, seed):
    reset_executors(64)
    return MaskBuf(init, seed)


def hm_events(init, hist, st):
    return MB_EVENTS


def _mb_call(st, ev, R):
    """propagation event on the state's buffers (exactly the objects the history has been editing); ndarray or FAILED"""
    k = dict(method=st.method, hygiene=False)
    if ev in ('babinet', 'babinet_lyot', 'babinet_more', 'babinet_w2'):
        w = st.w2 if ev == 'babinet_w2' else st.w
        o = R.call(w.babinet, st.efl, st.lyot if ev == 'babinet_lyot' else None, st.buf, st.fpm_dx, sig='mask-buffer:Wavefront.babinet:exception',
                   **(dict(k, return_more=True) if ev == 'babinet_more' else k))
        if ev == 'babinet_more' and o is not FAILED:
            o = o[0] if isinstance(o, tuple) and len(o) == 4 else None
    elif ev == 'wf_fpm':
        o = R.call(st.w.to_fpm_and_back, st.efl, st.buf, st.fpm_dx, sig='mask-buffer:Wavefront.to_fpm_and_back:exception', **k)
    elif ev == 'fn_fpm':
        return R.call(propagation.to_fpm_and_back, st.w.data, st.dx, st.efl, st.wvl, st.buf, st.fpm_dx, sig='mask-buffer:to_fpm_and_back:exception', **k)
    else:
        # the adjoint entry point shares whatever babinet keeps; its own answer is not judged here (mdft only: czt has no backprop)
        R.call(st.w.babinet_backprop, st.efl, None, st.buf, st.fpm_dx, method='mdft', sig='mask-buffer:Wavefront.babinet_backprop:exception', hygiene=False)
        return None
    if o is FAILED:
        return FAILED
    d = getattr(o, 'data', None)
    if not isinstance(d, np.ndarray):
        R.violation('mask-buffer:type', f'{ev} did not return a Wavefront carrying an ndarray')
        return FAILED
    return d


def hm_apply(st, ev, R):
    st.trace = st.trace + [ev]
    st.last = None
    st.n += 1
    if ev in MB_PROP:
        snap = (st.buf.copy(), st.lyot.copy(), st.w.data.copy())
        st.last = (ev, _mb_call(st, ev, R), snap)
    elif ev == 'refill':
        st.buf[...] = dense(st.buf.shape, st.seed, 90 + st.n, complex_=st.cplx)
    elif ev == 'scale':
        st.buf *= (0.5 + 0.25j) if st.cplx else -0.75
    elif ev == 'complement':
        st.buf[...] = 1 - st.buf
    elif ev == 'new_object':
        st.buf = dense(st.buf.shape, st.seed, 90 + st.n, complex_=st.cplx)
    elif ev == 'lyot_refill':
        st.lyot[...] = dense(st.lyot.shape, st.seed, 90 + st.n)
    elif ev == 'field_refill':
        st.w.data[...] = dense(st.w.data.shape, st.seed, 90 + st.n)
    return st


def _mb_T(st, x, mask, R):
    """to_fpm_and_back (the plain function) on FRESH copies: x -> T(mask) x"""
    return R.call(propagation.to_fpm_and_back, np.array(x, copy=True), st.dx, st.efl, st.wvl, np.array(mask, copy=True), st.fpm_dx, method=st.method,
                  sig='mask-buffer:to_fpm_and_back:exception', hygiene=False)


def hm_check(st, init, hist, R):
    m = st.method
    after = f'after {hist[:-1]}' if len(hist) > 1 else 'as the first event'
    mk = 'complex-mask' if st.cplx else 'real-mask'
    mmax = 1.0 + float(np.max(np.abs(st.buf)))
    memo = {}

    def judge(ev, got, x, lyot, tag, when):
        """got = result of event ev for field x, the CURRENT contents of the mask buffer and lyot"""
        if got is FAILED or got is None:
            return
        tol = TOL * 10 * mmax * max(1.0, float(np.linalg.norm(x))) * (1.0 if lyot is None else 1.0 + float(np.max(np.abs(lyot))))
        if id(x) not in memo:
            memo[id(x)] = (_mb_T(st, x, st.buf, R), _mb_T(st, x, 1 - st.buf, R))      # after the history: cannot disturb it
        Tm, Tc = memo[id(x)]
        if Tm is FAILED or Tc is FAILED:
            return
        if not all(isinstance(t, np.ndarray) and t.shape == x.shape and t.dtype.kind in 'fc' for t in (Tm, Tc)):
            R.violation(f'mask-buffer:to_fpm_and_back:{m}:shape', f'to_fpm_and_back of a {x.shape} field does not return an array of that shape')
            return
        L = 1.0 if lyot is None else lyot
        if ev.startswith('babinet'):
            R.expect_close(got, L * (x - Tc), tol, f'mask-buffer:Wavefront.babinet:{m}:{mk}:{tag}', f'{ev} {when}: babinet(lyot, M) != lyot*(f - T(1-M) f) for the current contents of the mask array')
            R.expect_close(got, L * Tm, tol, f'mask-buffer:Wavefront.babinet:{m}:{mk}:{tag}', f'{ev} {when}: on the full-band mask grid babinet(lyot, M) != lyot*T(M) f (mask and complement do not sum to the unmasked field)')
        else:
            R.expect_close(got, x - Tc, tol, f'mask-buffer:to_fpm_and_back:{m}:{mk}:{tag}', f'{ev} {when}: T(M) f + T(1-M) f != f on the full-band mask grid for the current contents of the mask array')
            R.expect_close(got, Tm, tol, f'mask-buffer:to_fpm_and_back:{m}:{mk}:{tag}', f'{ev} {when}: differs from the function called with fresh copies of the same field and mask')

    if st.last is not None:
        ev, got, snap = st.last
        R.expect(_eq(st.buf, snap[0]) and _eq(st.lyot, snap[1]) and _eq(st.w.data, snap[2]), 'mask-buffer:argument-modified', f'{ev} changed the mask / Lyot / field array it was given')
        x = st.w2.data if ev == 'babinet_w2' else st.w.data
        judge(ev, got, x, st.lyot if ev == 'babinet_lyot' else None, 'event', after)
        R.outcome('propagate')
    else:
        R.outcome('edit')
    # in EVERY state: babinet and to_fpm_and_back handed the buffers as they are now
    when = f'after {hist}' if hist else 'initially'
    for ev in ('babinet_lyot', 'wf_fpm'):
        judge(ev, _mb_call(st, ev, R), st.w.data, st.lyot if ev == 'babinet_lyot' else None, 'state', when)
    R.nontrivial(len(hist) > 0)


def _eq(a, b):
    return a.shape == b.shape and bool(np.array_equal(a, b))


def hm_canon(st):
    return json.dumps(st.trace)


# ---------------------------------------------------------------------------------------------

EMB_OUT = [[3, 3], [4, 5], [6, 2]]
EMB_BAND = [[4.0, 0], [7.3, 1], [12.0, 0]]          # (n_axis * Q_axis, unit set)
EMB_SHIFT = [[0, 0], [1, 0], [0, -2], [0.5, 1.25]]
FPM_SHIFT = [0, 1, -2, 0.5, 1.25]


def plan(tier, seed):
    nmax, Nmax = (5, 7) if tier == 'quick' else (6, 9)
    big = [[a, b] for a in range(1, Nmax + 1) for b in range(1, Nmax + 1)]
    big.sort(key=lambda s: (s[0] * s[1], s))
    small = [s for s in big if max(s) <= nmax]
    emb_cases = [{'N': N, 'nmax': nmax, 'out': S, 'band': P, 'units': u, 'shift': sh}
                 for N in big for S in EMB_OUT for (P, u) in EMB_BAND for sh in EMB_SHIFT]
    fpm_cases = [{'n': n, 'M': M, 'units': (n[0] + n[1] + M) % 2, 'shift': [sx, sy]}
                 for n in small for M in range(max(n), Nmax + 1) for sx in FPM_SHIFT for sy in FPM_SHIFT]
    mmax = 6 if tier == 'quick' else 8
    masks = [[a, b] for a in range(1, mmax + 1) for b in range(1, mmax + 1)]
    bab_cases = [{'n': n, 'mask': m, 'units': (n[0] + m[1]) % 2, 'bands': [5.0, 8.6]} for n in small for m in masks]
    rs = lambda: reset_executors(64)   # noqa
    # physical output spacing 500/P: P = 4 -> 125 (integral physical shifts exist), P = 7.3 generic
    sf_cases = [{'n': n, 'out': S, 'band': P, 'shift_units': su}
                for n in ([3, 3], [2, 4], [5, 3]) for S in ([4, 4], [3, 5])
                for (P, su) in ((4.0, [125, -250]), (4.0, [0, 62.5]), (7.3, [34.25, 85.6]), (7.3, [-68, 0]))]
    fams = [(16, 14), (32, 30), (64, 62)] if tier == 'quick' else [(16, 14), (24, 23), (32, 30), (64, 62), (128, 126)]
    he_inits = [{'M': M, 'base': b, 'band': float(M), 'units': u,
                 'shapes': [list(t) for t in dict.fromkeys([(b, b), (b + 1, b + 1), (M, M), (b, M), (M, b + 1)])]} for (M, b) in fams for u in (0, 1)]
    ho_inits = [{'shape': sh, 'method': m, 'units': u} for (sh, u) in (([4, 5], 0), ([6, 6], 1)) for m in ('mdft', 'czt')]
    hs_shapes, hs_shifts = ([[3, 4], [5, 5], [4, 6]], [[0, 0], [1, -2], [0.5, 1.25]]) if tier == 'quick' else \
        ([[3, 4], [5, 5], [4, 6], [6, 4], [7, 7]], [[0, 0], [1, -2], [0.5, 1.25], [-1.5, 0]])
    hs_inits = [{'base': [3, 4], 'shapes': hs_shapes, 'out': S, 'band': P, 'units': u, 'shifts': hs_shifts}
                for (S, P, u) in (([4, 4], 7.3, 0), ([4, 5], 12.0, 1))]
    # depth 3 (an entry derived from a derived entry) on a reduced alphabet: 2 arrays, no transposed problems -> 24 events
    hs_deep = [{'base': [3, 4], 'shapes': [[3, 4], [5, 5]], 'out': S, 'band': P, 'units': u, 'shifts': [[0, 0], [1, -2], [0.5, 1.25]], 'transposed': [0]}
               for (S, P, u) in (([4, 4], 7.3, 0), ([4, 5], 12.0, 1))]
    hm_inits = [{'shape': [4, 5], 'method': m, 'complex_mask': c, 'units': u} for (c, u) in ((1, 0), (0, 1)) for m in ('mdft', 'czt')]
    hs_depth, hm_depth = 2, (3 if tier == 'quick' else 4)
    ns_shapes = [[40, 41], [100, 101], [400, 401], [1000, 1001], [1200, 1201], [1201, 1200]] + \
        ([] if tier == 'quick' else [[200, 201], [512, 513], [1024, 1025], [1500, 1501], [1999, 2000], [2048, 2049], [2049, 2048]])
    ns_cases = [{'N': N, 'out': S, 'band': P, 'units': u, 'shift': sh} for N in sorted(ns_shapes)
                for (S, P, u, sh) in (([4, 5], 7.3, 1, [0, 0]), ([3, 3], 12.0, 0, [0.5, 1.25]))]
    return [
        ScopeUnit('embed_transpose_linear', emb_cases, run_embed,
                  f'every array shape N in [1..{Nmax}]^2 x output samples in {{3 (int form), (4,5), (6,2)}} x physical output spacing wvl*efl/(dx_in*P), P in {{4, 7.3, 12}} (per-axis Q = P/n_axis, below and above 1; two unit sets) '
                  'x shift in {(0,0), (1,0), (0,-2), (0.5,1.25)} output samples; inside every case {mdft, czt} x {focus_fixed_sampling, unfocus_fixed_sampling}: operator matrix from all complex deltas; '
                  '(i) i*delta columns, dense complex and real fields; (iii) every delta transposed with samples and shift swapped; '
                  f'(ii) EVERY smaller window n in [1..{nmax}]^2, n <= N per axis, n != N: operator on the small array equals the columns of the large operator at the harness\' own n//2 -> N//2 embedding (complex equality, shifts included); '
                  'Wavefront methods on an embedded dense field; '
                  'history axis: on cleared executors ONE sibling call of the same geometry (unshifted [for shifted cases] / another shift / the other direction) and then the judged call, for a dense field in N (linearity), in the 2 largest windows '
                  '(embedding) and transposed: the complex field must be what the cold operator of the N array predicts', reset=rs),
        ScopeUnit('fpm_identity', fpm_cases, run_fpm_identity,
                  f'every pupil shape n in [1..{nmax}]^2 x full-band mask size M in [max(n)..{Nmax}] (fpm_dx = wvl*efl/(dx*M), so samples = n*Q exactly on both axes) x shift (sx, sy) in {FPM_SHIFT}^2 focal-plane samples '
                  'x {mdft, czt}: operator matrix of to_fpm_and_back(all-ones) must be I; the two legs called directly with the same number of samples of shift must compose to I; Wavefront.to_fpm_and_back (return_more both ways)', reset=rs),
        ScopeUnit('babinet', bab_cases, run_babinet,
                  f'every pupil shape in [1..{nmax}]^2 x every mask shape in [1..{mmax}]^2 (equal / smaller / larger / mixed) x fpm_dx from bands {{5, 8.6}} x {{real, complex}} seeded dense mask x {{mdft, czt}} x mask shift {{(0,0), (0.5,-1)}}: '
                  'operator matrices T(mask) + T(1-mask) = T(ones); T linear in the field; Wavefront.babinet(lyot in {None, real, complex}, fpm) operator equals diag(lyot)(I - T(1-fpm)); return_more planes', reset=rs),
        ScopeUnit('mask_dtypes', md_cases(), run_mask_dtypes,
                  f'dtype / value-set / layout alphabet of the mask ndarray on the to-mask-and-back path: mask dtype in {MD_DTYPES} x integer-valued pattern in {MD_PATTERNS} '
                  '(0/1 spot; all ones / zeros / twos; sum of two overlapping 0/1 masks = 0,1,2; counts 0..3 at generic positions; 3*spot; 8-bit gray 0..255 [0..127 for int8]; complement of an overlap sum = -1,0,1; negated counts; '
                  'every pattern the dtype can hold exactly, complex masks = pattern*(1+0.5j)) x 2 geometries (pupil (3,4), 6x6 full-band mask, no shift; pupil (4,3), 5x7 mask on part of the band, shift (0.5,-1) samples) x {mdft, czt}; '
                  f'memory layouts {MD_LAYOUTS} for counts in uint8 / int64 / float64 and the bool spot.  Operator matrices from all complex deltas: T(mask) + T(1-mask) = T(ones) with the complement formed in float64/complex128 and, '
                  'where the dtype can hold it, in the mask\'s own dtype; T(a) + T(b) = T(a+b) for the two overlapping binary masks and for the even-row / odd-row halves of every pattern; T(k*mask) = k*T(mask), k in {3, -2}, where representable; '
                  'T(ones of the dtype) = T(float64 ones) (= I on the full band); function and Wavefront.to_fpm_and_back on a dense field through the call-hygiene layer; Wavefront.babinet(lyot in {None, real float64, an integer-valued Lyot array of the mask dtype}, mask) = lyot*(f - T(1-mask) f) '
                  '(= lyot*T(mask) f on the full band) -- except unsigned masks holding values above 1, whose complement babinet cannot form in the mask\'s dtype', reset=rs),
        HistoryUnit('embedding_history', he_inits, he_fresh, he_events, he_apply, he_check, he_canon, 2,
                    'for each family (output M, input lengths that round to the same fast FFT length: 14,15,16 -> 16; 30,31,32 -> 32; 62,63,64 -> 64; square and two non-square members) x 2 unit sets: every history of length <= 2 over '
                    '(array shape, method in {mdft, czt}, direction) on the SHARED module-level executors with no clear() in between; one seeded dense physical field of the smallest size is embedded (by the harness) in each array; '
                    'in every state the last result must equal the textbook sum of the unpadded field and every earlier result of the same direction (embedding invariance in both orders: small then padded, padded then small, across methods)'),
        HistoryUnit('wavefront_object_history', ho_inits, ho_fresh, ho_events, ho_apply, ho_check, ho_canon, 3 if tier == 'quick' else 4,
                    f'ONE Wavefront object (initial shapes (4,5) and (6,6), methods mdft / czt): every history up to depth {3 if tier == "quick" else 4} over events {OBJ_EVENTS} -- to_fpm_and_back with a complex mask A, a real mask B, '
                    'mask A with a shift, the all-ones mask, babinet, focus_fixed_sampling (all on one 8x8 focal grid that covers the whole band), wf.data replaced by another array of the same shape, wf.data scaled in place, in-place pad2d and crop; '
                    'states are never merged; after every propagation event the result must equal the same call on a FRESH Wavefront built from the object\'s current data / dx / wavelength and the object\'s data must be untouched; '
                    'in every state the all-ones full-band mask must return the current field'),
        ScopeUnit('shift_forms', sf_cases, run_shift_forms,
                  'argument-form alphabet of the shift: pupils (3,3),(2,4),(5,3) x outputs (4,4),(3,5) x 4 physical shifts (integral and fractional, one axis zero) x {mdft, czt} x '
                  '{focus_fixed_sampling, unfocus_fixed_sampling, to_fpm_and_back, Wavefront.focus_fixed_sampling, Wavefront.to_fpm_and_back}: the shift given as tuple of numpy scalars / list / float64 ndarray / '
                  'int64 ndarray / int tuple must give the field of the float tuple, must not be modified, and the same object passed to a second call must give the same field again '
                  '(non-zero shifts only: an all-zero list / ndarray is not hashable by the mdft cache key, documented form is a tuple)', reset=rs),
        ScopeUnit('near_square', ns_cases, run_near_square,
                  f'aspect-ratio threshold alphabet, NOT closed over the data dimension: array shapes {sorted(ns_shapes)} (sides differing by 2.5% ... 0.05%) x 2 (output samples, band, units, shift) x {{mdft, czt}} x both directions: '
                  'a seeded dense 3x4 window embedded (by the harness) at the origin of the large array gives the field of the 3x4 array; impulses at far corners / edges (three for sides <= 500, one above) transposed with swapped arguments give the transposed field', reset=rs, chunk=1),
        HistoryUnit('shift_history', hs_inits, hs_fresh, hs_events, hs_apply, hs_check, he_canon, hs_depth,
                    f'relations (ii) (iii) with WARM executors: one seeded dense 3x4 physical field embedded (by the harness) in arrays {hs_shapes}; outputs 4 (int form, band 7.3) and (4,5) (band 12), two unit sets; '
                    f'every history of length <= {hs_depth} over events (array, method in {{mdft, czt}}, direction, shift in {hs_shifts} output samples, problem transposed with swapped samples / shift or not) '
                    f'= {len(hs_shapes) * 8 * len(hs_shifts)} events on the SHARED executors with no clear() in between, so that every call finds the cache entries of every kind of sibling call (same geometry with another shift, the unshifted one, the other direction, '
                    'the transposed square problem = same key with the shift swapped, the other method); in every state the last complex field must equal every earlier result of the same direction and shift in the history '
                    '(embedding / transposition / method / repeat), the same call on cleared executors, the same field in the next array of the alphabet on cleared executors, and for zero shift the textbook sum'),
    ] + ([] if tier == 'quick' else [
        HistoryUnit('shift_history_deep', hs_deep, hs_fresh, hs_events, hs_apply, hs_check, he_canon, 3,
                    'thorough tier only: as shift_history, every history of length <= 3 (a cache entry derived from a derived entry) on the reduced alphabet arrays (3,4), (5,5) x {mdft, czt} x direction x '
                    'shift in {(0,0), (1,-2), (0.5,1.25)} = 24 events, no transposed problems; same oracles'),
    ]) + [
        HistoryUnit('mask_buffer_history', hm_inits, hm_fresh, hm_events, hm_apply, hm_check, hm_canon, hm_depth,
                    f'argument buffers reused by the caller: ONE mask array (6x6, full band of a (4,5) pupil; complex and real), ONE Lyot array, ONE Wavefront (+ a second one of shape (5,4)), methods mdft / czt: every history up to depth {hm_depth} '
                    f'over {MB_EVENTS} -- Wavefront.babinet (no lyot / lyot / return_more / from the second Wavefront), Wavefront.to_fpm_and_back, the function to_fpm_and_back, babinet_backprop (not judged, shares state), all handed the SAME '
                    'array objects; the mask array refilled in place / scaled in place / complemented in place / replaced by a new array, the Lyot array and the field array refilled in place; states never merged. After every propagation event and, '
                    'with babinet(lyot) and to_fpm_and_back, in EVERY state: babinet(lyot, M) = lyot*(f - T(1-M) f) = lyot*T(M) f and T(M) f + T(1-M) f = f for the CURRENT contents (T = the plain function on fresh copies), arguments untouched'),
    ]
