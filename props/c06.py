"""C06 -- every backprop routine returns the true gradient of its forward routine.

Combines the linear companions (adjoint matrices on full bases: props/c06_linear.py) and the
non-linear nodes (directional derivatives at every operating point of a finite alphabet, every basis
direction: props/c06_nodes.py).
"""
ID = 'C06'
ASSUMPTIONS = [
    'DM rotation is excluded from the exactness claim (an inverse warp is only an approximate adjoint of spline interpolation)',
    'czt backprop is documented as not implemented; only the mdft method is claimed for the fixed-sampling companions',
    'modal sums with REAL weights: only the real part of the companion output is the gradient (the imaginary part returned for complex modes / complex upstream gradients is not judged)',
    'non-linear nodes: finite operating-point alphabets; derivative oracle = Richardson-extrapolated central differences with measured residual',
]


def plan(tier, seed):
    units = []
    try:
        from props import c06_linear
        units += c06_linear.units(tier, seed)
    except ModuleNotFoundError as e:
        if 'c06_linear' not in str(e):
            raise
    try:
        from props import c06_nodes
        units += c06_nodes.units(tier, seed)
    except ModuleNotFoundError as e:
        if 'c06_nodes' not in str(e):
            raise
    return units
