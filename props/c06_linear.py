"""C06, linear part -- the reverse-mode companion of every LINEAR forward routine is its exact adjoint.

Oracle (complete per configuration).  For a forward map f that is linear on arrays of shape s_in the
operator matrix A is read off the full basis; the companion's matrix B is read off the full basis of
upstream gradients.  Everything complex is treated over the reals: a complex array of n samples is the
real vector (Re, Im) in R^(2n) and the inner product is  <u, v> = Re sum conj(u) v.  With
A_R : R^(2n) -> R^(2m) and B_R : R^(2m) -> R^(2n) the requirement is, entry-wise,

        B_R = A_R^T        <=>        <y, f(x)> = <b(y), x>   for every basis pair (x, y).

For a complex-linear f (matrix A) this is exactly B = A^H (the realification of A^H is A_R^T), and it
also covers maps that are only real-linear (DM.render: real part of a complex filter).

Gradient conventions of the routines (all take the forward's parameters plus the upstream gradient):
  * mdft.dft2_backprop / idft2_backprop, focus_/unfocus_fixed_sampling_backprop (function, Wavefront
    method), to_fpm_and_back_backprop, Wavefront.babinet_backprop: forward y = A x is complex-linear,
    the cost is real, and the routines work with  xbar = A^H ybar  (conjugate-transposed bases applied
    in reverse order; "np.conj(1 - fpm)", "cbar = dbar * conj(L)" in the comments of babinet_backprop),
    i.e. xbar = dJ/dRe(x) + i dJ/dIm(x) = 2 dJ/d conj(x) up to the factor carried by ybar.
  * polynomials.sum_of_2d_modes_backprop: y = sum_k w_k M_k ;  wbar_k = <M_k, ybar> (real modes: plain
    transpose; complex modes and weights: the same convention as above, wbar = M^H ybar).
  * SpatialGradient2D.backprop_x/_y: real matrix, xbar = D^T ybar.
  * DM.render_backprop: real actuators -> real surface, real upstream gradient (documented "not
    compatible with complex valued protograd"), abar = A^T ybar.
"""
import numpy as np

from mc import ScopeUnit, FAILED
from mc import ref_dft
from mc.linalg import dense, deltas
from mc.state import reset_executors

from props import c01

from prysm import fttools, propagation, polynomials
from prysm.conf import config
from prysm.propagation import Wavefront
from prysm.x.optym.operators import SpatialGradient2D
from prysm.x.dm import DM

# accuracy demanded: K_TOL * eps * max(1, max|A|) per operator entry; measured honest error of the repaired tree
# is <= 2.4e-3 of that over the whole quick scope (margin > 400x); the recorded defects deviate by O(0.1 .. 10)
K_TOL = 2e3

ASSUMPTIONS = [
    'a companion is called with the forward routine\'s own parameters (dx, efl, wavelength, Q, shift, mask, Lyot stop), the upstream gradient in place of the field and the shape of the forward INPUT as its sample-count argument',
    'focal-plane masks and Lyot stops are ndarrays (Wavefront-valued masks already fail in the forward routines: "complex * Wavefront", "1 - Wavefront")',
    'DM: square influence function and square Nout, rot = (0,0,0) (rotation excluded from the exactness claim), real upstream gradient (documented), actuator lattice inside the array as prysm places it',
    'sum_of_2d_modes: every combination of modes / weights / upstream-gradient number field (real, complex, integer; double and single precision) that the forward routine answers correctly; with REAL weights only the real part of the companion output is the gradient (the imaginary part is not judged)',
    'complex-linear companions (mdft, fixed-sampling wrappers, to_fpm_and_back, babinet): an upstream gradient given as a REAL-dtype array is the same gradient as its complex copy',
]


# ---------------------------------------------------------------------------------------------
# operator matrices through the Recorder (a wrong output is a violation, never a crash)

def _columns(R, f, shape_in, mult, dtype, sig):
    cols = []
    shape_out = None
    for d in deltas(shape_in, dtype):
        out = R.call(f, d * mult, sig=sig + ':exception')
        if out is FAILED:
            return None, None
        try:
            out = np.asarray(out)
            if out.dtype.kind not in 'fc':
                out = out.astype(float)
        except Exception:   # noqa
            R.violation(sig + ':output', f'output is not a numeric array: {type(out).__name__}')
            return None, None
        if shape_out is None:
            shape_out = out.shape
        if out.shape != shape_out:
            R.violation(sig + ':output', f'output shape depends on the data: {out.shape} vs {shape_out}')
            return None, None
        cols.append(out.ravel())
    M = np.stack(cols, axis=1)
    if not np.all(np.isfinite(M)):
        R.violation(sig + ':output', 'non-finite entries in the operator matrix')
        return None, None
    return M, shape_out


def real_matrix(R, f, shape_in, sig, cplx=True, dtype=None):
    """Matrix over the reals of the (real-)linear map f.  cplx=True: domain C^n as R^(2n) (columns for
    delta and i*delta), codomain as R^(2m).  cplx=False: real deltas only, codomain must be real.
    Returns (M, shape_out) or (None, None) after recording a violation."""
    if not cplx:
        M, so = _columns(R, f, shape_in, 1.0, dtype or float, sig)
        if M is None:
            return None, None
        if np.iscomplexobj(M):
            if np.max(np.abs(M.imag)) > 0:
                R.violation(sig + ':output', 'complex output for a real input of a real map')
                return None, None
            M = M.real
        return M, so
    cdt = dtype or complex
    cr, so = _columns(R, f, shape_in, 1.0, cdt, sig)
    if cr is None:
        return None, None
    ci, so2 = _columns(R, f, shape_in, 1j, cdt, sig)
    if ci is None:
        return None, None
    if so2 != so:
        R.violation(sig + ':output', f'output shape differs between delta and i*delta: {so} vs {so2}')
        return None, None
    top = np.concatenate([cr.real, ci.real], axis=1)
    bot = np.concatenate([cr.imag, ci.imag], axis=1)
    return np.concatenate([top, bot], axis=0), so


def judge_adjoint(R, AR, BR, tol, sig, what):
    """B_R == A_R^T entry-wise.  Returns True / False; diagnoses an overall sign."""
    R.checks += 1
    R.observe(np.round(AR, 9))
    want = AR.T
    if BR.shape != want.shape:
        R.violation(sig, f'{what}: companion operator has shape {BR.shape}, adjoint of the forward has {want.shape} (over the reals)')
        return False
    err = np.abs(BR - want)
    e = float(err.max()) if err.size else 0.0
    if e <= tol:
        return True
    i, j = np.unravel_index(int(np.argmax(err)), err.shape)
    scale = float(np.max(np.abs(want))) if want.size else 0.0
    s = sig
    if float(np.max(np.abs(BR + want))) <= tol:
        s = sig.split(':')[0] + ':negated'
        what += ' [companion == MINUS the adjoint]'
    R.violation(s, f'{what}: max |B - A^H| = {e:.3e} (tol {tol:.1e}, max|A| = {scale:.3e}) at real-row {int(i)}, real-col {int(j)}: '
                   f'companion {BR[i, j]:.6g}, adjoint of forward {want[i, j]:.6g}')
    return False


def rdot(u, v):
    return float(np.sum(np.conj(np.asarray(u)) * np.asarray(v)).real)


def dense_pair_check(R, f, b, shape_in, shape_out, seed, salt, tol, sig, cplx=True):
    """<y, f(x)> == <b(y), x> for one seeded dense pair: guards the linearity assumption behind the basis closure."""
    x = dense(shape_in, seed, salt, complex_=cplx)
    y = dense(shape_out, seed, salt + 1, complex_=cplx)
    fx = R.call(f, x.copy(), sig=sig + ':exception')
    by = R.call(b, y.copy(), sig=sig + ':exception')
    if fx is FAILED or by is FAILED:
        return
    try:
        fx, by = np.asarray(fx), np.asarray(by)
        ok = fx.shape == tuple(shape_out) and by.shape == tuple(shape_in)
        lhs, rhs = (rdot(y, fx), rdot(by, x)) if ok else (0.0, 0.0)
    except Exception as e:   # noqa
        R.violation(sig + ':dense', f'uncomparable output: {type(e).__name__}: {e}')
        return
    if not ok:
        R.violation(sig + ':dense', f'dense pair: shapes {fx.shape}, {by.shape} instead of {tuple(shape_out)}, {tuple(shape_in)}')
        return
    nrm = float(np.linalg.norm(x) * np.linalg.norm(y))
    R.expect(abs(lhs - rhs) <= tol * max(1.0, nrm) * 10, sig + ':dense',
             f'dense pair <y, f(x)> = {lhs:.12g} but <b(y), x> = {rhs:.12g}')


def adjoint_check(R, f, b, shape_in, shape_out, seed, salt, sig, what, eps=None, cplx=True, dtype=None, dense_too=True, fsig=None):
    """Full check of one forward/companion pair.  Returns True when the entry-wise comparison passed."""
    eps = eps or np.finfo(float).eps
    fsig = fsig or sig + ':forward'
    AR, so = real_matrix(R, f, tuple(shape_in), fsig, cplx, dtype)
    if AR is None:
        return False
    if tuple(so) != tuple(shape_out):
        R.violation(fsig, f'{what}: forward output shape {so}, expected {tuple(shape_out)}')
        return False
    BR, si = real_matrix(R, b, tuple(shape_out), sig, cplx, dtype)
    if BR is None:
        return False
    if tuple(si) != tuple(shape_in):
        R.violation(sig, f'{what}: companion returns shape {si}; the forward input has shape {tuple(shape_in)}')
        return False
    scale = max(1.0, float(np.max(np.abs(AR))) if AR.size else 1.0)
    tol = K_TOL * eps * scale
    ok = judge_adjoint(R, AR, BR, tol, sig, what)
    if ok and dense_too:
        dense_pair_check(R, f, b, shape_in, shape_out, seed, salt, tol, sig, cplx)
    if ok and cplx and dtype is None:
        real_upstream_check(R, b, shape_out, seed, salt + 2, tol, sig, what)
    return ok


def real_upstream_check(R, b, shape_out, seed, salt, tol, sig, what):
    """Number field of the operand: an upstream gradient given as a REAL-dtype array (float64) is the same gradient as
    its complex copy, whose answer the full-basis comparison has just judged (the bases are complex-dtype arrays)."""
    yr = dense(shape_out, seed, salt, complex_=False)
    got = R.call(b, yr.copy(), sig=sig + ':exception', hygiene=False)            # (hygiene variants run on the explicit calls of each unit)
    ref = R.call(b, yr.astype(complex), sig=sig + ':exception', hygiene=False)
    if got is FAILED or ref is FAILED:
        return
    try:
        mag = float(np.max(np.abs(np.asarray(ref)))) if np.size(ref) else 0.0
        mag = mag if np.isfinite(mag) else 1.0
    except Exception:   # noqa
        mag = 1.0
    R.expect_close(got, ref, 10 * tol * max(1.0, mag, float(np.sum(np.abs(yr)))), sig + ':real-upstream',
                   f'{what}: companion of a float64 upstream gradient differs from the companion of its complex copy')


# ---------------------------------------------------------------------------------------------
# 1. matrix DFT engine

def ref_shift(shift):
    from mc import ref_dft as _rd
    a, b = _rd.norm_pair(shift)
    return float(a), float(b)


def run_mdft(case, seed, R):
    si, so = tuple(case['in']), tuple(case['out'])
    Q = c01.mk_Q(case['Q'])
    shift = c01.mk_shift(case['shift'], seed)
    for prec in case['prec']:
        reset_executors(prec)
        try:
            eps = np.finfo(np.float32 if prec == 32 else np.float64).eps
            for name in ('dft2', 'idft2'):
                fwd = getattr(fttools.mdft, name)
                bp = getattr(fttools.mdft, name + '_backprop')
                sig = f"{name}_backprop:{c01.shape_class(si, so)}:{c01.q_class(case['Q'])}:{c01.shift_class(shift)}" + (':p32' if prec == 32 else '')
                # both documented forms of the sample counts
                s_out = so if (so[0] != so[1] or case['shift'] == 0) else so[0]
                s_in = si if (si[0] != si[1] or case['shift'] != 0) else si[0]
                f = lambda a: fwd(a, Q, s_out, shift)          # noqa
                b = lambda g: bp(g, Q, s_in, shift)            # noqa
                adjoint_check(R, f, b, si, so, seed, 3, sig, f'{name} {si}->{so} Q={Q} shift={shift}', eps=eps)
                R.call(bp, dense(so, seed, 4), Q, s_in, shift, sig=sig + ':exception')    # direct call, array explicit (call hygiene)
                # history on the shared executor, nothing cleared: the SAME geometry with other shifts (whatever the companion memoises
                # per geometry -- conjugate-transposed bases, work arrays -- must be keyed on the shift too); then the first shift again
                if case.get('hist'):
                    sa, sb = ref_shift(shift)
                    for sh2 in ((sa + 1.0, sb - 0.5), (0.0, 0.0), (sa, sb)):
                        f2 = lambda a, sh2=sh2: fwd(a, Q, tuple(so), sh2)          # noqa
                        b2 = lambda g, sh2=sh2: bp(g, Q, tuple(si), sh2)           # noqa
                        adjoint_check(R, f2, b2, si, so, seed, 5, sig + ':after-other-shift', f'{name} {si}->{so} Q={Q} shift={sh2} after the same geometry with other shifts', eps=eps, dense_too=False)
        finally:
            config.precision = 64
    R.nontrivial(True)
    R.outcome('shifted' if c01.is_shifted(shift) else 'unshifted')


# ---------------------------------------------------------------------------------------------
# 2. fixed-sampling wrappers

def geom_class(a, b):
    sq = 'square' if (a[0] == a[1] and b[0] == b[1]) else 'nonsquare'
    same = 'same-shape' if tuple(a) == tuple(b) else 'diff-shape'
    return f'{sq}:{same}'


def phys(case):
    n, N = tuple(case['n']), tuple(case['N'])
    wvl, efl, dxi = case['wvl'], case['efl'], case['dxi']
    dxo = wvl * efl / (n[0] * dxi) / case['dxo_rel']      # Q along axis 0 of the pupil == dxo_rel
    return n, N, wvl, efl, dxi, dxo


def run_wrappers(case, seed, R):
    n, N, wvl, efl, dxi, dxo = phys(case)
    sh = case['shift']
    shc = c01.shift_class(sh)
    # ---- focus: pupil n (dx=dxi) -> focal N (dx=dxo); shift in focal units
    shift_f = (sh[0] * dxo, sh[1] * dxo)
    Narg = N if N[0] != N[1] else N[0]
    narg = n if n[0] != n[1] else n[0]
    f = lambda a: propagation.focus_fixed_sampling(a, dxi, efl, wvl, dxo, Narg, shift=shift_f, method='mdft')   # noqa
    sig = f'focus_fixed_sampling_backprop:{geom_class(n, N)}:{shc}'
    b = lambda g: propagation.focus_fixed_sampling_backprop(g, dxi, efl, wvl, dxo, narg, shift=shift_f, method='mdft')   # noqa
    adjoint_check(R, f, b, n, N, seed, 5, sig, f'focus_fixed_sampling pupil {n} -> focal {N}')

    def bw(g):
        w = Wavefront(g, wvl, dxo, 'psf')
        return w.focus_fixed_sampling_backprop(efl, dxi, n, shift=shift_f, method='mdft').data
    adjoint_check(R, f, bw, n, N, seed, 5, 'Wavefront.' + sig, f'Wavefront.focus_fixed_sampling pupil {n} -> focal {N}', dense_too=False)
    # ---- unfocus: focal N (dx=dxo) -> pupil n (dx=dxi); shift in pupil units
    shift_u = (sh[0] * dxi, sh[1] * dxi)
    f = lambda a: propagation.unfocus_fixed_sampling(a, dxo, efl, wvl, dxi, narg, shift=shift_u, method='mdft')   # noqa
    b = lambda g: propagation.unfocus_fixed_sampling_backprop(g, dxo, efl, wvl, dxi, Narg, shift=shift_u, method='mdft')   # noqa
    sig = f'unfocus_fixed_sampling_backprop:{geom_class(n, N)}:{shc}'
    adjoint_check(R, f, b, N, n, seed, 7, sig, f'unfocus_fixed_sampling focal {N} -> pupil {n}')
    R.call(propagation.focus_fixed_sampling_backprop, dense(N, seed, 8), dxi, efl, wvl, dxo, narg, shift=shift_f, sig='focus_fixed_sampling_backprop:exception')
    R.call(propagation.unfocus_fixed_sampling_backprop, dense(n, seed, 8), dxo, efl, wvl, dxi, Narg, shift=shift_u, sig='unfocus_fixed_sampling_backprop:exception')
    # ---- czt: documented as not implemented (ValueError); anything returned instead must be the same adjoint
    g = dense(N, seed, 9)
    try:
        R.tick()
        out = propagation.focus_fixed_sampling_backprop(g.copy(), dxi, efl, wvl, dxo, narg, shift=shift_f, method='czt')
        ref = R.call(propagation.focus_fixed_sampling_backprop, g.copy(), dxi, efl, wvl, dxo, narg, shift=shift_f, method='mdft')
        R.expect_close(out, ref, K_TOL * np.finfo(float).eps * 10, 'focus_fixed_sampling_backprop:czt', 'czt companion differs from the mdft one')
        R.outcome('czt:implemented')
    except ValueError:
        R.outcome('czt:documented-ValueError')
    except Exception as e:   # noqa
        R.violation('focus_fixed_sampling_backprop:czt:exception', f'{type(e).__name__}: {e} (documented: ValueError)')
    R.nontrivial(True)
    R.outcome('wrappers:' + geom_class(n, N))


# ---------------------------------------------------------------------------------------------
# 3. to_fpm_and_back, 4. babinet

def mk_mask(kind, shape, seed, salt):
    """generic representative of a mask cell: real (positive and negative transmissions) or complex"""
    if kind is None or kind == 'none':
        return None
    a = dense(shape, seed, salt, complex_=(kind == 'complex'))
    return a


def fpm_features(n, M, sh, mkind):
    feats = []
    if mkind == 'complex':
        feats.append('complex-mask')
    if tuple(M) != tuple(n):
        feats.append('mask!=pupil')
    if c01.is_shifted(sh):
        feats.append('shift')
    if n[0] != n[1] or M[0] != M[1]:
        feats.append('nonsquare')
    return '+'.join(feats) if feats else 'base'


def run_fpm(case, seed, R):
    n, M, wvl, efl, dx, fdx = phys({**case, 'N': case['M']})
    sh = case['shift']
    shift = (sh[0] * fdx, sh[1] * fdx)
    mkind = case['mask']
    fpm = mk_mask(mkind, M, seed, 13)
    feats = fpm_features(n, M, sh, mkind)
    sig = f'to_fpm_and_back_backprop:{feats}'
    what = f'to_fpm_and_back pupil {n}, {mkind} mask {M}, shift {sh} samples'
    f = lambda a: propagation.to_fpm_and_back(a, dx=dx, efl=efl, wavelength=wvl, fpm=fpm.copy(), fpm_dx=fdx, shift=shift, method='mdft')   # noqa
    b = lambda g: propagation.to_fpm_and_back_backprop(g, dx=dx, wavelength=wvl, efl=efl, fpm=fpm.copy(), fpm_dx=fdx, method='mdft', shift=shift)   # noqa
    adjoint_check(R, f, b, n, n, seed, 15, sig, what)

    def fw(a):
        return Wavefront(a, wvl, dx, 'pupil').to_fpm_and_back(efl, fpm.copy(), fdx, method='mdft', shift=shift).data

    def bw(g):
        return Wavefront(g, wvl, dx, 'pupil').to_fpm_and_back_backprop(efl, fpm.copy(), fdx, method='mdft', shift=shift).data
    adjoint_check(R, fw, bw, n, n, seed, 15, 'Wavefront.' + sig, 'Wavefront.' + what, dense_too=False)
    # return_more: the first element is the same gradient
    g = dense(n, seed, 17)
    more = R.call(propagation.to_fpm_and_back_backprop, g.copy(), dx=dx, wavelength=wvl, efl=efl, fpm=fpm.copy(), fpm_dx=fdx, shift=shift, return_more=True)
    one = R.call(b, g.copy())
    if more is not FAILED and one is not FAILED:
        ok = isinstance(more, tuple) and len(more) == 3
        R.expect(ok, 'to_fpm_and_back_backprop:return_more', 'return_more=True does not return a 3-tuple')
        if ok:
            R.expect_equal(more[0], one, 'to_fpm_and_back_backprop:return_more', 'first element with return_more=True differs from the plain return')
            fpm_more_check(R, case, seed, g, more, n, M, wvl, efl, dx, fdx, sh, shift, fpm, feats, what)
    R.nontrivial(True)
    R.outcome('fpm:' + feats)


def fpm_more_check(R, case, seed, g, more, n, M, wvl, efl, dx, fdx, sh, shift, fpm, feats, what):
    """The AUXILIARY returns of the companion.  forward (return_more): A = F(a) ; B = A * m ; c = U(B)  ->  (c, A, B);
    companion (return_more): Bbar = U^H cbar ; Abar = conj(m) Bbar ; abar = F^H Abar  ->  (abar, Bbar, Abar).
    Each element is the gradient with respect to its forward quantity:
      (i)   <cbar, U(dB)> = <Bbar, dB>        U = the return trip of the forward (unfocus_fixed_sampling displaced by the same number of focal samples)
      (ii)  Abar = conj(m) * Bbar on every sample (exact adjoint of the diagonal step B = A * m; with (i) this is <cbar, U(dA * m)> = <Abar, dA>)
      (iii) mask gradient mbar = Bbar * conj(A), A taken from the forward's own return_more: <cbar, to_fpm_and_back(a, fpm=dm)> = <mbar, dm>
            (the forward is linear in the mask) -- ties (i) to to_fpm_and_back itself
      (iv)  the Wavefront method returns the same three arrays
      (v)   case['full']: (i) and (ii) entry-wise on the full bases (operator of U and of U(. * m) against the operators cbar -> Bbar, cbar -> Abar)."""
    sig = 'to_fpm_and_back_backprop:return_more:'
    eps = np.finfo(float).eps
    try:
        Bbar, Abar = np.asarray(more[1]), np.asarray(more[2])
        ok = Bbar.shape == tuple(M) and Abar.shape == tuple(M) and bool(np.all(np.isfinite(Bbar))) and bool(np.all(np.isfinite(Abar)))
    except Exception as e:   # noqa
        R.violation(sig + 'output', f'{what}: uncomparable auxiliary returns: {type(e).__name__}: {e}')
        return
    if not ok:
        R.violation(sig + 'output', f'{what}: auxiliary returns have shapes {Bbar.shape}, {Abar.shape} (mask {tuple(M)}) or non-finite entries')
        return
    shift_back = (sh[0] * dx, sh[1] * dx)      # the same number of focal samples, in units of the pupil spacing
    U = lambda B: propagation.unfocus_fixed_sampling(B, fdx, efl, wvl, dx, n, shift=shift_back, method='mdft')   # noqa
    gn = float(np.linalg.norm(g))
    # (i)
    dB = dense(M, seed, 61)
    uB = R.call(propagation.unfocus_fixed_sampling, dB.copy(), fdx, efl, wvl, dx, n, shift=shift_back, sig=sig + 'forward:exception', hygiene=False)
    if uB is not FAILED:
        try:
            uB = np.asarray(uB)
            okB = uB.shape == tuple(n)
            lhs, rhs = (rdot(g, uB), rdot(Bbar, dB)) if okB else (0.0, 0.0)
            un = float(np.linalg.norm(uB)) if okB else 0.0
        except Exception as e:   # noqa
            R.violation(sig + 'forward', f'{what}: uncomparable return trip: {type(e).__name__}: {e}')
            okB = None
        if okB:
            R.expect(abs(lhs - rhs) <= K_TOL * eps * max(1.0, gn * max(un, float(np.linalg.norm(dB)))), sig + 'Ebbar:' + feats,
                     f'{what}: second return (gradient w.r.t. the field AFTER the mask): <cbar, U(dB)> = {lhs:.12g} but <Ebbar, dB> = {rhs:.12g}')
        elif okB is False:
            R.violation(sig + 'forward', f'{what}: return trip gives shape {uB.shape}, pupil is {tuple(n)}')
    # (ii)
    want = np.conj(fpm) * Bbar
    R.expect_close(Abar, want, K_TOL * eps * max(1.0, float(np.max(np.abs(want)))), sig + 'intermediate:' + feats,
                   f'{what}: third return (gradient w.r.t. the field AT the mask) is not conj(mask) * second return (gradient w.r.t. the field after the mask)')
    # (iii)
    a = dense(n, seed, 63)
    dm = dense(M, seed, 65, complex_=(case['mask'] == 'complex'))
    fwd = R.call(propagation.to_fpm_and_back, a.copy(), dx=dx, efl=efl, wavelength=wvl, fpm=fpm.copy(), fpm_dx=fdx, shift=shift, return_more=True,
                 sig=sig + 'forward:exception', hygiene=False)
    c1 = R.call(propagation.to_fpm_and_back, a.copy(), dx=dx, efl=efl, wavelength=wvl, fpm=dm.copy(), fpm_dx=fdx, shift=shift, sig=sig + 'forward:exception', hygiene=False)
    if fwd is not FAILED and c1 is not FAILED:
        try:
            A = np.asarray(fwd[1])
            c1 = np.asarray(c1)
            okm = isinstance(fwd, tuple) and len(fwd) == 3 and A.shape == tuple(M) and c1.shape == tuple(n)
            lhs, rhs = (rdot(g, c1), rdot(Bbar * np.conj(A), dm)) if okm else (0.0, 0.0)
            sc = gn * max(float(np.linalg.norm(c1)), float(np.linalg.norm(dm)) * float(np.max(np.abs(A)))) if okm else 0.0
        except Exception as e:   # noqa
            R.violation(sig + 'forward', f'{what}: uncomparable forward return_more: {type(e).__name__}: {e}')
            okm = None
        if okm:
            R.expect(abs(lhs - rhs) <= K_TOL * eps * max(1.0, sc), sig + 'mask-gradient:' + feats,
                     f'{what}: mask gradient Ebbar * conj(field at the mask): <cbar, to_fpm_and_back(a, fpm=dm)> = {lhs:.12g} but <mbar, dm> = {rhs:.12g}')
        elif okm is False:
            R.violation(sig + 'forward', f'{what}: forward return_more is not (pupil field, field at mask {tuple(M)}, field after mask)')
    # (iv)
    wm = R.call(lambda gg, m: tuple(w.data for w in Wavefront(gg, wvl, dx, 'pupil').to_fpm_and_back_backprop(efl, m, fdx, method='mdft', shift=shift, return_more=True)),
                g.copy(), fpm.copy(), sig='Wavefront.' + sig + 'exception')
    if wm is not FAILED:
        okw = isinstance(wm, tuple) and len(wm) == 3
        R.expect(okw, 'Wavefront.' + sig + 'output', f'Wavefront.{what}: return_more=True does not return three Wavefronts')
        if okw:
            for i, nm in enumerate(('first', 'second', 'third')):
                ref = np.asarray(more[i])
                R.expect_close(wm[i], ref, K_TOL * eps * max(1.0, float(np.max(np.abs(ref))) if ref.size else 1.0), 'Wavefront.' + sig + nm,
                               f'Wavefront.{what}: {nm} return of the method differs from the {nm} return of the function')
    # (v)
    if case.get('full'):
        bB = lambda y: propagation.to_fpm_and_back_backprop(y, dx=dx, wavelength=wvl, efl=efl, fpm=fpm.copy(), fpm_dx=fdx, method='mdft', shift=shift, return_more=True)[1]   # noqa
        bA = lambda y: propagation.to_fpm_and_back_backprop(y, dx=dx, wavelength=wvl, efl=efl, fpm=fpm.copy(), fpm_dx=fdx, method='mdft', shift=shift, return_more=True)[2]   # noqa
        adjoint_check(R, U, bB, M, n, seed, 67, sig + 'Ebbar:' + feats, what + ' [second return / return trip]', dense_too=False)
        adjoint_check(R, lambda Af: U(Af * fpm), bA, M, n, seed, 69, sig + 'intermediate:' + feats, what + ' [third return / mask and return trip]', dense_too=False)


def run_babinet(case, seed, R):
    n, M, wvl, efl, dx, fdx = phys({**case, 'N': case['M'], 'shift': [0, 0]})
    mkind, lkind = case['mask'], case['lyot']
    fpm = mk_mask(mkind, M, seed, 19)
    lyot = mk_mask(lkind, n, seed, 21)
    feats = fpm_features(n, M, [0, 0], mkind)
    sig = f'babinet_backprop:lyot-{lkind}:{feats}'
    what = f'babinet pupil {n}, {mkind} mask {M}, lyot {lkind}'
    cp = lambda a: None if a is None else a.copy()   # noqa

    def f(a):
        return Wavefront(a, wvl, dx, 'pupil').babinet(efl, cp(lyot), fpm.copy(), fdx, method='mdft').data

    def b(g):
        return Wavefront(g, wvl, dx, 'pupil').babinet_backprop(efl, cp(lyot), fpm.copy(), fdx, method='mdft').data
    adjoint_check(R, f, b, n, n, seed, 23, sig, what)
    # once with every array argument explicit (call hygiene: memory layout, in-place modification of gradient / mask / stop)
    R.call(lambda g, ly, m: Wavefront(g, wvl, dx, 'pupil').babinet_backprop(efl, ly, m, fdx, method='mdft').data, dense(n, seed, 25), cp(lyot), fpm.copy(),
           sig=sig + ':exception')
    R.nontrivial(True)
    R.outcome(f'babinet:lyot-{lkind}:{feats}')


# ---------------------------------------------------------------------------------------------
# 5. modal sums

def run_modes(case, seed, R):
    k, m, n, kind, form = case['k'], case['m'], case['n'], case['kind'], case['form']
    cplx = kind == 'complex'
    modes = dense((k, m, n), seed, 29, complex_=cplx)
    if kind == 'float32':
        modes = modes.astype(np.float32)
    marg = (lambda: [mm.copy() for mm in modes]) if form == 'list' else (lambda: modes.copy())   # noqa
    eq = ('k=m=n' if k == m == n else 'k=m' if k == m else 'k=n' if k == n else 'm=n' if m == n else 'distinct') if (m, n) != (1, 1) else 'scalar-mode'
    sig = f'sum_of_2d_modes_backprop:{kind}-modes:{eq}'
    f = lambda w: polynomials.sum_of_2d_modes(marg(), w)             # noqa
    b = lambda g: polynomials.sum_of_2d_modes_backprop(marg(), g)    # noqa
    eps = np.finfo(np.float32).eps if kind == 'float32' else np.finfo(float).eps
    adjoint_check(R, f, b, (k,), (m, n), seed, 31, sig, f'sum_of_2d_modes k={k} modes of shape {(m, n)} ({kind}, {form})',
                  eps=eps, cplx=cplx, dtype=(np.float32 if kind == 'float32' else None))
    g = dense((m, n), seed, 33, complex_=cplx).astype(modes.dtype)
    R.call(polynomials.sum_of_2d_modes_backprop, marg(), g, sig=sig + ':exception')      # modes and gradient explicit (call hygiene)
    R.nontrivial(True)
    R.outcome(f'modes:{kind}')


# 5b. modal sums: operand number fields (modes x weights x upstream gradient)

OPERAND_DT = {'f64': np.float64, 'f32': np.float32, 'c128': np.complex128, 'c64': np.complex64, 'i64': np.int64}
MODE_KINDS = ('real', 'complex', 'float32', 'complex64', 'int', 'bool')


def mk_modes(kind, shape, seed):
    a = dense(shape, seed, 29, complex_=kind in ('complex', 'complex64'))
    if kind == 'float32':
        return a.astype(np.float32)
    if kind == 'complex64':
        return a.astype(np.complex64)
    if kind == 'int':
        return np.rint(3 * a).astype(np.int64) + 1      # generic small integers, not all zero
    if kind == 'bool':
        return a > 0.3
    return a


def mk_operand(shape, seed, salt, dt):
    dt = np.dtype(dt)
    a = dense(shape, seed, salt, complex_=dt.kind == 'c')
    if dt.kind == 'i':
        return np.rint(3 * a).astype(dt) + 2
    return a.astype(dt)


def field_of(dt):
    return {'f': 'real', 'c': 'complex', 'i': 'int'}[np.dtype(dt).kind]


def field_matrix(R, f, shape_in, dt, sig):
    """Real matrix of the real-linear map f on arrays of dtype dt: columns f(delta) for every sample and, for a complex dt,
    f(i delta); rows (Re out, Im out) -- the Im rows are zero for a real output.  (M, shape_out) or (None, None)."""
    blocks, so = [], None
    for mult in ((1, 1j) if np.dtype(dt).kind == 'c' else (1,)):
        M, s = _columns(R, f, shape_in, mult, dt, sig)
        if M is None:
            return None, None
        if so is not None and s != so:
            R.violation(sig + ':output', f'output shape differs between delta and i*delta: {so} vs {s}')
            return None, None
        so = s
        blocks.append(M)
    C = np.concatenate(blocks, axis=1)
    return np.concatenate([C.real, C.imag if np.iscomplexobj(C) else np.zeros_like(C.real)], axis=0), so


def run_modes_ops(case, seed, R):
    """<y, A w> = <A^H y, w> over the reals for every number field of (modes, weights w, upstream gradient y).
    A_R: R^(k or 2k) -> R^(2mn) from the forward on the full weight basis; B_R from the companion on the full basis of
    upstream gradients of dtype y.  Judged block: rows = the weight components that exist (Re, and Im for complex weights),
    columns = the upstream components that exist (Re, and Im for a complex upstream gradient)."""
    k, m, n, kind, form = case['k'], case['m'], case['n'], case['kind'], case['form']
    wdt, ydt = OPERAND_DT[case['w']], OPERAND_DT[case['y']]
    wc, yc = np.dtype(wdt).kind == 'c', np.dtype(ydt).kind == 'c'
    modes = mk_modes(kind, (k, m, n), seed)
    marg = (lambda: [mm.copy() for mm in modes]) if form == 'list' else (lambda: modes.copy())   # noqa
    sig = f'sum_of_2d_modes_backprop:operands:{kind}-modes:{field_of(wdt)}-weights:{field_of(ydt)}-upstream'
    what = f'sum_of_2d_modes k={k} modes of shape {(m, n)} ({kind} {modes.dtype}, {form}), weights {np.dtype(wdt)}, upstream gradient {np.dtype(ydt)}'
    f = lambda w: polynomials.sum_of_2d_modes(marg(), w)             # noqa
    b = lambda g: polynomials.sum_of_2d_modes_backprop(marg(), g)    # noqa
    single = any(np.dtype(d) in (np.dtype(np.float32), np.dtype(np.complex64)) for d in (modes.dtype, wdt, ydt))
    eps = np.finfo(np.float32).eps if single else np.finfo(float).eps
    R.nontrivial(True)
    R.outcome(f'modes-ops:{kind}:{field_of(wdt)}-weights:{field_of(ydt)}-upstream')
    AR, so = field_matrix(R, f, (k,), wdt, sig + ':forward')
    if AR is None:
        return
    if tuple(so) != (m, n):
        R.violation(sig + ':forward', f'{what}: forward output shape {so}, expected {(m, n)}')
        return
    BR, si = field_matrix(R, b, (m, n), ydt, sig)
    if BR is None:
        return
    if tuple(si) != (k,):
        R.violation(sig, f'{what}: companion returns shape {si}; the weights have shape {(k,)}')
        return
    mn = m * n
    AR = AR if yc else AR[:mn]               # real upstream gradient: dJ/dIm(data) = 0, only the Re rows of the forward matter
    BR = BR if wc else BR[:k]                # real weights: the gradient is the real part of the companion output
    scale = max(1.0, float(np.max(np.abs(AR))) if AR.size else 1.0)
    tol = K_TOL * eps * scale
    if not judge_adjoint(R, AR, BR, tol, sig, what):
        return
    # dense pair (guards linearity) + the call with modes and gradient explicit (call hygiene)
    x, y = mk_operand((k,), seed, 35, wdt), mk_operand((m, n), seed, 36, ydt)
    fx = R.call(polynomials.sum_of_2d_modes, marg(), x.copy(), sig=sig + ':exception')
    by = R.call(polynomials.sum_of_2d_modes_backprop, marg(), y.copy(), sig=sig + ':exception')
    if fx is FAILED or by is FAILED:
        return
    try:
        fx, by = np.asarray(fx), np.asarray(by)
        ok = fx.shape == (m, n) and by.shape == (k,)
        lhs, rhs = (rdot(y, fx), rdot(by, x)) if ok else (0.0, 0.0)
    except Exception as e:   # noqa
        R.violation(sig + ':dense', f'uncomparable output: {type(e).__name__}: {e}')
        return
    if not ok:
        R.violation(sig + ':dense', f'dense pair: shapes {fx.shape}, {by.shape} instead of {(m, n)}, {(k,)}')
        return
    nrm = float(np.linalg.norm(x) * np.linalg.norm(y)) * scale
    R.expect(abs(lhs - rhs) <= tol * max(1.0, nrm) * 10, sig + ':dense', f'{what}: dense pair Re<y, f(x)> = {lhs:.12g} but Re<b(y), x> = {rhs:.12g}')


# ---------------------------------------------------------------------------------------------
# 6. SpatialGradient2D

def run_spgrad(case, seed, R):
    m, n = case['m'], case['n']
    op = SpatialGradient2D()
    sq = 'square' if m == n else ('tall' if m > n else 'wide')
    eps = np.finfo(float).eps
    mats = {}
    for ax in ('x', 'y'):
        f = getattr(op, 'forward_' + ax)
        b = getattr(op, 'backprop_' + ax)
        sig = f'SpatialGradient2D.backprop_{ax}:{sq}'
        AR, so = real_matrix(R, f, (m, n), f'SpatialGradient2D.forward_{ax}:{sq}', cplx=False)
        if AR is None:
            continue
        if tuple(so) != (m, n):
            R.violation(f'SpatialGradient2D.forward_{ax}:{sq}', f'output shape {so} for input {(m, n)}')
            continue
        mats[ax] = AR
        BR, si = real_matrix(R, b, (m, n), sig, cplx=False)
        if BR is None:
            continue
        if judge_adjoint(R, AR, BR, 0.0, sig, f'SpatialGradient2D {ax} on {(m, n)}'):
            dense_pair_check(R, f, b, (m, n), (m, n), seed, 37, K_TOL * eps, sig, cplx=True)
    # the Y operator is the X operator on the other axis: forward_y(a) == forward_x(a.T).T
    if 'y' in mats:
        Ax_t, so = real_matrix(R, lambda a: op.forward_x(np.ascontiguousarray(a.T)).T, (m, n), f'SpatialGradient2D.forward_x:{sq}', cplx=False)   # noqa
        if Ax_t is not None and Ax_t.shape == mats['y'].shape:
            R.expect(np.array_equal(Ax_t, mats['y']), f'SpatialGradient2D.forward_y:{sq}:not-forward_x-on-axis-0',
                     f'forward_y on {(m, n)} is not forward_x applied along axis 0 ({int(np.sum(Ax_t != mats["y"]))} operator entries differ)')
    R.nontrivial(max(m, n) >= 3)
    R.outcome('spgrad:' + sq)


# ---------------------------------------------------------------------------------------------
# 7. deformable mirror

def mk_ifn(N, sep):
    """small, deliberately asymmetric influence function centred on N//2 (a skewed Gaussian), so that
    correlation != convolution and x != y"""
    sx, sy = (sep if isinstance(sep, list) else [sep, sep])
    c = N // 2
    y, x = np.meshgrid(np.arange(N) - c, np.arange(N) - c, indexing='ij')
    g = np.exp(-0.5 * ((x / (0.6 * sx)) ** 2 + (y / (0.45 * sy)) ** 2))
    return g * (1 + 0.3 * np.tanh(x) - 0.2 * np.tanh(y))


def run_dm(case, seed, R):
    N, Nact, sep, shift, Nout, up, wfe = case['N'], case['Nact'], case['sep'], case['shift'], case['Nout'], case['upsample'], case['wfe']
    tp = lambda v: tuple(v) if isinstance(v, list) else v     # noqa
    ifn = mk_ifn(N, sep)
    nact_c = 'per-axis-Nact' if isinstance(Nact, list) else 'Nact'
    dm = R.call(DM, ifn.copy(), Nout, Nact=tp(Nact), sep=tp(sep), shift=tuple(shift), upsample=up, sig=f'DM:{nact_c}:exception')
    if dm is FAILED:
        return
    Nint = int(N * up)
    frac = N * up - int(N * up)
    upc = 'upsample:int-product' if frac == 0 else 'upsample:frac<.5' if frac < 0.5 else 'upsample:frac>=.5'
    feats = [t for t, on in ((upc, up != 1), ('N-odd', N % 2 == 1), ('shift', any(shift)), ('crop', Nout < Nint), ('pad', Nout > Nint),
                             ('per-axis-Nact', isinstance(Nact, list))) if on]
    feats = '+'.join(feats) if feats else 'base'
    try:
        ash = tuple(int(s) for s in dm.actuators.shape)
        fits = np.zeros((N, N))[dm.iyy, dm.ixx].size == int(np.prod(ash)) and dm.iyy.start >= 0 and dm.ixx.start >= 0
    except Exception as e:   # noqa
        R.violation('DM:lattice:attributes', f'{type(e).__name__}: {e}')
        return
    if not fits:
        # the lattice as prysm places it does not fit in the influence-function array: not a legal configuration
        R.outcome('dm:lattice-does-not-fit')
        return
    sig = 'DM.render_backprop:' + feats

    def f(a):
        dm.update(a)
        return dm.render(wfe).copy()

    def b(g):
        return np.array(dm.render_backprop(g.copy(), wfe))
    ok = adjoint_check(R, f, b, ash, (Nout, Nout), seed, 41, sig,
                       f'DM N={N} Nact={Nact} sep={sep} shift={shift} Nout={Nout} upsample={up} wfe={wfe}', cplx=False, dense_too=True,
                       fsig='DM.render:' + ('per-axis-Nact' if isinstance(Nact, list) else 'Nact'))
    R.call(dm.render_backprop, dense((Nout, Nout), seed, 43, complex_=False), wfe, sig=sig + ':exception')   # the caller's own array (call hygiene)
    R.nontrivial(True)
    R.outcome('dm:' + feats + ('' if ok else ':violation'))


# ---------------------------------------------------------------------------------------------
# 8. size thresholds (fast paths): NOT closed over the data dimension -- a probe alphabet instead of the full basis

def _probes(shape, seed, salt):
    o = np.zeros(shape, dtype=complex)
    o[shape[0] // 2, shape[1] // 2] = 1
    c = np.zeros(shape, dtype=complex)
    c[-1, -1] = 1j
    return [('origin', o), ('corner', c), ('dense', dense(shape, seed, salt))]


def probe_adjoint(R, fwd_call, bp_call, si, so, Qref, shift, forward, seed, tol, sig, what):
    """fwd_call(x) / bp_call(y) go through R.call with explicit array arguments.
    (a) <y, A x> == <B y, x> for all probe pairs; (b) unshifted: B y == textbook adjoint Ay^H y conj(Ax)
    (a shifted transform may carry a per-output-sample phase, so (b) is then replaced by (a) alone)."""
    xs = _probes(si, seed, 51)
    ys = _probes(so, seed, 53)
    Ax = [fwd_call(x.copy()) for _, x in xs]
    By = [bp_call(y.copy()) for _, y in ys]
    if any(v is FAILED for v in Ax + By):
        return
    try:
        Ax = [np.asarray(v) for v in Ax]
        By = [np.asarray(v) for v in By]
        shapes_ok = all(v.shape == tuple(so) for v in Ax) and all(v.shape == tuple(si) for v in By)
    except Exception as e:   # noqa
        R.violation(sig + ':output', f'{what}: uncomparable output: {type(e).__name__}: {e}')
        return
    if not shapes_ok:
        R.violation(sig + ':output', f'{what}: output shapes {[v.shape for v in Ax]} / {[v.shape for v in By]}, expected {tuple(so)} / {tuple(si)}')
        return
    for (lx, x), ax in zip(xs, Ax):
        for (ly, y), by in zip(ys, By):
            lhs = complex(np.sum(np.conj(y) * ax))
            rhs = complex(np.sum(np.conj(by) * x))
            nrm = float(np.linalg.norm(x) * np.linalg.norm(y))
            R.expect(abs(lhs - rhs) <= tol * max(1.0, nrm), sig,
                     f'{what}: <y, A x> = {lhs:.10g} but <A^H y, x> = {rhs:.10g} (x = {lx}, y = {ly})')
    if not c01.is_shifted(shift):
        Ay, Axm = ref_dft.dft2_factors(tuple(si), tuple(so), Qref, shift, forward)
        for (ly, y), by in zip(ys, By):
            ref = Ay.conj().T @ y @ Axm.conj()
            R.expect_close(by, ref, tol * max(1.0, float(np.abs(ref).max())) * max(1.0, float(np.abs(y).max())), sig,
                           f'{what}: companion output vs textbook adjoint sum Ay^H y conj(Ax) (y = {ly})')


def run_large(case, seed, R):
    n, N = tuple(case['in']), tuple(case['out'])
    Q = c01.mk_Q(case['Q'])
    shift = tuple(case['shift'])
    big = max(n + N)
    sq = c01.shape_class(n, N)
    mkcell = lambda q: f"{sq}:{'Q=1' if tuple(q) == (1.0, 1.0) else 'Q-generic'}:{'same-grid' if n == N else 'other-grid'}:{c01.shift_class(shift)}"   # noqa
    cell = mkcell(ref_dft.norm_pair(Q))
    # ---- engine
    for prec in (64, 32):
        reset_executors(prec)
        try:
            e = np.finfo(np.float32 if prec == 32 else np.float64).eps
            tol = 200 * e * big ** 1.5
            for name, forward in (('dft2', True), ('idft2', False)):
                f0 = getattr(fttools.mdft, name)
                b0 = getattr(fttools.mdft, name + '_backprop')
                sig = f'{name}_backprop:large:{cell}' + (':p32' if prec == 32 else '')
                s_in = n if (n[0] != n[1] or prec == 32) else n[0]
                probe_adjoint(R, lambda x: R.call(f0, x, Q, N, shift, sig=sig + ':forward:exception'),
                              lambda y: R.call(b0, y, Q, s_in, shift, sig=sig + ':exception'),
                              n, N, ref_dft.norm_pair(Q), shift, forward, seed, tol, sig, f'{name} {n}->{N} Q={Q} shift={shift} p{prec}')
        finally:
            config.precision = 64
    # ---- fixed-sampling wrappers at the same per-axis Q along axis 0 (Q == 1 exactly when the case says 1)
    reset_executors(64)
    tol = 200 * np.finfo(float).eps * big ** 1.5
    wvl, efl, dxi = 0.5, 100.0, 0.1
    q0 = ref_dft.norm_pair(Q)[0]
    # focus: pupil n -> focal N.  dxo is formed exactly like Q_for_sampling forms its resolution element, so q0 == 1 gives Q == 1.0
    dxo = ((wvl * efl) / (n[0] * dxi)) / q0
    Qf = tuple(((wvl * efl) / (na * dxi)) / dxo for na in n)
    shf = (shift[0] * dxo, shift[1] * dxo)
    sig = f'focus_fixed_sampling_backprop:large:{mkcell(Qf)}'
    probe_adjoint(R, lambda x: R.call(propagation.focus_fixed_sampling, x, dxi, efl, wvl, dxo, N, shift=shf, sig=sig + ':forward:exception'),
                  lambda y: R.call(propagation.focus_fixed_sampling_backprop, y, dxi, efl, wvl, dxo, n, shift=shf, sig=sig + ':exception'),
                  n, N, Qf, shift, True, seed, tol, sig, f'focus_fixed_sampling pupil {n} -> focal {N}, per-axis Q={Qf}, shift={shift} samples')
    # unfocus: focal n (dx=dxf) -> pupil N (dx=dxp); per-axis Q' = wvl*efl/(n_axis*dxf*dxp)
    # (dxf is formed exactly like the wrapper forms its resolution element, so q0 == 1 on the same grid gives Q == 1.0)
    dxp = 0.125
    dxf = ((wvl * efl) / (dxp * N[0])) / q0 * (N[0] / n[0])
    Qu = tuple((wvl * efl) / (na * dxf * dxp) for na in n)
    shu = (shift[0] * dxp, shift[1] * dxp)
    sig = f'unfocus_fixed_sampling_backprop:large:{mkcell(Qu)}'
    probe_adjoint(R, lambda x: R.call(propagation.unfocus_fixed_sampling, x, dxf, efl, wvl, dxp, N, shift=shu, sig=sig + ':forward:exception'),
                  lambda y: R.call(propagation.unfocus_fixed_sampling_backprop, y, dxf, efl, wvl, dxp, n, shift=shu, sig=sig + ':exception'),
                  n, N, Qu, shift, False, seed, tol, sig, f'unfocus_fixed_sampling focal {n} -> pupil {N}, per-axis Q={Qu}, shift={shift} samples')
    R.nontrivial(True)
    R.outcome('large:' + cell)


# ---------------------------------------------------------------------------------------------

def units(tier, seed):
    quick = tier == 'quick'
    rs = lambda: reset_executors(64)   # noqa
    # --- mdft
    lo, hi = 2, (5 if quick else 6)
    pup = [[a, b] for a in range(lo, hi + 1) for b in range(lo, hi + 1)]
    foc = [[a, b] for a in range(1 if not quick else 2, hi + 2) for b in range(1 if not quick else 2, hi + 2)]
    mdft_cases = []
    for si in pup:
        for so in foc:
            for qi, q in enumerate(c01.QS):
                for shi, sh in enumerate(c01.SHIFTS):
                    # quick: full Q x shift product on the parity-complete sub-lattice of small shapes, the diagonal elsewhere
                    if quick and not (max(si + so) <= 3 or shi == qi % len(c01.SHIFTS)):
                        continue
                    mdft_cases.append({'in': si, 'out': so, 'Q': q, 'shift': sh, 'prec': [64] if (quick and max(si + so) > 4) else [64, 32]})
                    if max(si + so) <= 3 or (not quick and max(si + so) <= 4):
                        mdft_cases[-1]['hist'] = 1       # followed, on the same executor, by the same geometry with other shifts
    # --- wrappers
    wr_cases = [{'n': n, 'N': N, 'dxo_rel': q, 'shift': sh, 'wvl': wvl, 'efl': efl, 'dxi': dxi}
                for n in pup for N in foc for q in (1.0, 2.0, 1.37)
                for sh in ([0, 0], [1, 0], [0, -1.5]) for (wvl, efl, dxi) in ((0.5, 100.0, 0.1), (1.0, 37.5, 0.25))
                if not quick or (wvl == 0.5) == (q != 2.0)]
    # --- fpm / babinet
    # 'full': the auxiliary (return_more) returns of the companion on the full bases as well (quick: on the parity-complete sub-lattice of small shapes)
    fpm_cases = [{'n': n, 'M': M, 'dxo_rel': q, 'shift': sh, 'mask': mk, 'wvl': 0.5, 'efl': 100.0, 'dxi': 0.1, 'full': (not quick) or max(n + M) <= 3}
                 for n in pup for M in foc for q in (2.0, 1.37) for sh in ([0, 0], [1, 0], [0.5, -1.5]) for mk in ('real', 'complex')]
    bab_cases = [{'n': n, 'M': M, 'dxo_rel': q, 'mask': mk, 'lyot': ly, 'wvl': 1.0, 'efl': 37.5, 'dxi': 0.25}
                 for n in pup for M in foc for q in (2.0, 1.37) for mk in ('real', 'complex') for ly in ('none', 'real', 'complex')]
    # --- modal sums
    Bm = 4 if quick else 6
    mode_cases = [{'k': k, 'm': m, 'n': n, 'kind': kind, 'form': form}
                  for k in range(1, Bm + 1) for m in range(1, Bm + 1) for n in range(1, Bm + 1)
                  for kind in ('real', 'complex', 'float32') for form in ('array', 'list')]
    Bo = 3 if quick else 4
    mode_ops_cases = [{'k': k, 'm': m, 'n': n, 'kind': kind, 'form': form, 'w': w, 'y': y}
                      for k in range(1, Bo + 1) for m in range(1, Bo + 1) for n in range(1, Bo + 1)
                      for kind in MODE_KINDS for form in ('array', 'list') for w in OPERAND_DT for y in OPERAND_DT
                      if not quick or form == 'array' or (w in ('f64', 'c128') and y in ('f64', 'c128'))]
    # --- spatial gradient
    Bs = 7 if quick else 10
    sg_cases = [{'m': m, 'n': n} for m in range(1, Bs + 1) for n in range(1, Bs + 1)]
    # --- DM
    dm_cases = []
    for N in (8, 9, 12) if quick else (8, 9, 12, 13, 16):
        for Nact in (2, 3, [3, 2]):
            for sep in (2, 3, [3, 2]):
                for shift in ([0, 0], [0.5, -1.25]):
                    for up in (1, 2, 0.5):
                        Nint = int(N * up)
                        for Nout in (Nint - 3 if Nint >= 6 else Nint - 1, Nint, Nint + 3):
                            for wfe in (True, False):
                                dm_cases.append({'N': N, 'Nact': Nact, 'sep': sep, 'shift': shift, 'Nout': Nout, 'upsample': up, 'wfe': wfe})
    # fractional resampling: N*upsample non-integer on both sides of .5 (int() vs round() of the resampled size), a float artefact just below an integer,
    # lattices reaching the array edge; Nout one sample and three samples above / three below / equal to the resampled size int(N*upsample)
    frac_fam = [(10, 1.25, 4, 2), (10, 1.28, 4, 2), (10, 1.22, 4, 2), (10, 1.28, 2, 3), (12, 0.79, 4, 3), (12, 0.8, 4, 3), (12, 0.8, 3, 2), (9, 1.3, 4, 2), (9, 1.3, 2, 2),
                (13, 0.5, 4, 3), (11, 1.5, 4, 2)]
    if not quick:
        frac_fam += [(16, 1.2, 6, 2), (16, 1.1, 6, 2), (15, 0.9, 4, 3), (14, 0.75, 6, 2), (53, 1.2, 8, 6), (50, 0.75, 8, 6)]
    for (N, up, Nact, sep) in frac_fam:
        Nint = int(N * up)
        for shift in ([0, 0], [0.5, -1.25]):
            for Nout in (Nint - 3, Nint, Nint + 1, Nint + 3):
                for wfe in (True, False):
                    dm_cases.append({'N': N, 'Nact': Nact, 'sep': sep, 'shift': shift, 'Nout': Nout, 'upsample': up, 'wfe': wfe})
    for Nout in (28, 29, 33):      # 100 * 0.29 = 28.999999999999996
        dm_cases.append({'N': 100, 'Nact': 8, 'sep': 12, 'shift': [0.5, -1.25], 'Nout': Nout, 'upsample': 0.29, 'wfe': True})
    # --- size thresholds
    big_shapes = [[63, 63], [64, 64], [65, 65], [64, 65], [65, 64], [65, 67], [101, 64], [66, 64], [127, 127], [128, 128], [129, 129], [128, 129], [129, 131]]
    if not quick:
        big_shapes += [[255, 255], [256, 256], [257, 257], [256, 257], [300, 301]]
    large_cases = []
    for sh_ in big_shapes:
        for Q in (1, [1, 1], 1.0, 1.37, [1, 1.37]):
            outs = [(sh_, [0, 0]), (sh_, [1, 0]), (sh_, [0.5, -1.25]), ([sh_[0] + 1, sh_[1]], [0, 0])]
            if sh_[0] != sh_[1]:
                outs.append((sh_[::-1], [0, 0]))
            for so, shift in outs:
                if quick and (isinstance(Q, list) or isinstance(Q, float)) and Q != 1.37 and (shift != [0, 0] or so != sh_):
                    continue
                large_cases.append({'in': sh_, 'out': so, 'Q': Q, 'shift': shift})
    shapes_txt = f'pupil shapes [{lo}..{hi}]^2 (square and non-square) x focal/mask shapes [{foc[0][0]}..{hi + 1}]^2 (smaller, equal, larger, non-square)'
    orc = ('oracle: forward operator A_R and companion operator B_R read off the FULL bases (delta and i*delta of every sample, '
           'i.e. over R^(2n)); B_R = A_R^T entry-wise (== B = A^H), plus <y,f(x)> = <b(y),x> for one seeded dense pair, plus operand number field: '
           'the companion of one seeded float64 (real-dtype) upstream gradient == the companion of its complex copy')
    return [
        ScopeUnit('lin_mdft', mdft_cases, run_mdft,
                  f'{shapes_txt} x the Q alphabet of C01 {{1, 2, 2.0, 1.5, 0.75, (1,2), (2.5,1.25), [2,1.5]}} x the shift alphabet of C01 {{(0,0), 0, (1,0), (0,-2), (0.5,1.25), seeded generic}}'
                  + (' (quick: full Q x shift product on shapes <= 3, the diagonal of the product elsewhere; precision 32 on shapes <= 4)' if quick else '')
                  + ' ; dft2/dft2_backprop and idft2/idft2_backprop, precision 64 and 32, int and tuple sample counts; ' + orc, reset=rs),
        ScopeUnit('lin_wrappers', wr_cases, run_wrappers,
                  f'{shapes_txt} x 3 sampling ratios (Q along axis 0 in {{1, 2, 1.37}}) x shifts {{0, (1,0), (0,-1.5)}} samples x 2 (wavelength, efl, dx) unit sets'
                  + (' (quick: unit set tied to the sampling ratio)' if quick else '')
                  + ': focus_fixed_sampling / _backprop (function and Wavefront method), unfocus_fixed_sampling / _backprop, method mdft; method czt must raise the documented ValueError (or be the same adjoint); ' + orc, reset=rs),
        ScopeUnit('lin_fpm', fpm_cases, run_fpm,
                  f'{shapes_txt} x 2 focal samplings x shift {{0, (1,0), (0.5,-1.5)}} focal samples x mask in {{real, complex}} (seeded dense generic values): '
                  'to_fpm_and_back / to_fpm_and_back_backprop, function and Wavefront method; ' + orc +
                  ' ; RETURN FORMS: return_more in {False, True} -- with return_more=True the companion returns (abar, Bbar, Abar) mirroring the forward\'s (c, A, B) '
                  '[A = F(a), B = A*m, c = U(B)] and EVERY element is judged as the gradient w.r.t. its forward quantity, in every configuration: first == the plain return; '
                  'second: <cbar, U(dB)> = <Bbar, dB> for a seeded dense pair (U = the forward\'s return trip); third == conj(m) * second on every sample (exact adjoint of the diagonal step); '
                  'mask gradient Bbar*conj(A) with A from the forward\'s own return_more against the forward, which is linear in the mask: <cbar, to_fpm_and_back(a, fpm=dm)> = <Bbar conj(A), dm>; '
                  'the Wavefront method returns the same three arrays; and, ' + ('on the sub-lattice of shapes <= 3 (all 16 pupil/mask shape pairs x sampling x shift x mask kind)' if quick else 'in every configuration')
                  + ', the operators cbar -> Bbar and cbar -> Abar read off the full basis against the operators of U and U(. * m) read off the full basis, entry-wise', reset=rs),
        ScopeUnit('lin_babinet', bab_cases, run_babinet,
                  f'{shapes_txt} x 2 focal samplings x mask in {{real, complex}} x Lyot stop in {{None, real, complex}}: Wavefront.babinet / babinet_backprop; ' + orc, reset=rs),
        ScopeUnit('lin_modes', mode_cases, run_modes,
                  f'every (k, m, n) in [1..{Bm}]^3 (all coincidences k=m, k=n, m=n, k=m=n) x modes in {{real float64, complex, float32}} x modes given as {{ndarray, list of arrays}}: '
                  'sum_of_2d_modes / sum_of_2d_modes_backprop; real modes over real weights, complex modes over complex weights; ' + orc, reset=rs),
        ScopeUnit('lin_modes_ops', mode_ops_cases, run_modes_ops,
                  f'OPERAND NUMBER FIELDS: every (k, m, n) in [1..{Bo}]^3 (all coincidences) x modes in {{{", ".join(MODE_KINDS)}}} x modes given as {{ndarray, list of arrays}} x '
                  f'weights dtype in {{{", ".join(OPERAND_DT)}}} x upstream-gradient dtype in {{{", ".join(OPERAND_DT)}}} (full 5 x 5 product' + (' for the ndarray form, {f64, c128}^2 for the list form' if quick else '') + ': real modes with complex weights and complex upstream gradient, '
                  'complex modes with real weights, real upstream gradient of complex data, integer operands, mixed precisions; every cell answered correctly by the unchanged forward routine): '
                  'forward operator A_R read off the full weight basis (delta, and i*delta for complex weights; rows Re and Im of the data), companion operator B_R off the full basis of upstream gradients of '
                  'that dtype (delta, and i*delta when complex); B_R = A_R^T entry-wise on the block (weight components that exist) x (upstream components that exist) -- with real weights only Re of the '
                  'companion output is judged; plus Re<y,f(x)> = Re<b(y),x> for one seeded dense pair of those dtypes, called with modes and operands explicit (call hygiene)', reset=rs),
        ScopeUnit('lin_spgrad', sg_cases, run_spgrad,
                  f'every array shape in [1..{Bs}]^2: SpatialGradient2D forward_x/backprop_x, forward_y/backprop_y operator matrices, exact (integer) comparison B = A^T, '
                  'dense complex pair, and forward_y == forward_x along axis 0; non-trivial when an axis has an interior sample', reset=rs),
        ScopeUnit('lin_large', large_cases, run_large,
                  f'THRESHOLD ALPHABET (fast paths; this unit is NOT closed over the data dimension): shapes {big_shapes} x Q in {{1, (1,1), 1.0, 1.37, (1,1.37)}} x '
                  '{same output grid with shift 0 / (1,0) / (0.5,-1.25), output grid one row longer, transposed output grid}'
                  + (' (quick: the redundant spellings of Q=1 only on the same grid with zero shift)' if quick else '')
                  + ': dft2/idft2 and their _backprop (precision 64 and 32), focus_/unfocus_fixed_sampling and their _backprop at the sampling that gives that Q along axis 0 '
                  '(exactly 1.0 when Q=1); probes x, y in {delta at the origin, i*delta at the last corner, seeded dense}; oracle: <y, A x> = <A^H y, x> for all 9 probe pairs and, '
                  'unshifted, companion output == textbook adjoint sum Ay^H y conj(Ax) of mc/ref_dft; tolerance 200 eps n^1.5', reset=rs),
        ScopeUnit('lin_dm', dm_cases, run_dm,
                  f'N in {sorted({c["N"] for c in dm_cases})} x Nact in {{2, 3, (3,2)}} x sep in {{2, 3, (3,2)}} x shift in {{0, (0.5,-1.25)}} x upsample in {{1, 2, 0.5}} x Nout in {{<, =, >}} the resampled size (parity-changing) x wfe in {{True, False}}; '
                  f'plus the fractional-resampling family (N, upsample, Nact, sep) in {frac_fam} and (100, 0.29, 8, 12) [N*upsample non-integer on both sides of .5, exactly .5, a float artefact just below an integer; lattices reaching the array edge] '
                  'x shift x Nout in {{int(N*upsample)-3, =, +1, +3}} x wfe; render must return the documented Nout x Nout array; '
                  'skewed-Gaussian influence function; DM.render as a map actuators -> surface (full actuator basis) against DM.render_backprop on the full basis of upstream gradients, B = A^T entry-wise. '
                  'ROTATION IS EXCLUDED from the exactness claim (rot = 0 throughout): an inverse warp is only an approximate adjoint of spline interpolation and the property quantifies over shift/pad/crop/resample. '
                  'Configurations whose lattice, as prysm places it, does not fit in the array are executed up to construction and counted as trivial', reset=rs),
    ]
