"""C06 (non-linear part) -- every non-linear reverse-mode companion returns the true gradient.

Method.  For every operating point ``x`` of a finite alphabet the Jacobian of the *real* forward routine
is measured by Richardson-extrapolated central differences along EVERY basis direction of the forward
input (``e_k`` and, for complex inputs, also ``i e_k``):

    D(h) = (f(x + h u) - f(x - h u)) / 2h          J_u = (4 D(h/2) - D(h)) / 3

The observed extrapolation residual ``|D(h/2) - D(h)|`` (>= 3x the truncation error of D(h/2), which in
turn is >> the O(h^4) error of J_u) and the rounding of the differences (k eps |f| / h) give the
tolerance; nothing is tuned per routine except the step, which is 2^-10 of the routine's natural input
scale.  For every upstream gradient ``ybar`` (every basis element of the output and one seeded dense
array) the scalar cost is  c(x) = Re<ybar, f(x)> = Re sum conj(ybar) f(x)  (cost nodes: the cost value
itself) and the companion must return the array ``xbar`` with

    dc/dt c(x + t u)|_0  =  Re<xbar, u>       i.e.   xbar = dc/dRe(x) + i dc/dIm(x)

Gradient conventions of the library that are verified (taken from docstrings / prysm/x/optym/test_activation.py):

* ``Wavefront.intensity_backprop(Ibar)``: I = |E|^2, returns a Wavefront whose data is Ebar with
  dc = Re<Ebar, dE> (Ebar = 2 Ibar E).
* ``Wavefront.from_amp_and_phase_backprop_phase(wf_bar)``: g = A exp(i 2pi/(1e3 wvl) phi), the input is the
  phase phi in nm, wf_bar.data = gbar in the same convention; returns the real array dc/dphi.
* ``Tanh/Arctan/Softplus/Sigmoid.backprop(x)``: takes the forward *input* and returns the local
  derivative f'(x) element by element (this is what test_activation.py asserts); the caller multiplies by the upstream
  gradient, so the verified quantity is xbar = ybar * node.backprop(x).
* ``Softmax/GumbelSoftmax/DiscreteEncoder.backprop(grad)``: takes the upstream gradient w.r.t. the output of the
  preceding ``forward(x)`` (same node object, state kept in the node) and returns dcost/dx, shape of x;
  the soft-max is over the LAST axis, all leading axes are independent variables; GumbelSoftmax's noise is
  frozen by replacing the public attribute ``.rng`` (DESIGN section 2).
* cost functions return ``(cost, dcost/dmodel)`` with the full shape of the model; masked-out elements
  get gradient 0.
"""
import itertools
import math

import numpy as np

from mc import ScopeUnit, FAILED
from mc.linalg import dense, deltas

from prysm.propagation import Wavefront
from prysm.conf import config
from prysm.x.optym import activation as act
from prysm.x.optym import cost as costmod

EPS = float(np.finfo(float).eps)
H0 = 2.0 ** -10          # step in units of the natural input scale (power of two: x +- h is exact for moderate x)
CR = 4.0                 # multiple of the observed extrapolation residual
KE = 1e3                 # multiple of eps * |f| / h  (rounding of a central difference)
TINY = 1e-300
EPS32 = float(np.finfo(np.float32).eps)
K32 = 100.0              # multiple of eps(float32) x conditioning allowed to a gradient evaluated on float32 data


# ---------------------------------------------------------------------------------------------
# generic machinery

def _valid(R, y, sig, shape=None, complex_ok=False, what='output'):
    """Validate an implementation output before any arithmetic on it; None (and a violation) if unusable."""
    if y is FAILED:
        return None
    try:
        a = np.asarray(y)
    except Exception as e:   # noqa
        R.violation(sig, f'{what}: not array-like ({type(e).__name__})')
        return None
    if a.dtype.kind not in ('fiub' + ('c' if complex_ok else '')):
        R.violation(sig, f'{what}: dtype {a.dtype} not acceptable here')
        return None
    if shape is not None and a.shape != tuple(shape):
        R.violation(sig, f'{what}: shape {a.shape} != expected {tuple(shape)}')
        return None
    if not np.all(np.isfinite(a)):
        R.violation(sig, f'{what}: non-finite values {a.ravel()[:6].tolist()}')
        return None
    return a


def fd_jacobian(R, fwd, x, h, sig, complex_dirs=False, fscale=0.0):
    """Richardson central-difference Jacobian of the library's forward routine at x.

    fwd : callable(ndarray) -> array-like (calls the implementation; evaluated through R.call)
    h   : scalar or array (per input element) base step
    fscale : magnitude of the intermediates of the forward computation where it exceeds |f| itself (e.g. log(1+exp(.)) and
          2/(1+exp(.))-1 round at eps*1 however small the result is): floor of the rounding scale
    Returns dict(y0, J[(ndir, m)], Res[(ndir, m)], mag[(m,)], h[(ndir,)]) or None (violation recorded).
    Directions: e_0..e_{n-1}, then (complex_dirs) i e_0..i e_{n-1}.
    """
    x = np.array(x, dtype=complex if complex_dirs else float)
    n = x.size
    hv = np.broadcast_to(np.asarray(h, dtype=float), x.shape).ravel()
    fsig = sig + ':forward'
    y0 = _valid(R, R.call(fwd, x.copy(), sig=fsig), fsig, complex_ok=True, what='forward(x)')
    if y0 is None:
        return None
    m = y0.size
    cplx = y0.dtype.kind == 'c'
    units = [1.0] + ([1j] if complex_dirs else [])
    nd = n * len(units)
    J = np.zeros((nd, m), dtype=complex if cplx else float)
    Res = np.zeros((nd, m))
    mag = np.maximum(np.abs(y0).astype(float).ravel(), fscale)
    hs = np.zeros(nd)
    for ui, u in enumerate(units):
        for k in range(n):
            D = []
            for s in (hv[k], hv[k] / 2):
                xp = x.copy()
                xm = x.copy()
                xp.flat[k] = x.flat[k] + s * u
                xm.flat[k] = x.flat[k] - s * u
                se = float(np.real((xp.flat[k] - xm.flat[k]) / (2 * u)))   # the step actually taken
                yp = _valid(R, R.call(fwd, xp, sig=fsig), fsig, shape=y0.shape, complex_ok=True, what='forward(x+h)')
                ym = _valid(R, R.call(fwd, xm, sig=fsig), fsig, shape=y0.shape, complex_ok=True, what='forward(x-h)')
                if yp is None or ym is None or se == 0:
                    if se == 0:
                        R.violation(sig + ':oracle-loose', f'step underflow at element {k}')
                    return None
                D.append((yp.ravel() - ym.ravel()) / (2 * se))
                mag = np.maximum(mag, np.maximum(np.abs(yp).ravel(), np.abs(ym).ravel()))
            d = ui * n + k
            J[d] = (4 * D[1] - D[0]) / 3
            Res[d] = np.abs(D[1] - D[0])
            hs[d] = hv[k]
    return {'y0': y0, 'J': J, 'Res': Res, 'mag': mag, 'h': hs, 'n': n, 'complex': complex_dirs}


def judge(R, jac, ybar, got, sig, what, gscale, extra=0.0):
    """Compare the companion's input gradient with the measured directional derivatives of Re<ybar, f>.

    got : validated ndarray of the input's shape (complex for complex inputs) or None.
    """
    y = np.asarray(ybar).ravel()
    want = np.real(jac['J'] @ np.conj(y))
    ay = np.abs(y)
    tol = (CR * jac['Res'] + KE * EPS * jac['mag'][None, :] / jac['h'][:, None]) @ ay + KE * EPS * np.abs(want) + TINY
    gs = np.broadcast_to(np.asarray(gscale, dtype=float).ravel(), (jac['n'],))
    gs = np.concatenate([gs, gs]) if jac['complex'] else gs
    R.expect(np.all(tol <= 1e-4 * gs * max(float(ay.sum()), TINY)), sig.split(':')[0] + ':oracle-loose',
             f'{what}: finite-difference oracle too loose (max tol {float(tol.max()):.2e}); harness step needs attention')
    if got is None:
        return
    tol = tol + extra                              # rounding of the implementation on reduced-precision data (never part of the guard above)
    g = got.ravel()
    vec = np.concatenate([g.real, g.imag]) if jac['complex'] else g
    R.expect_close(vec, want, tol, sig, what)
    R.nontrivial(bool(np.any(np.abs(want) > tol)))


def rel_condition(R, fun, inputs):
    """Componentwise condition of fun at inputs:  |out| + sum_j |d out / d u_j| |u_j|  (float64, relative bumps of 2^-20).

    eps(float32) times this bounds the error a backward-stable float32 evaluation of the same function may make.
    Returns None when the function cannot be evaluated (reported elsewhere).
    """
    d = 2.0 ** -20
    try:
        base = np.asarray(fun([np.array(u, dtype=float) for u in inputs]), dtype=float).ravel()
        R.tick()
        cond = np.abs(base)
        for i, u in enumerate(inputs):
            u = np.array(u, dtype=float)
            for j in range(u.size):
                if u.flat[j] == 0:
                    continue
                ins = [np.array(v, dtype=float) for v in inputs]
                ins[i].flat[j] = ins[i].flat[j] * (1 + d)
                o = np.asarray(fun(ins), dtype=float).ravel()
                R.tick()
                if o.shape == base.shape:
                    dv = np.abs(o - base) / d
                    cond = cond + np.where(np.isfinite(dv), dv, 0.0)
        return np.where(np.isfinite(cond), cond, 0.0)
    except Exception:   # noqa
        return None


def wdtype(prec):
    return np.float32 if prec == 32 else np.float64


def representable(a, prec):
    """the operating point as the working precision holds it, returned in float64 (so both evaluations see the same numbers)"""
    if isinstance(a, np.ndarray):
        return a.astype(wdtype(prec)).astype(float)
    return float(wdtype(prec)(a))


def with_precision(run):
    """run the case under config.precision = case['prec'] (default 64) and restore 64 afterwards"""
    def wrapped(case, seed, R):
        config.precision = case.get('prec', 64)
        try:
            return run(case, seed, R)
        finally:
            config.precision = 64
    wrapped.__name__ = run.__name__
    return wrapped


def upstreams(shape, seed, salt, complex_=False):
    """every basis element of the output (and i*basis for complex outputs) + one seeded dense array"""
    out = [('e%d' % i, d) for i, d in enumerate(deltas(shape))]
    if complex_:
        out += [('ie%d' % i, 1j * d) for i, d in enumerate(deltas(shape))]
    out.append(('dense', dense(shape, seed, salt, complex_=complex_)))
    return out


def _idx(shape):
    n = int(np.prod(shape))
    return n, np.arange(n, dtype=float)


# ---------------------------------------------------------------------------------------------
# Wavefront.intensity_backprop  /  from_amp_and_phase_backprop_phase

FIELD_PATS = ['zeros', 'real', 'imag', 'small', 'mixed', 'dense', 'large']
_MIX = [0, 1, -1j, 1e-3, 30j, -2 + 0.5j, -1e-3j, 0.25 - 3j, 0, -40]


def field(shape, pat, seed, salt=11):
    n, i = _idx(shape)
    if pat == 'zeros':
        v = np.zeros(n, dtype=complex)
    elif pat == 'real':
        v = ((i - n // 2) * 0.75).astype(complex)
    elif pat == 'imag':
        v = 1j * (i - 1) * 0.5
    elif pat == 'small':
        v = 1e-3 * ((-1) ** i * (1 + i / 4) + 1j * (-1) ** (i // 2) * (1 + i / 3))
    elif pat == 'mixed':
        v = np.array([_MIX[(3 * k + 1) % len(_MIX)] for k in range(n)], dtype=complex)
    elif pat == 'dense':
        return dense(shape, seed, salt)
    elif pat == 'large':
        return 1e3 * dense(shape, seed, salt + 1)
    elif pat == 'ones':
        v = np.ones(n, dtype=complex)
    else:
        raise ValueError(pat)
    return v.reshape(shape)


def run_intensity(case, seed, R):
    shape, pat, wvl = tuple(case['shape']), case['field'], case['wvl']
    dx = 0.25
    E = field(shape, pat, seed)
    sig = 'Wavefront.intensity_backprop:grad'
    scale = max(1.0, float(np.abs(E).max()))
    jac = fd_jacobian(R, lambda a: Wavefront(a, wvl, dx).intensity.data, E, H0 * scale, sig, complex_dirs=True)
    if jac is None:
        return
    wf = Wavefront(E.copy(), wvl, dx, space='psf')
    ups = upstreams(shape, seed, 21) + [('negdense', -np.abs(dense(shape, seed, 22, complex_=False)) - 0.5)]
    for name, Ibar in ups:
        out = R.call(wf.intensity_backprop, Ibar.copy())
        if out is FAILED:
            continue
        if not isinstance(out, Wavefront):
            R.violation(sig + ':type', f'intensity_backprop returned {type(out).__name__}, documented: Wavefront')
            continue
        got = _valid(R, out.data, sig, shape=shape, complex_ok=True, what='Ebar.data')
        judge(R, jac, Ibar, None if got is None else got.astype(complex), sig,
              f'intensity_backprop field={pat}{list(shape)} Ibar={name}', 2 * scale)
        R.expect(out.wavelength == wvl and out.dx == dx and out.space == 'psf', 'Wavefront.intensity_backprop:meta',
                 'wavelength / dx / space not carried over to the gradient wavefront')
    R.expect_equal(wf.data, E, 'Wavefront.intensity_backprop:mutates', 'intensity_backprop changed the field of its own wavefront')
    R.outcome('zero-field' if pat == 'zeros' else 'field')


AMP_PATS = ['ones', 'zeros', 'real', 'imag', 'mixed', 'dense']
PHASE_PATS = ['zeros', 'small', 'quarter', 'dense', 'mixed', 'large']


def phase_nm(shape, pat, wvl, seed):
    n, i = _idx(shape)
    if pat == 'zeros':
        v = np.zeros(n)
    elif pat == 'small':
        v = 1e-3 * (-1) ** i * (1 + i)
    elif pat == 'quarter':
        v = np.full(n, wvl * 1e3 / 4)          # exp(i pi/2): purely imaginary field for a real amplitude
    elif pat == 'dense':
        return 100 * dense(shape, seed, 31, complex_=False)
    elif pat == 'mixed':
        al = [0, wvl * 1e3 / 2, -1e-3, 37.5, -wvl * 1e3, 1e4, -333.0]
        v = np.array([al[(2 * k + 1) % len(al)] for k in range(n)], dtype=float)
    elif pat == 'large':
        v = 1e4 * (-1) ** i * (1 + i / 7)
    else:
        raise ValueError(pat)
    return v.reshape(shape)


def run_phase(case, seed, R):
    shape, apat, ppat, wvl = tuple(case['shape']), case['amp'], case['phase'], case['wvl']
    dx = 0.25
    A = field(shape, apat, seed, salt=41)
    if apat in ('ones', 'zeros', 'real'):
        A = A.real.copy()                        # the ordinary call: real amplitude array
    phi = phase_nm(shape, ppat, wvl, seed)
    k = 2 * np.pi / wvl / 1e3
    sig = 'Wavefront.from_amp_and_phase_backprop_phase:grad'
    amax = max(1.0, float(np.abs(A).max()))
    jac = fd_jacobian(R, lambda p: Wavefront.from_amp_and_phase(A, p, wvl, dx).data, phi, H0 / k, sig)
    if jac is None:
        return
    wf = R.call(Wavefront.from_amp_and_phase, A, phi.copy(), wvl, dx, sig=sig + ':forward')
    if wf is FAILED:
        return
    for name, gbar in upstreams(shape, seed, 42, complex_=True):
        out = R.call(wf.from_amp_and_phase_backprop_phase, Wavefront(gbar.astype(complex), wvl, dx))
        got = _valid(R, out, sig, shape=shape, what='phase gradient')
        judge(R, jac, gbar, got, sig, f'from_amp_and_phase_backprop_phase amp={apat} phase={ppat}{list(shape)} wvl={wvl} gbar={name}',
              k * amax)
    R.outcome('zero-amp' if apat == 'zeros' else 'field')


# ---------------------------------------------------------------------------------------------
# element-wise activations

ACT = {'Tanh': act.Tanh, 'Arctan': act.Arctan, 'Softplus': act.Softplus, 'Sigmoid': act.Sigmoid}
ACT_LAYOUTS = ['vec', 'mat', 'cube', 'int', 'scalar']


def act_points(layout, x0):
    """the whole value alphabet in one array (the nodes are element-wise): 0, +-small, +-moderate, +-large, the
    node's own centre x0 and its neighbours"""
    v = np.array([0.0, 1e-3, -1e-3, 0.5, -1.0, 3.0, -3.0, 40.0, -40.0, x0, x0 + 1e-3, x0 - 0.25])
    if layout == 'vec':
        return v
    if layout == 'mat':
        return v.reshape(3, 4)
    if layout == 'cube':
        return v[::-1].reshape(2, 2, 3).copy()
    if layout == 'int':
        return np.array([[-2, -1, 0], [1, 2, 3]])
    if layout == 'scalar':
        return 0.3
    raise ValueError(layout)


@with_precision
def run_act(case, seed, R):
    cls, a, x0, y0, layout = case['node'], case['a'], case['x0'], case['y0'], case['layout']
    prec = case.get('prec', 64)
    node = ACT[cls](a=a, x0=x0, y0=y0)
    x = act_points(layout, x0)
    if prec == 32:
        x = representable(x, 32)
    xa = np.asarray(x)
    cell = f"a{'=1' if a == 1 else '!=1'}" + (':offset' if (x0 or y0) else '')
    sig = f'{cls}.backprop:' + ('int-input:' if layout == 'int' else 'grad:') + cell
    fwd = (lambda v: node.forward(float(v))) if layout == 'scalar' else node.forward
    jac = fd_jacobian(R, fwd, xa, H0 / a, f'{cls}.backprop:grad', fscale=1.0 + abs(y0))
    if jac is None:
        return
    keep = np.array(xa, copy=True)
    arg = x if layout == 'scalar' else xa
    extra = 0.0
    if prec == 32:
        sig = f'{cls}.backprop:float32:' + cell
        arg = xa.astype(np.float32)
        cond = rel_condition(R, lambda ins: ACT[cls](a=float(ins[1][0]), x0=float(ins[1][1]), y0=float(ins[1][2])).backprop(ins[0]),
                             [xa, np.array([a, x0, y0], dtype=float)])
        extra = K32 * EPS32 * ((0.0 if cond is None else cond) + a * (1 + abs(y0)))
    bp = _valid(R, R.call(node.backprop, arg, sig=sig), sig, shape=xa.shape, what='backprop(x)')
    if prec == 64:
        R.expect_equal(xa, keep, f'{cls}.backprop:mutates-input', 'backprop changed the array passed to it')
    for name, ybar in upstreams(xa.shape, seed, 51):
        judge(R, jac, ybar, None if bp is None else ybar * bp.astype(float), sig,
              f'{cls}(a={a},x0={x0},y0={y0}) layout={layout} prec={prec} ybar={name}', a, extra=np.abs(ybar).ravel() * extra)
    R.outcome(layout if prec == 64 else layout + ':float32')


# ---------------------------------------------------------------------------------------------
# Softmax / GumbelSoftmax / DiscreteEncoder

V7 = [0.0, 1e-3, -1e-3, 1.0, -1.0, 30.0, -30.0]
V5 = [0.0, 1e-3, 1.0, -1.0, -30.0]
V4 = [0.0, 1e-3, 1.0, -30.0]
V3 = [0.0, 1.0, -30.0]


def row_alphabet(K, tier, small=False):
    """every logit row over the value alphabet (ties, all-equal rows, saturated rows, near-ties included)"""
    if small:
        V = {2: V7, 3: V5, 4: V3}.get(K, V3) if tier == 'quick' else {2: V7, 3: V7, 4: V4}.get(K, V3)
    else:
        V = {2: V7, 3: V7, 4: V4}.get(K, V3) if tier == 'quick' else {2: V7, 3: V7, 4: V5}.get(K, V4)
    return [list(r) for r in itertools.product(V, repeat=K)]


def chunk_array(rows, shape, j):
    """array of the given shape whose rows (last axis) are rows[j*N : (j+1)*N] (wrapping at the end)"""
    N = int(np.prod(shape[:-1]))
    L = len(rows)
    return np.array([rows[(j * N + i) % L] for i in range(N)], dtype=float).reshape(shape)


def nchunks(rows, shape):
    return math.ceil(len(rows) / int(np.prod(shape[:-1])))


class FrozenRNG:
    """fixed-answer replacement of GumbelSoftmax.rng: the same uniform draws at every call"""

    def __init__(self, u):
        self.u = u

    def uniform(self, low=0, high=1, size=None):
        size = (size,) if isinstance(size, int) else tuple(size)
        if size != self.u.shape:
            raise ValueError(f'frozen rng asked for shape {size}, expected {self.u.shape}')
        return low + (high - low) * self.u.copy()


def frozen_noise(shape, kind, seed):
    if kind == 'const':
        return np.full(shape, 0.5)               # identical noise everywhere: ties stay ties
    rng = np.random.default_rng([int(seed), 77, *[int(s) for s in shape]])
    u = rng.uniform(size=shape)
    u.flat[0] = 0.0                              # lowest draw the generator can return
    return u


def make_estimator(kind, shape, seed, noise='seeded'):
    if kind == 'softmax':
        return act.Softmax(), 1.0
    tau = float(kind[len('gumbel'):])
    g = act.GumbelSoftmax(tau=tau)
    g.rng = FrozenRNG(frozen_noise(shape, noise, seed))
    return g, tau


def _sm_extra(R, node, x, ybar, gs):
    """float32 allowance for a stateful node: eps32 x (componentwise condition of forward+backprop in x and ybar + natural scale)"""
    def fun(ins):
        node.forward(ins[0])
        return node.backprop(ins[1])
    cond = rel_condition(R, fun, [x, ybar])
    return K32 * EPS32 * ((0.0 if cond is None else cond) + gs * float(np.abs(ybar).max()))


@with_precision
def run_softmax(case, seed, R):
    shape, kind, tier = tuple(case['shape']), case['est'], case['tier']
    prec = case.get('prec', 64)
    rows = row_alphabet(shape[-1], tier, small=(kind != 'softmax'))
    x = chunk_array(rows, shape, case['chunk'])
    node, tau = make_estimator(kind, shape, seed, case.get('noise', 'seeded'))
    cls = type(node).__name__
    sig = f'{cls}.backprop:grad:ndim={len(shape)}' if prec == 64 else f'{cls}.backprop:float32'
    dt = wdtype(prec)
    jac = fd_jacobian(R, node.forward, x, H0 * tau, f'{cls}.backprop:grad', fscale=1.0)
    if jac is None:
        return
    for i, (name, ybar) in enumerate(upstreams(shape, seed, 61)):
        ybar = representable(ybar, prec)
        extra = _sm_extra(R, node, x, ybar, 1 / tau) if prec == 32 else 0.0
        if i == 0 or prec == 32:                   # float64: forward once, then every backprop on the same node state
            out = R.call(node.forward, x.astype(dt), sig=f'{cls}.backprop:grad:forward', hygiene=(prec == 64))
            if out is FAILED:
                return
        got = _valid(R, R.call(node.backprop, ybar.astype(dt), sig=sig, hygiene=(prec == 64)), sig, shape=shape, what='backprop(grad)')
        judge(R, jac, ybar, None if got is None else got.astype(float), sig, f'{cls} tau={tau} prec={prec} x={x.tolist()} ybar={name}', 1 / tau, extra=extra)
    R.outcome('ties' if any(len(set(r)) < len(r) for r in x.reshape(-1, shape[-1]).tolist()) else 'distinct')


LEVELS = {'int3': 3, 'arr0134': [0, 1, 3, 4]}


@with_precision
def run_encoder(case, seed, R):
    lead, kind, lv, tier = tuple(case['lead']), case['est'], case['levels'], case['tier']
    prec = case.get('prec', 64)
    dt = wdtype(prec)
    levels = LEVELS[lv]
    K = levels if isinstance(levels, int) else len(levels)
    shape = lead + (K,)
    rows = row_alphabet(K, tier, small=True)
    x = chunk_array(rows, shape, case['chunk'])
    est, tau = make_estimator(kind, shape, seed)
    enc = act.DiscreteEncoder(est, levels if isinstance(levels, int) else np.array(levels))
    sig = f'DiscreteEncoder.backprop:ndim={len(shape)}' if prec == 64 else 'DiscreteEncoder.backprop:float32'
    lmax = float(K - 1 if isinstance(levels, int) else max(levels))
    jac = fd_jacobian(R, enc.forward, x, H0 * tau, 'DiscreteEncoder.backprop:grad', fscale=lmax)
    if jac is None:
        return
    for i, (name, ybar) in enumerate(upstreams(lead, seed, 71)):
        ybar = representable(ybar, prec)
        extra = _sm_extra(R, enc, x, ybar, lmax / tau) if prec == 32 else 0.0
        if i == 0 or prec == 32:
            out = _valid(R, R.call(enc.forward, x.astype(dt), sig=sig + ':forward', hygiene=(prec == 64)), sig + ':forward', shape=lead, what='forward(x)')
            if out is None:
                return
        got = _valid(R, R.call(enc.backprop, ybar.astype(dt), sig=sig, hygiene=(prec == 64)), sig, shape=shape, what='backprop(grad)')
        judge(R, jac, ybar, None if got is None else got.astype(float), sig,
              f'DiscreteEncoder({kind}, {lv}) prec={prec} x{list(shape)}={x.tolist()} ybar={name}', lmax / tau, extra=extra)
    R.outcome(f'ndim={len(shape)}')


# ---------------------------------------------------------------------------------------------
# cost functions

COSTS = {'mean_square_error': costmod.mean_square_error,
         'bias_and_gain_invariant_error': costmod.bias_and_gain_invariant_error,
         'negative_loglikelihood': costmod.negative_loglikelihood}

MODEL_PATS = {'mean_square_error': ['zeros', 'ramp', 'small', 'large', 'dense', 'eqD'],
              'bias_and_gain_invariant_error': ['ramp', 'negramp', 'small', 'large', 'dense', 'affineD'],
              'negative_loglikelihood': ['half', 'small', 'near1', 'spread', 'mixed', 'dense', 'sat']}
DATA_PATS = {'mean_square_error': ['zeros', 'ramp2', 'dense', 'large'],
             'bias_and_gain_invariant_error': ['ramp2', 'dense', 'offset'],
             'negative_loglikelihood': ['s0', 's1', 's0.3', 'bits', 'dense', 'eqy']}


def cost_data(fn, shape, dpat, seed):
    n, i = _idx(shape)
    if dpat in ('s0', 's1', 's0.3'):
        return float(dpat[1:])
    if dpat == 'zeros':
        v = np.zeros(n)
    elif dpat == 'ramp2':
        v = (i % 3 - 1) * 1.5 + 0.25 * i
    elif dpat == 'dense':
        v = dense(shape, seed, 82, complex_=False).ravel()
        if fn == 'negative_loglikelihood':
            v = 1 / (1 + np.exp(-v))             # targets in (0,1)
    elif dpat == 'large':
        v = -1e3 * (1 + i / 5)
    elif dpat == 'offset':
        v = 1e2 + dense(shape, seed, 83, complex_=False).ravel()
    elif dpat == 'bits':
        v = i % 2
    elif dpat == 'eqy':
        return None
    else:
        raise ValueError(dpat)
    return v.reshape(shape).astype(float)


def cost_model(fn, shape, mpat, D, seed):
    n, i = _idx(shape)
    if mpat == 'zeros':
        v = np.zeros(n)
    elif mpat == 'ramp':
        v = (i - n // 2) * 0.75 + (0.5 if fn != 'mean_square_error' else 0)
    elif mpat == 'negramp':
        v = -0.4 * ((3 * i) % n) - 0.1 * i
    elif mpat == 'small':
        v = 1e-3 * (-1) ** i * (1 + i / 4) if fn != 'negative_loglikelihood' else 1e-3 * (1 + i)
    elif mpat == 'large':
        v = 1e3 * (-1) ** i * (1 + i / 7)
    elif mpat == 'dense':
        v = dense(shape, seed, 81, complex_=False).ravel()
        if fn == 'negative_loglikelihood':
            v = 0.05 + 0.9 / (1 + np.exp(-2 * v))
    elif mpat == 'eqD':
        v = np.array(D, dtype=float).ravel()
    elif mpat == 'affineD':
        v = 2 * np.array(D, dtype=float).ravel() + 3
    elif mpat == 'half':
        v = np.full(n, 0.5)
    elif mpat == 'near1':
        v = 1 - 1e-3 * (1 + i)
    elif mpat == 'spread':
        v = np.linspace(0.1, 0.9, n)
    elif mpat == 'mixed':
        al = [1e-3, 0.5, 0.999, 0.2, 0.9, 0.01]
        v = np.array([al[(k * 5 + 1) % len(al)] for k in range(n)])
    elif mpat == 'sat':                            # saturated predictions, still resolved by float32
        al = [1e-5, 1 - 1e-5, 1e-6, 0.5, 1 - 1e-6, 1e-4, 1 - 1e-3, 3e-6]
        v = np.array([al[k % len(al)] for k in range(n)])
    else:
        raise ValueError(mpat)
    return v.reshape(shape).astype(float)


@with_precision
def run_cost(case, seed, R):
    fn, shape, mpat, dpat, mk = case['fn'], tuple(case['shape']), case['model'], case['data'], case['mask']
    prec = case.get('prec', 64)
    dt = wdtype(prec)
    f = COSTS[fn]
    D = cost_data(fn, shape, dpat, seed)
    M = representable(cost_model(fn, shape, mpat, D, seed), prec)
    if D is None:
        D = M.copy()                               # 'eqy': the optimum of the likelihood
    D = representable(D, prec)
    Dw = D.astype(dt) if isinstance(D, np.ndarray) else D
    mask = None if mk is None else np.array(mk, dtype=bool).reshape(shape)
    sel = np.ones(shape, bool) if mask is None else mask
    sig = f"{fn}:grad:{'unmasked' if mask is None else 'masked'}" + (':float32' if prec == 32 else '')
    nk = int(sel.sum())
    fs = 0.0
    if fn == 'mean_square_error':
        scale = max(1.0, float(np.abs(M).max()), float(np.abs(D).max()))
        h, gs = H0 * scale, scale
    elif fn == 'negative_loglikelihood':
        room = np.minimum(M, 1 - M)
        h, gs, fs = H0 * room, 1.0 / (nk * room), 1.0   # log(1-y) rounds at eps*1 however small the cost is
    else:
        Im, Dm = M[sel], np.asarray(D)[sel]
        den = float(((Im - Im.mean()) ** 2).sum())
        if not (den > 1e-6 * float((Im ** 2).sum()) and float((Dm ** 2).sum()) > 0):
            R.outcome('singular-skipped')         # alpha = 0/0: the cost itself is undefined there
            return
        scale = math.sqrt(den / nk)               # the gain fit sees the model only through its spread under the mask
        h, gs, fs = H0 * scale, 100.0 / scale, 1.0

    def c(m):
        out = f(m, D, mask)
        return out[0]
    jac = fd_jacobian(R, c, M, h, sig.replace(':grad', ':cost'), fscale=fs)     # float64 evaluations of the same function (same config.precision)
    if jac is None:
        return
    if jac['y0'].shape != ():
        R.violation(sig, f'cost is not a scalar: shape {jac["y0"].shape}')
        return
    keep = M.copy()
    Mw = M.astype(dt)
    out = R.call(f, Mw, Dw, mask, sig=sig)
    if out is FAILED:
        return
    extra = 0.0
    if prec == 32:
        def both(ins):
            o = f(ins[0], ins[1] if isinstance(D, np.ndarray) else float(ins[1]), mask)
            return np.concatenate([[o[0]], np.asarray(o[1], dtype=float).ravel()])
        cond = rel_condition(R, both, [M, D])
        gsv = np.broadcast_to(np.asarray(gs, dtype=float), shape).ravel() * (sel.ravel() if mask is not None else 1.0)
        if cond is not None:
            extra = K32 * EPS32 * (cond[1:] + gsv)
            cost32 = _valid(R, out[0] if isinstance(out, tuple) and len(out) == 2 else FAILED, sig, shape=(), what='cost')
            if cost32 is not None:
                R.expect_close(float(cost32), float(jac['y0']), K32 * EPS32 * (cond[0] + fs) + TINY, sig.replace(':grad', ':cost'),
                               'cost returned for float32 data differs from the float64 evaluation of the same function at the same point')
    try:
        grad = out[1]
    except Exception:   # noqa
        R.violation(sig, 'cost function did not return (cost, gradient)')
        return
    got = _valid(R, grad, sig, shape=shape, what='gradient')
    judge(R, jac, np.ones(()), None if got is None else got.astype(float), sig,
          f'{fn} model={mpat} data={dpat} shape={list(shape)} mask={mk} prec={prec}', gs, extra=extra)
    if got is not None and mask is not None:
        R.expect(np.all(got[~mask] == 0), sig + ':outside', 'non-zero gradient on masked-out elements')
    R.expect_equal(Mw, keep.astype(dt), f'{fn}:mutates-input', 'cost function changed the model array')
    R.outcome(('masked' if mask is not None else 'unmasked') + (':float32' if prec == 32 else ''))


def mask_list(shape, tier, minkeep):
    n = int(np.prod(shape))
    out = [None]
    if n <= 4 or (tier == 'thorough' and n <= 6):
        allm = [list(b) for b in itertools.product([1, 0], repeat=n)]
    else:
        allm = [[1] * n] + [[0 if j == i else 1 for j in range(n)] for i in range(n)] \
            + [[1 if j == i else 0 for j in range(n)] for i in range(n)] \
            + [[(j + 1) % 2 for j in range(n)], [j % 2 for j in range(n)],
               [1 if j < n // 2 else 0 for j in range(n)], [0 if j < n // 2 else 1 for j in range(n)]]
    seen = set()
    for mk in allm:
        if sum(mk) >= minkeep and tuple(mk) not in seen:
            seen.add(tuple(mk))
            out.append(mk)
    return out


# ---------------------------------------------------------------------------------------------
# parameter histories: public parameters changed on an EXISTING node (annealing tau, re-centring an activation, new levels)

PARAM_ALPH = {'a': [1, 0.3, 4], 'x0': [0, 0.7, -0.7], 'y0': [0, 0.7, -0.7], 'tau': [1.0, 0.2, 3.0]}
LEVEL_ALPH = {'r3': [0, 1, 2], 'g3': [0, 1, 3], 'n3': [-1, 0, 2], 'r4': [0, 1, 3, 4]}
ACT_BACKGROUNDS = [{'a': 1, 'x0': 0, 'y0': 0}, {'a': 0.3, 'x0': 0.7, 'y0': -0.7}]
# what happens on the node built with p0 before the attribute is set ('f' forward, 'b' backprop, 'set1' attribute := p1, 'set0' := p0)
ORDERS = {'fb-set-fb': ['f', 'b', 'set1'], 'f-set-fb': ['f', 'set1'], 'set-fb': ['set1'],
          'roundtrip': ['f', 'b', 'set1', 'f', 'b', 'set0'],
          'fb-set-b': ['f', 'b', 'set1']}      # last one: stateless backprop(x) straight after the set (element-wise nodes only)


class _Subject:
    """one node under a parameter history: how to build it at a parameter value, set the parameter, run it"""

    def __init__(self, case, seed):
        self.kind = kind = case['kind']
        self.seed = seed
        self.pname = case['param']
        self.p0, self.p1 = case['p0'], case['p1']
        self.case = case
        if kind == 'act':
            self.cls = case['node']
            self.sigbase = self.cls
        elif kind == 'gumbel':
            self.sigbase = 'GumbelSoftmax'
        else:
            self.sigbase = 'DiscreteEncoder'

    # -- operating point / shapes for a parameter value ------------------------------------------------
    def K(self, p):
        c = self.case
        if self.kind == 'gumbel':
            return c['shape'][-1]
        return len(LEVEL_ALPH[p]) if self.pname == 'levels' else len(LEVEL_ALPH[c['levels']])

    def x(self, p):
        c = self.case
        if self.kind == 'act':
            return act_points('mat', 0.7)
        lead = tuple(c['shape'][:-1]) if self.kind == 'gumbel' else tuple(c['lead'])
        K = self.K(p)
        rows = row_alphabet(K, 'quick', small=True)
        shape = lead + (K,)
        return chunk_array(rows, shape, (c['chunk'] * nchunks(rows, shape)) // 3)

    def out_shape(self, p):
        x = self.x(p)
        return x.shape[:-1] if self.kind.startswith('enc') else x.shape

    def scales(self, p):
        """(h, gscale, fscale) at parameter value p"""
        c = self.case
        if self.kind == 'act':
            prm = dict(c['bg'])
            prm[self.pname] = p
            return H0 / prm['a'], prm['a'], 1.0 + abs(prm['y0'])
        if self.kind == 'gumbel':
            return H0 * p, 1 / p, 1.0
        tau = p if self.pname == 'est.tau' else (c['tau'] or 1.0)      # Softmax estimator: no temperature
        lv = LEVEL_ALPH[p] if self.pname == 'levels' else LEVEL_ALPH[c['levels']]
        lmax = float(max(abs(v) for v in lv))
        return H0 * tau, lmax / tau, lmax

    # -- construction and the public setter ----------------------------------------------------------
    def _rng(self, p):
        return FrozenRNG(frozen_noise(self.x(p).shape, self.case.get('noise', 'seeded'), self.seed))

    def build(self, p):
        c = self.case
        if self.kind == 'act':
            prm = dict(c['bg'])
            prm[self.pname] = p
            return ACT[self.cls](**prm)
        if self.kind == 'gumbel':
            g = act.GumbelSoftmax(tau=p)
            g.rng = self._rng(p)
            return g
        tau = p if self.pname == 'est.tau' else c['tau']
        if tau is None:
            est = act.Softmax()
        else:
            est = act.GumbelSoftmax(tau=tau)
            est.rng = self._rng(p)
        lv = LEVEL_ALPH[p] if self.pname == 'levels' else LEVEL_ALPH[c['levels']]
        return act.DiscreteEncoder(est, np.array(lv))

    def set(self, node, p):
        if self.pname == 'est.tau':
            node.est.tau = p
        elif self.pname == 'levels':
            node.levels = np.array(LEVEL_ALPH[p])
            if hasattr(node.est, 'rng'):
                node.est.rng = self._rng(p)     # the frozen draws are per input shape (harness object, not library state)
        else:
            setattr(node, self.pname, p)

    # -- running ---------------------------------------------------------------------------------------
    def backprop(self, R, node, p, ybar, sig):
        """input gradient for upstream ybar (validated ndarray or None)"""
        x = self.x(p)
        if self.kind == 'act':
            bp = _valid(R, R.call(node.backprop, x.copy(), sig=sig, hygiene=False), sig, shape=x.shape, what='backprop(x)')
            return None if bp is None else ybar * bp
        return _valid(R, R.call(node.backprop, ybar.copy(), sig=sig, hygiene=False), sig, shape=x.shape, what='backprop(grad)')


def run_param_history(case, seed, R):
    S = _Subject(case, seed)
    order = case['order']
    node = S.build(S.p0)
    cur = S.p0
    pre = f'{S.sigbase}.backprop:param-history:{S.pname}'
    fsig = f'{S.sigbase}.forward:param-history:{S.pname}'
    for stepname in ORDERS[order]:
        if stepname == 'f':
            R.call(node.forward, S.x(cur).copy(), sig=fsig, hygiene=False)
        elif stepname == 'b':
            S.backprop(R, node, cur, dense(S.out_shape(cur), seed, 91, complex_=False), pre)
        else:
            cur = S.p1 if stepname == 'set1' else S.p0
            S.set(node, cur)
    if R.violations:
        return                                     # the prefix itself failed: already reported
    x = S.x(cur)
    h, gs, fs = S.scales(cur)
    fresh = S.build(cur)
    ups = upstreams(S.out_shape(cur), seed, 92)
    what = f'{S.sigbase} {S.pname}: {S.p0} -> {S.p1} ({order})'
    if order == 'fb-set-b':
        # element-wise nodes: backprop(x) needs no preceding forward; ask for it first, on the state left by the history
        for name, ybar in ups[-1:]:
            gm = S.backprop(R, node, cur, ybar, pre)
            gf = S.backprop(R, fresh, cur, ybar, pre)
            if gm is not None and gf is not None:
                R.expect_close(gm, gf, 8 * EPS * np.abs(gf) + TINY, pre, what + ': backprop straight after the set differs from a fresh node')
    ym = _valid(R, R.call(node.forward, x.copy(), sig=fsig, hygiene=False), fsig, complex_ok=False, what='forward after set')
    yf = _valid(R, R.call(fresh.forward, x.copy(), sig=fsig, hygiene=False), fsig, complex_ok=False, what='forward of a fresh node')
    if ym is None or yf is None:
        return
    R.expect_close(ym, yf, 8 * EPS * np.abs(yf) + TINY, fsig, what + ': forward differs from a node freshly constructed with the new value')
    jac = fd_jacobian(R, node.forward, x, h, pre, fscale=fs)
    if jac is None:
        return
    R.call(node.forward, x.copy(), sig=fsig, hygiene=False)     # state of the node = operating point x again
    for name, ybar in ups:
        gm = S.backprop(R, node, cur, ybar, pre)
        gf = S.backprop(R, fresh, cur, ybar, pre)
        if gm is not None and gf is not None:
            R.expect_close(gm, gf, 8 * EPS * np.abs(gf) + TINY, pre, what + f' ybar={name}: backprop differs from a node freshly constructed with the new value')
        judge(R, jac, ybar, gm, pre, what + f' ybar={name}', gs)
    R.outcome(order)


def param_history_cases():
    def pairs(al):
        return [(a, b) for a in al for b in al if a != b]
    cases = []
    for cls in ACT:
        for bg in ACT_BACKGROUNDS:
            for pn in ('a', 'x0', 'y0'):
                for p0, p1 in pairs(PARAM_ALPH[pn]):
                    for o in ORDERS:
                        cases.append({'kind': 'act', 'node': cls, 'bg': bg, 'param': pn, 'p0': p0, 'p1': p1, 'order': o})
    stateful = [o for o in ORDERS if o != 'fb-set-b']
    for shape in ([2, 3], [3, 2], [2, 2, 3]):
        for nz in ('const', 'seeded'):
            for p0, p1 in pairs(PARAM_ALPH['tau']):
                for o in stateful:
                    for j in range(3):
                        cases.append({'kind': 'gumbel', 'shape': shape, 'noise': nz, 'param': 'tau', 'p0': p0, 'p1': p1, 'order': o, 'chunk': j})
    for lead in ([2], [3], [2, 2]):
        for lv in ('r3', 'r4'):
            for p0, p1 in pairs(PARAM_ALPH['tau']):
                for o in stateful:
                    for j in range(2):
                        cases.append({'kind': 'enc', 'lead': lead, 'levels': lv, 'param': 'est.tau', 'p0': p0, 'p1': p1, 'order': o, 'chunk': j})
    for lead in ([2], [2, 2]):
        for tau in (None, 0.2):
            for p0, p1 in pairs(sorted(LEVEL_ALPH)):
                for o in stateful:
                    cases.append({'kind': 'enc', 'lead': lead, 'tau': tau, 'param': 'levels', 'p0': p0, 'p1': p1, 'order': o, 'chunk': 1})
    return cases


# ---------------------------------------------------------------------------------------------
# instance interleaving: two live instances of a stateful node class, reverse-mode call orders

STATEFUL = ['softmax', 'gumbel', 'enc_softmax', 'enc_gumbel']
# every interleaving of {fwd A, fwd B, bwd A, bwd B} with fwd before bwd per instance, then one instance used twice
INTERLEAVINGS = {'fA,bA,fB,bB': ['fA', 'bA', 'fB', 'bB'], 'fA,fB,bA,bB': ['fA', 'fB', 'bA', 'bB'], 'fA,fB,bB,bA': ['fA', 'fB', 'bB', 'bA'],
                 'fB,fA,bA,bB': ['fB', 'fA', 'bA', 'bB'], 'fB,fA,bB,bA': ['fB', 'fA', 'bB', 'bA'], 'fB,bB,fA,bA': ['fB', 'bB', 'fA', 'bA'],
                 'reuse:fA,bA,fA2,bA2': ['fA', 'bA', 'fA2', 'bA2'], 'reuse:fA,fA2,bA2': ['fA', 'fA2', 'bA2'],
                 'reuse:fA,bA,bA': ['fA', 'bA', 'bA']}


def _make_stateful(kind, shape, seed, which):
    """instance 'A' or 'B' of the class: same class and input shape, different public parameters, own frozen noise"""
    tau = {'A': 0.7, 'B': 1.3}[which]
    lv = {'A': [0, 1, 3], 'B': [0, 2, 5]}[which]

    def gumbel():
        g = act.GumbelSoftmax(tau=tau)               # constructed exactly as a user does: defaults for everything else
        rng = np.random.default_rng([int(seed), 78, ord(which), *[int(v) for v in shape]])
        g.rng = FrozenRNG(rng.uniform(size=shape))
        return g
    if kind == 'softmax':
        return act.Softmax()
    if kind == 'gumbel':
        return gumbel()
    if kind == 'enc_softmax':
        return act.DiscreteEncoder(act.Softmax(), np.array(lv))
    return act.DiscreteEncoder(gumbel(), np.array(lv))


def run_interleave(case, seed, R):
    kind, shape, order = case['kind'], tuple(case['shape']), case['order']
    cls = {'softmax': 'Softmax', 'gumbel': 'GumbelSoftmax'}.get(kind, 'DiscreteEncoder')
    sig = f'{cls}.backprop:interleaved-instances' if not order.startswith('reuse') else f'{cls}.backprop:instance-reuse'
    rows = row_alphabet(shape[-1], 'quick', small=True)
    nch = nchunks(rows, shape)
    xs = {'A': chunk_array(rows, shape, (case['xa'] * nch) // 4), 'B': chunk_array(rows, shape, (case['xb'] * nch) // 4 + 1),
          'A2': chunk_array(rows, shape, (case['xb'] * nch) // 4 + 2)}
    oshape = shape[:-1] if kind.startswith('enc') else shape
    ys = {k: dense(oshape, seed, 95 + i, complex_=False) for i, k in enumerate(('A', 'B', 'A2'))}

    # reference: an instance of the same configuration run alone (forward immediately followed by backprop), before A and B exist
    ref = {}
    for k in ('A', 'B', 'A2'):
        n0 = _make_stateful(kind, shape, seed, k[0])
        f0 = _valid(R, R.call(n0.forward, xs[k].copy(), sig=sig + ':alone', hygiene=False), sig + ':alone', shape=oshape, what='forward alone')
        b0 = _valid(R, R.call(n0.backprop, ys[k].copy(), sig=sig + ':alone', hygiene=False), sig + ':alone', shape=shape, what='backprop alone')
        if f0 is None or b0 is None:
            return
        ref[k] = (f0.copy(), b0.copy())
    nodes = {'A': _make_stateful(kind, shape, seed, 'A'), 'B': _make_stateful(kind, shape, seed, 'B')}
    last = {}
    for step in INTERLEAVINGS[order]:
        op, k = step[0], step[1:]
        node = nodes[k[0]]
        if op == 'f':
            out = _valid(R, R.call(node.forward, xs[k].copy(), sig=sig, hygiene=False), sig, shape=oshape, what=f'forward {k}')
            last[k[0]] = k
            if out is not None:
                R.expect_close(out, ref[k][0], 8 * EPS * np.abs(ref[k][0]) + TINY, sig.replace('backprop', 'forward'),
                               f'{order}: forward of instance {k} differs from the same instance run alone')
        else:
            k = last.get(k[0], k)
            got = _valid(R, R.call(node.backprop, ys[k].copy(), sig=sig, hygiene=False), sig, shape=shape, what=f'backprop {k}')
            if got is not None:
                R.expect_close(got, ref[k][1], 8 * EPS * np.abs(ref[k][1]) + 8 * EPS * float(np.abs(ref[k][1]).max()) + TINY, sig,
                               f'{kind} order {order}: backprop of instance {k} differs from the same instance run alone (state shared between instances or calls?)')
                R.nontrivial(bool(np.any(ref[k][1] != 0)))
    R.outcome(order)


# ---------------------------------------------------------------------------------------------
# plan

def units(tier, seed):
    q = tier == 'quick'
    wshapes = [[2, 2], [2, 3], [3, 3]] + ([] if q else [[3, 2], [1, 1], [1, 4], [4, 3]])
    int_cases = [{'shape': s, 'field': p, 'wvl': w} for s in wshapes for p in FIELD_PATS for w in (0.5, 1.0)]
    ph_cases = [{'shape': s, 'amp': a, 'phase': p, 'wvl': w}
                for s in wshapes for a in AMP_PATS for p in PHASE_PATS for w in (0.5, 1.0)]
    act_cases = [{'node': c, 'a': a, 'x0': x0, 'y0': y0, 'layout': lay}
                 for lay in ACT_LAYOUTS for c in ACT for a in (1, 0.3, 4)
                 for x0 in (0, 0.7, -0.7) for y0 in (0, 0.7, -0.7)]
    act_cases += [dict(c, prec=32) for c in act_cases if c['layout'] in ('vec', 'mat', 'cube')]
    sm_shapes = [[1, 2], [2, 2], [3, 2], [2, 3], [3, 3], [4, 3], [2, 4], [4, 4],
                 [2, 2, 2], [2, 3, 2], [2, 2, 3], [3, 2, 3], [2, 3, 3], [2, 2, 4]] + ([] if q else [[1, 5], [3, 1, 3], [2, 1, 2, 3]])
    sm_cases = [{'shape': s, 'est': 'softmax', 'tier': tier, 'chunk': j}
                for s in sm_shapes for j in range(nchunks(row_alphabet(s[-1], tier), s))]
    p32_shapes = [[2, 3], [3, 2], [2, 2, 3]]
    sm_cases += [dict(c, prec=32) for c in sm_cases if c['shape'] in p32_shapes]
    gs_shapes = [[2, 2], [3, 2], [2, 3], [3, 3], [2, 4], [2, 2, 2], [2, 3, 2], [3, 2, 3], [2, 3, 3]]
    gs_cases = [{'shape': s, 'est': f'gumbel{tau}', 'noise': nz, 'tier': tier, 'chunk': j}
                for s in gs_shapes for tau in (1.0, 0.2) for nz in ('const', 'seeded')
                for j in range(nchunks(row_alphabet(s[-1], tier, small=True), s))]
    gs_cases += [dict(c, prec=32) for c in gs_cases if c['shape'] in p32_shapes]
    leads = [[1], [2], [3], [4], [2, 2], [2, 3], [3, 2], [3, 3], [2, 4], [4, 4], [1, 3], [2, 1, 2]]
    enc_cases = [{'lead': ld, 'est': e, 'levels': lv, 'tier': tier, 'chunk': j}
                 for ld in leads for e in ('softmax', 'gumbel1.0', 'gumbel0.2') for lv in LEVELS
                 for j in range(nchunks(row_alphabet(3 if lv == 'int3' else 4, tier, small=True), ld + [0]))]
    enc_cases += [dict(c, prec=32) for c in enc_cases if c['lead'] in ([2], [2, 2])]
    cshapes = [[2, 2], [2, 3], [4], [2, 2, 2]] + ([] if q else [[3, 3], [1, 5]])
    cost_cases = [{'fn': fn, 'shape': s, 'model': mp, 'data': dp, 'mask': mk}
                  for fn in COSTS for s in cshapes for mk in mask_list(s, tier, 2 if fn.startswith('bias') else 1)
                  for mp in MODEL_PATS[fn] for dp in DATA_PATS[fn]]
    cost_cases += [dict(c, prec=32) for c in cost_cases]
    il_cases = [{'kind': k, 'shape': s, 'order': o, 'xa': xa, 'xb': xb}
                for k in STATEFUL for s in ([2, 3], [3, 3], [2, 2, 3]) for o in INTERLEAVINGS for xa, xb in ((0, 1), (2, 0), (3, 3))]
    p32 = ' Also under config.precision=32 on float32 data (operating point = the float32-representable values): the gradient returned for float32 data ' \
          'must equal the float64 finite-difference derivative of the SAME function (same config.precision, so precision-dependent guards are active) within the ' \
          'finite-difference tolerance + 100 eps32 x (componentwise condition |g| + sum|dg/du_j||u_j| measured in float64 + natural gradient scale).'
    step = 'Jacobian of the real forward routine by Richardson-extrapolated central differences (h, h/2; h = 2^-10 of the natural ' \
           'input scale) along EVERY basis direction of the input; tolerance = 4 x observed extrapolation residual + 1e3 eps |f|/h; ' \
           'upstream gradients: every basis element of the output + one seeded dense array. '
    return [
        ScopeUnit('node_intensity', int_cases, run_intensity,
                  step + f'Wavefront.intensity_backprop, convention dc = Re<Ebar, dE>: complex fields of shapes {wshapes} x patterns {FIELD_PATS} '
                  '(zeros, purely real incl. 0 and negatives, purely imaginary, +-1e-3, mixed magnitudes, seeded dense, 1e3 x dense) x wavelength {0.5,1}; '
                  'directions e_k and i e_k; Ibar = every delta + dense + negative dense; non-trivial when some directional derivative exceeds its tolerance'),
        ScopeUnit('node_phase', ph_cases, run_phase,
                  step + f'Wavefront.from_amp_and_phase_backprop_phase: shapes {wshapes} x amplitude patterns {AMP_PATS} (real and complex) x phase patterns '
                  f'{PHASE_PATS} in nm (0, +-1e-3, quarter wave = purely imaginary field, +-1e4 = tens of waves, seeded) x wavelength {{0.5,1}}; '
                  'gbar = every e_k, every i e_k and a dense complex array carried in a Wavefront'),
        ScopeUnit('node_act', act_cases, run_act,
                  step + 'Tanh/Arctan/Softplus/Sigmoid x a in {1,0.3,4} x x0 in {0,+-0.7} x y0 in {0,+-0.7} x layout {1-D, 2-D, 3-D, integer 2-D array, python scalar}; '
                  'every array holds the whole value alphabet {0,+-1e-3,0.5,-1,+-3,+-40,x0,x0+1e-3,x0-0.25}; verified quantity ybar*backprop(x) '
                  '(backprop takes the forward input and returns the local derivative, as test_activation.py asserts); input array must not be modified.' + p32),
        ScopeUnit('node_softmax', sm_cases, run_softmax,
                  step + f'Softmax over the last axis: shapes {sm_shapes}; for every shape EVERY logit row of the value alphabet '
                  '{0,+-1e-3,+-1,+-30}^K (K=4: {0,1e-3,1,-30}^4) appears in some array (rows are packed consecutively, so rows of one array differ): '
                  'all ties, near-ties and saturated rows are included; forward once, then backprop for every upstream gradient on the same node'),
        ScopeUnit('node_gumbel', gs_cases, run_softmax,
                  step + f'GumbelSoftmax with .rng replaced by a fixed-answer object (constant draws 0.5 -> ties preserved; seeded draws incl. the value 0): '
                  f'shapes {gs_shapes} x tau in {{1,0.2}} x every logit row of the alphabet (K=2: 7 values, K=3: 5, K=4: 3 in quick)'),
        ScopeUnit('node_encoder', enc_cases, run_encoder,
                  step + f'DiscreteEncoder over estimators {{Softmax, GumbelSoftmax(1), GumbelSoftmax(0.2) frozen}} x levels {{3 (=arange(3)), [0,1,3,4]}} x leading '
                  f'shapes {leads} (2-D, 3-D incl. B==K and B!=K, 4-D inputs) x every logit row of the alphabet; upstream = every delta of the leading shape + dense'),
        ScopeUnit('node_cost', cost_cases, run_cost,
                  step + f'mean_square_error / bias_and_gain_invariant_error / negative_loglikelihood: shapes {cshapes} x mask in {{None}} + every non-empty subset '
                  '(n<=4; larger: full, each single exclusion, each single element, alternating, halves) x model patterns x data patterns (incl. the optimum, '
                  'zeros, +-1e-3, +-1e3, scalar targets); every basis direction of the model incl. masked-out elements (gradient must be exactly 0 there); '
                  'operating points where the cost itself is 0/0 (constant model under the mask for the gain fit) are skipped and counted; likelihood predictions include the '
                  'saturated alphabet {1e-4,1e-5,3e-6,1e-6,1-1e-3,1-1e-5,1-1e-6}; float32: the returned cost must also match the float64 evaluation.' + p32),
        ScopeUnit('node_interleave', il_cases, run_interleave,
                  'two live instances A, B of every stateful node class (Softmax, GumbelSoftmax with frozen noise, DiscreteEncoder over either), equal input shapes '
                  '(2-D non-square, square, 3-D), different parameters (tau 0.7/1.3, levels) and operating points (3 pairs of row-alphabet chunks): '
                  'ALL 6 interleavings of {fwd A, fwd B, bwd A, bwd B} with forward before backprop per instance, plus one instance used twice '
                  f'({sorted(k for k in INTERLEAVINGS if k.startswith("reuse"))}: the latest forward defines the state; a repeated backprop repeats its answer); '
                  'every forward and backprop must equal (8 eps) that of an identically configured instance run alone -- the alone run is verified against '
                  'directional derivatives by the other units; nodes are constructed with defaults exactly as a user does'),
        ScopeUnit('node_param_history', param_history_cases(), run_param_history,
                  step + 'public parameters changed on an EXISTING node: Tanh/Arctan/Softplus/Sigmoid .a/.x0/.y0 (two backgrounds), GumbelSoftmax.tau, '
                  'DiscreteEncoder.est.tau and DiscreteEncoder.levels (same and different K; Softmax and frozen Gumbel estimator); EVERY ordered pair (p0,p1), p0!=p1, of '
                  f'the alphabets {PARAM_ALPH} / levels {LEVEL_ALPH} x orderings {sorted(ORDERS)} (forward/backprop at p0 before the set, forward only, nothing, '
                  'p0->p1->p0 round trip, backprop straight after the set for the stateless element-wise nodes); after the last set the node must (i) give the forward '
                  'and the backprop of a node freshly constructed with that value (8 eps) and (ii) its backprop must match the measured directional derivatives of its own forward'),
    ]
