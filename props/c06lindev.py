"""scratch entry for developing props/c06_linear.py (to be deleted)"""
ID = 'C06'
ASSUMPTIONS = []


def plan(tier, seed):
    from props import c06_linear
    return c06_linear.units(tier, seed)
