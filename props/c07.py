"""C07 -- polynomial bases equal their mathematical definitions and are orthogonal.

Reference model (mc/ref_poly.py): the textbook *definitions* evaluated in exact rational arithmetic at the
exact rational value of every floating-point evaluation point and shape parameter:

* Jacobi: explicit sum with generalised binomials (DLMF 18.5.8); Legendre, T_n, U_n, V_n, W_n, both Hermite,
  generalised Laguerre, both Dickson: their own explicit sums (never through Jacobi);
* Zernike: radial factorial formula x cos/sin(m t) x sqrt(2(n+1)/(1+delta_m0));
* Qcon = u^4 P_n^(0,4)(2u^2-1); XY = x^m y^n; Hopkins = cos(a t) | sin(|a| t) r^b H^c;
* Qbfs and Q2d have no closed form: they are *defined* as the graded bases u^2(1-u^2) q_n(u^2) resp.
  u^m q_n^m(u^2) cos/sin(m t) whose slopes / gradients are orthonormal under Forbes' Chebyshev-weighted inner
  product; the reference performs that Gram-Schmidt exactly in rationals (moments of the weight are rational
  multiples of pi), with Forbes' sign convention q_n(0) > 0.  In addition the slope / gradient Gram matrix of the
  *implementation's* output is computed directly (Chebyshev interpolation of the value routine, analytic
  differentiation of the interpolant, Gauss-Chebyshev quadrature of exact degree) and must be the identity.

Orthogonality: Gram matrices of the implementation's values under Gauss-Jacobi / -Hermite / -Laguerre rules of exact
degree equal diag(h_n) with the textbook h_n; Zernike: (1/pi) int Z Z' = delta (unit RMS) with Gauss-Legendre in r^2
times the trapezoid rule in theta (both exact for the degrees involved).

History: every configuration is evaluated cold (all lru caches cleared) and warm (after every other configuration of
a collision alphabet, and after the whole enumeration in three different orders); results must be bit-identical.

Tolerances: K (n+1) eps cond, cond = running max over orders k <= n of |p_k(x)| (magnitude of the quantities the
recurrences carry), eps of the *input* dtype.  K was chosen from the measured worst ratio on the pinned tree over the
whole thorough scope and seeds 0..3 (see MEASURED below) with a margin >= 30x.
"""
import functools
import json
import math
import os
from fractions import Fraction as F

import numpy as np
from numpy.polynomial import chebyshev as C
from scipy import special as sps

from mc import ScopeUnit, FAILED
from mc import ref_poly as rp
from mc.state import reset_poly_caches, reset_all

from prysm import polynomials as pp

ID = 'C07'
ASSUMPTIONS = [
    'scipy.special.roots_jacobi / roots_hermite / roots_hermitenorm / roots_genlaguerre / roots_legendre deliver Gauss nodes and weights to ~1e-13',
    'Chebyshev polynomials of the third / fourth kind follow Mason & Handscomb (V_n(1) = 1, W_n(1) = 2n+1), which is the naming the library documents',
    'sign convention of the Q polynomials: q_n(0) > 0 (Forbes\' tabulated Q_0..Q_3); slope orthonormality itself cannot see a sign',
    'xy(..., cartesian_grid=True) is only exercised on genuine cartesian grids (its stated precondition); scalars and scattered points use cartesian_grid=False',
    'float32 inputs: the result may be float32 or float64; it is compared at float32 resolution against the exact value at the float32 point',
]

EPS64 = float(np.finfo(np.float64).eps)
EPS32 = float(np.finfo(np.float32).eps)

# MEASURED on the pinned tree (C07_MEASURE=<file> ./check C07 [--tier thorough], seeds 0..3, both tiers), worst
# err / ((n+1) eps cond) over every family, order, point and input form:
#   float64: 8.05 (laguerre), 7.9 (jacobi), <= 2 elsewhere;  float32: 6.5 (Qbfs), 5.0 (laguerre), <= 4.7 elsewhere  -> K = 256 (>= 32x)
#   normalised Gram entries: <= 4.3e-11 (Gauss-Jacobi, beta = -0.9, N = 40; quadrature-node limited), <= 1e-13 elsewhere -> 2e-9 (47x)
#   Zernike Gram: 8.7e-14 -> 1e-10;  Qbfs slope Gram: 3e-14 ij -> 1e-10 ij;  Q2d gradient Gram: 5.8e-12 ij -> 1e-9 ij (170x)
#   Qbfs / Q2d structure residuals: 3e-14 / < 5e-14 of the coefficient scale -> 1e-11 / 1e-10
# defects of interest (a wrong recurrence coefficient, a wrong norm) give 1e-6 .. 1 relative deviations.
K_DEFAULT = 256

_MEASURE = os.environ.get('C07_MEASURE')


def f32(v):
    return float(np.float32(v))


def ncls(n):
    return f'n={n}' if n <= 3 else 'n>=4'


def _measure(sig, ratio):
    if _MEASURE:
        with open(_MEASURE, 'a') as f:
            f.write(json.dumps({'sig': sig, 'ratio': float(ratio)}) + '\n')


def _close(R, got, want, cond, n, eps, K, sig, what):
    """expect |got-want| <= K (n+1) eps cond elementwise."""
    want = np.asarray(want, dtype=float)
    cond = np.asarray(cond, dtype=float)
    tol = K * (n + 1) * eps * cond
    ok = R.expect_close(got, want, tol, sig, what)
    if _MEASURE and got is not FAILED:
        try:
            g = np.asarray(got, dtype=float)
            if g.shape == want.shape:
                den = (n + 1) * eps * cond
                err = np.abs(g - want)
                with np.errstate(divide='ignore', invalid='ignore'):
                    r = np.where(den > 0, err / den, np.where(err > 0, np.inf, 0))
                _measure(sig, np.max(r) if r.size else 0)
        except Exception:   # noqa
            pass
    return ok


def _arr(R, out, shape, sig, what):
    """Validated float64 ndarray of the expected shape, or None (and a violation)."""
    if out is FAILED:
        return None
    try:
        a = np.asarray(out)
        if a.shape != tuple(shape) or a.dtype.kind not in 'fiu':
            R.violation(sig, f'{what}: output shape {a.shape} dtype {a.dtype}, expected shape {tuple(shape)} real')
            return None
        a = a.astype(float)
        if not np.all(np.isfinite(a)):
            R.violation(sig, f'{what}: non-finite output')
            return None
        return a
    except Exception as e:   # noqa
        R.violation(sig, f'{what}: unusable output ({type(e).__name__}: {e})')
        return None


# ---------------------------------------------------------------------------------------------
# generic definitional sweep over orders 0..N at a fixed point set, in all input forms

def sweep(R, fam, N, impl, ref, cols, n32, K=K_DEFAULT, orders=None):
    """impl(n, *coords) -> values;  ref(n) -> (exact values, magnitudes) as float arrays over the points.

    cols: tuple of equal-length lists of python floats, one list per coordinate argument; the first n32 points are
    exactly representable in float32 in every coordinate.
    """
    P = len(cols[0])
    a1 = [np.array(c, dtype=float) for c in cols]
    forms = [('1d', a1, (P,)),
             ('2d', [a.reshape(2, P // 2) for a in a1], (2, P // 2)),
             ('3d', [a.reshape(2, 1, P // 2) for a in a1], (2, 1, P // 2))]
    a32 = [np.array(c[:n32], dtype=np.float32) for c in cols]
    run = np.zeros(P)
    for n in (orders if orders is not None else range(N + 1)):
        vals, mags = ref(n)
        run = np.maximum(run, mags)
        cls = ncls(n)
        for kind, args, shape in forms:
            got = R.call(impl, n, *args, sig=f'{fam}:{kind}:{cls}:exception')
            _close(R, got, vals.reshape(shape), run.reshape(shape), n, EPS64, K, f'{fam}:{kind}:{cls}',
                   f'{fam} order {n} on {kind} float64 array')
        for i in range(P):
            got = R.call(impl, n, *[c[i] for c in cols], sig=f'{fam}:scalar:{cls}:exception')
            _close(R, got, vals[i], run[i], n, EPS64, K, f'{fam}:scalar:{cls}',
                   f'{fam} order {n} at scalar point {[c[i] for c in cols]}')
        ok32 = run[:n32] < 1e30      # stay far inside the float32 range
        if ok32.any():
            got = R.call(impl, n, *[a[ok32] for a in a32], sig=f'{fam}:f32:{cls}:exception')
            _close(R, got, vals[:n32][ok32], run[:n32][ok32], n, EPS32, K, f'{fam}:f32:{cls}',
                   f'{fam} order {n} on float32 array')
    R.nontrivial()


def gram(R, fam, N, impl, nodes, weights, h, K=256, Kabs=2e-9):
    """sum_k w_k p_i(x_k) p_j(x_k) / sqrt(h_i h_j) == delta_ij for i,j <= N."""
    V = []
    for n in range(N + 1):
        out = R.call(impl, n, nodes, sig=f'{fam}:gram:exception')
        a = _arr(R, out, nodes.shape, f'{fam}:gram:output', f'{fam} order {n} at the quadrature nodes')
        if a is None:
            return
        V.append(a)
    V = np.array(V)
    G = (V * weights) @ V.T
    h = np.asarray(h, dtype=float)
    Gn = G / np.sqrt(np.outer(h, h))
    ij = np.add.outer(np.arange(N + 1), np.arange(N + 1)) + 1
    tol = K * EPS64 * ij + Kabs
    d = np.diag(Gn)
    off = Gn - np.diag(d)
    R.expect_close(d, np.ones(N + 1), np.diag(tol), f'{fam}:gram:norm', f'{fam}: squared norms / textbook h_n')
    R.expect_close(off, np.zeros_like(off), tol, f'{fam}:gram:orthogonality', f'{fam}: normalised off-diagonal Gram entries')
    if _MEASURE:
        _measure(f'{fam}:gram:norm', np.max(np.abs(d - 1) / (EPS64 * np.diag(ij))))
        _measure(f'{fam}:gram:orthogonality', np.max(np.abs(off) / (EPS64 * ij)))
    R.nontrivial(N >= 1)


def _refs(fn, pts):
    """ref(n) for single-coordinate families: fn(n, Fraction) exact."""
    fr = [rp.frac(p) for p in pts]

    def ref(n):
        v = np.array([float(fn(n, x)) for x in fr])
        return v, np.abs(v)
    return ref


# ---------------------------------------------------------------------------------------------
# point sets (first N32 of each are float32-exact)

_FIXED = {
    'I': [-1.0, 1.0, 0.0, 0.5, -0.75, f32(1 / 3), f32(-0.3), f32(0.9), f32(0.999), f32(-0.97)],
    'H': [0.0, 0.5, -1.0, 3.0, f32(0.3), f32(1.7), f32(-2.6), f32(-4.2)],
    'L': [0.0, 0.5, 1.0, 6.0, f32(2.3), f32(0.1), f32(11.7), f32(25.3)],
    'D': [-2.0, -1.0, 0.0, 0.5, 2.0, f32(0.3), f32(1.7), f32(-2.6)],
    'U': [0.0, 1.0, 0.5, 0.25, 0.75, f32(0.1), f32(0.3), f32(0.7), f32(0.9), f32(0.99)],
    'X': [-1.5, 1.0, 0.0, 0.5, -0.75, f32(1 / 3), f32(-0.3), f32(0.9), f32(1.2), f32(-0.97)],
    'Y': [0.5, -1.0, 1.25, 0.0, f32(0.7), f32(-1.1), -0.25, f32(0.45), f32(-0.6), 1.0],
    'HF': [1.0, 0.0, 0.5, -0.5, 0.25, f32(0.7), f32(0.3), 0.75, f32(-0.9), -1.0],
}
_RANGE = {'I': (-1, 1), 'H': (-3, 3), 'L': (0, 12), 'D': (-2.5, 2.5), 'U': (0, 1), 'X': (-1.5, 1.5), 'Y': (-1.5, 1.5), 'HF': (-1, 1)}
PTS_T = [0.0, 0.5, 1.25, 3.0, -2.75, 0.375, 2.0, -1.5, 4.5, 0.125, 5.25, -0.625]     # dyadic: m*t exact in float32 too


@functools.lru_cache(None)
def pts(kind, seed):
    """The fixed points (end points, 0, dyadic and float32-exact rationals) plus two seeded generic doubles of the domain."""
    rng = np.random.default_rng([int(seed), sum(map(ord, kind))])
    lo, hi = _RANGE[kind]
    return _FIXED[kind] + [float(v) for v in rng.uniform(lo, hi, 2)]


N32 = {'I': 10, 'H': 8, 'L': 8, 'D': 8, 'U': 10}


# ---------------------------------------------------------------------------------------------
# Jacobi

def jac_cls(a, b):
    s = a + b
    return 'a+b=0' if s == 0 else ('a+b=-1' if s == -1 else 'gen')


def jacobi_h(N, a, b):
    s = a + b
    h0 = 2.0 ** (s + 1) * math.gamma(a + 1) * math.gamma(b + 1) / math.gamma(s + 2)
    fa, fb, fs = F(a), F(b), F(a) + F(b)
    out = [h0]
    pa = pb = F(1)
    ps = F(1)          # (s+2)_(n-1)
    nf = 1
    for n in range(1, N + 1):
        pa *= fa + n
        pb *= fb + n
        if n >= 2:
            ps *= fs + n
        nf *= n
        out.append(h0 * float(pa * pb / ((2 * n + fs + 1) * ps * nf)))
    return out


def run_jacobi(case, seed, R):
    a, b, N = case['alpha'], case['beta'], case['N']
    fam = f'jacobi[{case.get("tag") or jac_cls(a, b)}]'
    fa, fb = F(a), F(b)
    sweep(R, fam, N, lambda n, x: pp.jacobi(n, a, b, x), _refs(lambda n, x: rp.jacobi(n, fa, fb, x), pts('I', seed)), (pts('I', seed),), N32['I'])
    x, w = sps.roots_jacobi(N + 1, a, b)
    gram(R, fam, N, lambda n, x: pp.jacobi(n, a, b, x), x, w, jacobi_h(N, a, b))
    R.outcome('jacobi')


# ---------------------------------------------------------------------------------------------
# classical one-parameter-free families, Laguerre, Dickson

def _fact(n):
    return float(math.factorial(n))


CLASSICAL = {
    # name: (impl, exact ref, point-set kind, quadrature(N) -> nodes, weights, h(n))
    'legendre': (pp.legendre, rp.legendre, 'I', lambda N: sps.roots_legendre(N + 1), lambda n: 2.0 / (2 * n + 1)),
    'cheby1': (pp.cheby1, rp.cheby1, 'I', lambda N: sps.roots_jacobi(N + 1, -.5, -.5), lambda n: math.pi if n == 0 else math.pi / 2),
    'cheby2': (pp.cheby2, rp.cheby2, 'I', lambda N: sps.roots_jacobi(N + 1, .5, .5), lambda n: math.pi / 2),
    'cheby3': (pp.cheby3, rp.cheby3, 'I', lambda N: sps.roots_jacobi(N + 1, -.5, .5), lambda n: math.pi),
    'cheby4': (pp.cheby4, rp.cheby4, 'I', lambda N: sps.roots_jacobi(N + 1, .5, -.5), lambda n: math.pi),
    'hermite_H': (pp.hermite_H, rp.hermite_H, 'H', lambda N: sps.roots_hermite(N + 1), lambda n: math.sqrt(math.pi) * 2.0 ** n * _fact(n)),
    'hermite_He': (pp.hermite_He, rp.hermite_He, 'H', lambda N: sps.roots_hermitenorm(N + 1), lambda n: math.sqrt(2 * math.pi) * _fact(n)),
}


def run_classical(case, seed, R):
    fam, N = case['family'], case['N']
    if fam in CLASSICAL:
        impl, ref, kind, quad, h = CLASSICAL[fam]
        sweep(R, fam, N, impl, _refs(ref, pts(kind, seed)), (pts(kind, seed),), N32[kind])
        x, w = quad(N)
        gram(R, fam, N, impl, x, w, [h(n) for n in range(N + 1)])
    elif fam == 'laguerre':
        a = case['alpha']
        fa = F(a)
        impl = lambda n, x: pp.laguerre(n, a, x)   # noqa
        sweep(R, fam, N, impl, _refs(lambda n, x: rp.laguerre(n, fa, x), pts('L', seed)), (pts('L', seed),), N32['L'])
        x, w = sps.roots_genlaguerre(N + 1, a)
        gram(R, fam, N, impl, x, w, [math.exp(math.lgamma(n + a + 1) - math.lgamma(n + 1)) for n in range(N + 1)])
    else:
        a = case['alpha']
        fa = F(a)
        f = pp.dickson1 if fam == 'dickson1' else pp.dickson2
        g = rp.dickson1 if fam == 'dickson1' else rp.dickson2
        sweep(R, fam, N, lambda n, x: f(n, a, x), _refs(lambda n, x: g(n, fa, x), pts('D', seed)), (pts('D', seed),), N32['D'])
    R.outcome(fam)


# ---------------------------------------------------------------------------------------------
# Zernike

def run_zernike(case, seed, R):
    am, norm, N = case['am'], case['norm'], case['N']
    fr = [rp.frac(p) for p in pts('U', seed)]
    for m in ([0] if am == 0 else [am, -am]):
        trig = np.array([math.cos(m * t) if m >= 0 else math.sin(am * t) for t in PTS_T])

        def ref(k, m=m, trig=trig):
            n = am + 2 * k
            rad = np.array([float(rp.zernike_radial(n, am, x)) for x in fr])
            if norm:
                rad = rad * math.sqrt(rp.zernike_norm2(n, m))
            return rad * trig, np.abs(rad)
        fam = f'zernike[{"m=0" if m == 0 else ("m>0" if m > 0 else "m<0")},{"norm" if norm else "raw"}]'
        sweep(R, fam, (N - am) // 2, lambda k, r, t, m=m: pp.zernike_nm(am + 2 * k, m, r, t, norm=norm), ref, (pts('U', seed), PTS_T), N32['U'])
    R.outcome('zernike')


def run_zernike_gram(case, seed, R):
    N, norm = case['N'], case['norm']
    xi, wi = sps.roots_legendre(N + 1)
    s = (1 + xi) / 2
    nt = 2 * N + 1
    th = 2 * np.pi * np.arange(nt) / nt
    r = np.repeat(np.sqrt(s), nt)
    t = np.tile(th, N + 1)
    w = np.repeat(wi / 2 / 2, nt) * (2 * np.pi / nt) / np.pi      # (1/pi) r dr dt,  r dr = ds/2,  ds = dxi/2
    nms = [(n, m) for n in range(N + 1) for m in range(-n, n + 1, 2)]
    V = []
    for n, m in nms:
        out = R.call(pp.zernike_nm, n, m, r, t, norm=norm, sig='zernike:gram:exception')
        a = _arr(R, out, r.shape, 'zernike:gram:output', f'zernike_nm({n},{m}) on the quadrature grid')
        if a is None:
            return
        V.append(a)
    V = np.array(V)
    G = (V * w) @ V.T
    h = np.array([1.0 if norm else float(1 / rp.zernike_norm2(n, m)) for n, m in nms])
    Gn = G / np.sqrt(np.outer(h, h))
    d = np.diag(Gn)
    off = Gn - np.diag(d)
    tol = 1e-10
    tag = 'norm' if norm else 'raw'
    m0 = np.array([m == 0 for _, m in nms])
    R.expect_close(d[m0], np.ones(m0.sum()), tol, f'zernike:gram:{tag}:rms:m=0', 'mean square of Z_n^0 over the unit disk / textbook value')
    R.expect_close(d[~m0], np.ones((~m0).sum()), tol, f'zernike:gram:{tag}:rms:m!=0', 'mean square of Z_n^m over the unit disk / textbook value')
    R.expect_close(off, np.zeros_like(off), tol, f'zernike:gram:{tag}:orthogonality', 'normalised inner products of distinct Zernike modes')
    if _MEASURE:
        _measure('zernike:gram:rms', np.max(np.abs(d - 1)) / (EPS64 * (N + 1)))
        _measure('zernike:gram:orthogonality', np.max(np.abs(off)) / (EPS64 * (N + 1)))
    R.nontrivial()
    R.outcome('zernike_gram')


# ---------------------------------------------------------------------------------------------
# Forbes Q polynomials

def run_qcon(case, seed, R):
    N = case['N']
    sweep(R, 'Qcon', N, pp.Qcon, _refs(rp.qcon, pts('U', seed)), (pts('U', seed),), N32['U'])
    R.outcome('Qcon')


def run_qbfs(case, seed, R):
    N = case['N']
    fr = [rp.frac(p) for p in pts('U', seed)]
    cs, h = rp.qbfs_table(N)

    def ref(n):
        q = np.array([float(rp.horner(cs[n][:n + 1], x * x)) for x in fr]) / math.sqrt(h[n])
        pre = np.array([float(x * x * (1 - x * x)) for x in fr])
        return pre * q, pre * np.maximum(1.0, np.abs(q))
    sweep(R, 'Qbfs', N, pp.Qbfs, ref, (pts('U', seed),), N32['U'])
    # --- defining property on the implementation's own output: structure and slope orthonormality
    Nc = N + 5                                   # degree of g_n(s) = Qbfs_n(sqrt s) is n+2 <= N+2
    y = np.cos(np.pi * (np.arange(Nc) + 0.5) / Nc)
    s = (1 + y) / 2
    Nq = 2 * N + 4
    uq = np.abs(np.cos((2 * np.arange(1, Nq + 1) - 1) * np.pi / (2 * Nq)))
    Vc = C.chebvander(y, Nc - 1)
    D = []
    for n in range(N + 1):
        out = R.call(pp.Qbfs, n, np.sqrt(s), sig='Qbfs:structure:exception')
        g = _arr(R, out, s.shape, 'Qbfs:structure:output', f'Qbfs({n}) at the interpolation nodes')
        if g is None:
            return
        c = 2.0 / Nc * (Vc.T @ g)
        c[0] /= 2
        scale = np.max(np.abs(c))
        R.expect(np.all(np.abs(c[n + 3:]) <= 1e-11 * scale) and abs(c[n + 2]) > 1e-6 * scale, f'Qbfs:structure:degree:{ncls(n)}',
                 f'Qbfs_{n}(sqrt s) is not a polynomial of exact degree {n + 2} in s: Chebyshev coefficients {c[n + 1:].tolist()}')
        e0, e1 = C.chebval(-1.0, c), C.chebval(1.0, c)
        if _MEASURE:
            _measure('Qbfs:structure:1e-11', max(np.max(np.abs(c[n + 3:])), abs(e0), abs(e1)) / scale / 1e-11)
        R.expect(abs(e0) <= 1e-11 * scale and abs(e1) <= 1e-11 * scale, f'Qbfs:structure:prefactor:{ncls(n)}',
                 f'Qbfs_{n} lacks the u^2 (1-u^2) prefactor: interpolant at s=0: {e0}, s=1: {e1}')
        for u in (0.0, 1.0):
            v = R.call(pp.Qbfs, n, u)
            R.expect_close(v, 0.0, 0.0, f'Qbfs:structure:prefactor:{ncls(n)}', f'Qbfs_{n}({u})')
        dc = 2 * C.chebder(c)                    # dg/ds
        R.expect(C.chebval(-1.0, dc) > 0, f'Qbfs:structure:sign:{ncls(n)}', f'Qbfs_{n}: q_n(0) = g\'(0) is not positive')
        D.append(2 * uq * C.chebval(2 * uq ** 2 - 1, dc))      # dS/du at the quadrature nodes
    D = np.array(D)
    G = D @ D.T / Nq                              # (2/pi) int_0^1 . (1-u^2)^(-1/2) du  by Gauss-Chebyshev, exact degree
    ij = np.add.outer(np.arange(N + 1), np.arange(N + 1)) + 1
    tol = 1e-10 * ij
    d = np.diag(G)
    R.expect_close(d, np.ones(N + 1), np.diag(tol), 'Qbfs:slope:norm', 'Qbfs slope norms under the Chebyshev weight')
    R.expect_close(G - np.diag(d), np.zeros_like(G), tol, 'Qbfs:slope:orthogonality', 'Qbfs slope inner products')
    if _MEASURE:
        _measure('Qbfs:slope', np.max(np.abs(G - np.eye(N + 1)) / (EPS64 * ij)))
    R.outcome('Qbfs')


def run_q1(case, seed, R):
    (run_qcon if case['family'] == 'Qcon' else run_qbfs)(case, seed, R)


def run_q2d(case, seed, R):
    am, N = case['am'], case['N']
    fr = [rp.frac(p) for p in pts('U', seed)]
    if am == 0:
        cs, h = rp.qbfs_table(N)
        pre = np.array([float(x * x * (1 - x * x)) for x in fr])
    else:
        cs, h = rp.q2d_table(am, N)
        pre = np.array([float(x ** am) for x in fr])
    for m in ([0] if am == 0 else [am, -am]):
        trig = np.array([math.cos(m * t) if m >= 0 else math.sin(am * t) for t in PTS_T])

        def ref(n, trig=trig):
            q = np.array([float(rp.horner(cs[n][:n + 1], x * x)) for x in fr]) / math.sqrt(h[n])
            return pre * q * trig, pre * np.maximum(1.0, np.abs(q))
        fam = f'Q2d[{"m=0" if m == 0 else ("m=1" if m == 1 else ("m=-1" if m == -1 else ("m>1" if m > 0 else "m<-1")))}]'
        sweep(R, fam, N, lambda n, r, t, m=m: pp.Q2d(n, m, r, t), ref, (pts('U', seed), PTS_T), N32['U'])
    if am == 0:
        R.outcome('Q2d')
        return
    # --- gradient orthonormality of the implementation's own output (radial integral; the angular factor was pinned
    # pointwise to cos/sin(m t) above, so the theta integral is pi analytically and different m are orthogonal)
    Nc = N + 3
    y = np.cos(np.pi * (np.arange(Nc) + 0.5) / Nc)
    s = (1 + y) / 2
    u = np.sqrt(s)
    Nq = am + 2 * N + 2
    uq = np.abs(np.cos((2 * np.arange(1, Nq + 1) - 1) * np.pi / (2 * Nq)))
    Vc = C.chebvander(y, Nc - 1)
    Rv, Rd = [], []
    for n in range(N + 1):
        out = R.call(pp.Q2d, n, am, u, np.zeros_like(u), sig='Q2d:structure:exception')
        g = _arr(R, out, u.shape, 'Q2d:structure:output', f'Q2d({n},{am}) at the interpolation nodes')
        if g is None:
            return
        q = g / u ** am
        c = 2.0 / Nc * (Vc.T @ q)
        c[0] /= 2
        scale = np.max(np.abs(c))
        R.expect(np.all(np.abs(c[n + 1:]) <= 1e-10 * scale) and abs(c[n]) > 1e-6 * scale, f'Q2d:structure:degree:{ncls(n)}',
                 f'Q2d_{n}^{am}(u,0) / u^{am} is not a polynomial of exact degree {n} in u^2: Chebyshev coefficients {c[n:].tolist()}')
        if _MEASURE:
            _measure('Q2d:structure:1e-10', np.max(np.abs(c[n + 1:])) / scale / 1e-10)
        R.expect(C.chebval(-1.0, c) > 0, f'Q2d:structure:sign:{ncls(n)}', f'Q2d_{n}^{am}: q(0) is not positive')
        qq = C.chebval(2 * uq ** 2 - 1, c)
        dq = C.chebval(2 * uq ** 2 - 1, 2 * C.chebder(c)) if n > 0 else np.zeros_like(uq)
        Rv.append(uq ** (am - 1) * qq)                                        # R / u
        Rd.append(am * uq ** (am - 1) * qq + 2 * uq ** (am + 1) * dq)         # dR/du
    Rv, Rd = np.array(Rv), np.array(Rd)
    G = (Rd @ Rd.T + am * am * (Rv @ Rv.T)) / (2 * Nq)       # (1/pi) int_0^1 . (1-u^2)^(-1/2) du, Gauss-Chebyshev
    ij = np.add.outer(np.arange(N + 1), np.arange(N + 1)) + 1
    tol = (1e-9 if am <= 10 else 1e-8) * ij      # measured worst: 5.8e-12 ij (|m| <= 10), 5.2e-11 ij (|m| = 30)
    d = np.diag(G)
    R.expect_close(d, np.ones(N + 1), np.diag(tol), 'Q2d:gradient:norm', f'Q2d m={am} gradient norms under the Chebyshev weight')
    R.expect_close(G - np.diag(d), np.zeros_like(G), tol, 'Q2d:gradient:orthogonality', f'Q2d m={am} gradient inner products')
    if _MEASURE:
        _measure('Q2d:gradient', np.max(np.abs(G - np.eye(N + 1)) / (EPS64 * ij)))
    R.outcome('Q2d')


# ---------------------------------------------------------------------------------------------
# XY, Hopkins

def run_xy(case, seed, R):
    m, n = case['m'], case['n']
    fx, fy = [rp.frac(p) for p in pts('X', seed)], [rp.frac(p) for p in pts('Y', seed)]
    vals = np.array([float(x ** m * y ** n) for x, y in zip(fx, fy)])

    def ref(_):
        return vals, np.abs(vals)
    cls = 'm=0' if m == 0 else 'm>0'
    cls += ',n=0' if n == 0 else ',n>0'
    sweep(R, f'xy[{cls}]', 0, lambda _, x, y: pp.xy(m, n, x, y, cartesian_grid=False), ref, (pts('X', seed), pts('Y', seed)), 10,
          K=8 * (m + n + 1), orders=[0])
    # genuine cartesian grids
    xv, yv = np.array(pts('X', seed)), np.array(pts('Y', seed)[:7])
    X, Y = np.meshgrid(xv, yv)
    want = np.array([[float(x ** m * y ** n) for x in fx] for y in fy[:7]])
    for cg in (True, False):
        got = R.call(pp.xy, m, n, X, Y, cartesian_grid=cg, sig=f'xy[{cls}]:grid:exception')
        _close(R, got, want, np.abs(want), 0, EPS64, 8 * (m + n + 1), f'xy[{cls}]:grid:cartesian={cg}', f'xy({m},{n}) on a meshgrid')
    got = R.call(pp.xy, m, n, xv, yv, cartesian_grid=True, sig=f'xy[{cls}]:axes:exception')
    _close(R, got, want, np.abs(want), 0, EPS64, 8 * (m + n + 1), f'xy[{cls}]:axes', f'xy({m},{n}) on separable axis vectors')
    R.outcome('xy')


def run_hopkins(case, seed, R):
    a, b, c = case['a'], case['b'], case['c']
    fr, fh = [rp.frac(p) for p in pts('U', seed)], [rp.frac(p) for p in pts('HF', seed)]
    trig = np.array([math.cos(a * t) if a >= 0 else math.sin(-a * t) for t in PTS_T])
    rad = np.array([float(r ** b * H ** c) for r, H in zip(fr, fh)])

    def ref(_):
        return rad * trig, np.abs(rad)
    cls = ('a<0' if a < 0 else ('a=0' if a == 0 else 'a>0'))
    sweep(R, f'hopkins[{cls}]', 0, lambda _, r, t, H: pp.hopkins(a, b, c, r, t, H), ref, (pts('U', seed), PTS_T, pts('HF', seed)), 10,
          K=8 * (b + c + 2), orders=[0])
    R.outcome('hopkins')


# ---------------------------------------------------------------------------------------------
# sequence entry points against the definitions (not against the scalar routines: that relation is C08)

def seq_lists(H):
    """Structurally complete alphabet of ascending order lists: (class, list)."""
    raw = [('from0', [0]), ('from0', [0, 1]), ('from0', [0, 1, 2]), ('from0', list(range(6))), ('from0', list(range(H + 1))),
           ('from1', [1]), ('from1', [1, 2]), ('from1', [1, 2, 3]), ('from2', [2]), ('from2', [2, 3, 4]),
           ('gapped', [1, 3, 6]), ('gapped', [2, 5, 9]), ('gapped', [0, 4]), ('gapped', [0, 2]), ('gapped', [0, H]), ('gapped', [5, H]),
           ('single', [3]), ('single', [H - 1]), ('single', [H])]
    out, seen = [], set()
    for cls, ns in raw:
        if max(ns) <= H and tuple(ns) not in seen:
            seen.add(tuple(ns))
            out.append((cls, ns))
    return out


SEQ1 = {
    # entry point: (impl(param) -> f(ns, x), exact ref(param) -> g(n, Fraction), point-set kind, bound key)
    'jacobi_seq': (lambda p: (lambda ns, x: pp.jacobi_seq(ns, p[0], p[1], x)), lambda p: (lambda n, x: rp.jacobi(n, F(p[0]), F(p[1]), x)), 'I', 'N'),
    'legendre_seq': (lambda p: pp.legendre_seq, lambda p: rp.legendre, 'I', 'N'),
    'cheby1_seq': (lambda p: pp.cheby1_seq, lambda p: rp.cheby1, 'I', 'N'),
    'cheby2_seq': (lambda p: pp.cheby2_seq, lambda p: rp.cheby2, 'I', 'N'),
    'cheby3_seq': (lambda p: pp.cheby3_seq, lambda p: rp.cheby3, 'I', 'N'),
    'cheby4_seq': (lambda p: pp.cheby4_seq, lambda p: rp.cheby4, 'I', 'N'),
    'hermite_He_seq': (lambda p: pp.hermite_He_seq, lambda p: rp.hermite_He, 'H', 'N'),
    'hermite_H_seq': (lambda p: pp.hermite_H_seq, lambda p: rp.hermite_H, 'H', 'N'),
    'laguerre_seq': (lambda p: (lambda ns, x: pp.laguerre_seq(ns, p[0], x)), lambda p: (lambda n, x: rp.laguerre(n, F(p[0]), x)), 'L', 'N'),
    'dickson1_seq': (lambda p: (lambda ns, x: pp.dickson1_seq(ns, p[0], x)), lambda p: (lambda n, x: rp.dickson1(n, F(p[0]), x)), 'D', 'N'),
    'dickson2_seq': (lambda p: (lambda ns, x: pp.dickson2_seq(ns, p[0], x)), lambda p: (lambda n, x: rp.dickson2(n, F(p[0]), x)), 'D', 'N'),
    'Qcon_seq': (lambda p: pp.Qcon_seq, lambda p: rp.qcon, 'U', 'NQ'),
    'Qbfs_seq': (lambda p: pp.Qbfs_seq, None, 'U', 'NQ'),
}
SEQ1_PARAMS = {'jacobi_seq': [[-0.5, 0.5], [-0.5, -0.5], [2.5, 7.25]], 'laguerre_seq': [[0], [0.5], [3.7]],
               'dickson1_seq': [[-1], [0], [0.5]], 'dickson2_seq': [[-1], [0], [0.5]]}


def _seq_items(R, out, k, shape, sig, what):
    """The k entries of a sequence result (ndarray or list of arrays), each validated against `shape`; None on failure."""
    if out is FAILED:
        return None
    try:
        items = list(out)
    except Exception as e:   # noqa
        R.violation(sig, f'{what}: result is not a sequence ({type(e).__name__}: {e})')
        return None
    if len(items) != k:
        R.violation(sig, f'{what}: {len(items)} entries returned for {k} requested orders')
        return None
    return items


def _seq_compare(R, fn, cls, form, out, orders, vals, conds, K, what):
    """out[i] must equal vals[i] within K (n_i+1) eps conds[i]; orders[i] is the recurrence depth n_i."""
    sig = f'{fn}:{cls}:{form}'
    items = _seq_items(R, out, len(orders), vals[0].shape, sig, what)
    if items is None:
        return
    for i, n in enumerate(orders):
        _close(R, items[i], vals[i], conds[i], n, EPS64, K[i] if isinstance(K, list) else K, sig, f'{what}, entry {i}')


def run_seq1(case, seed, R):
    fn, p, H = case['fn'], case['param'], case['H']
    mk_impl, mk_ref, kind, _ = SEQ1[fn]
    impl = mk_impl(p)
    P = pts(kind, seed)
    fr = [rp.frac(v) for v in P]
    if fn == 'Qbfs_seq':
        cs, h = rp.qbfs_table(H)
        pre = np.array([float(x * x * (1 - x * x)) for x in fr])
        q = np.array([[float(rp.horner(cs[n][:n + 1], x * x)) for x in fr] for n in range(H + 1)]) / np.sqrt([float(v) for v in h])[:, None]
        T, M = pre * q, pre * np.maximum(1.0, np.abs(q))
    else:
        ref = mk_ref(p)
        T = np.array([[float(ref(n, x)) for x in fr] for n in range(H + 1)])
        M = np.abs(T)
    run = np.maximum.accumulate(M, axis=0)
    x1 = np.array(P)
    forms = [('1d', x1, (len(P),)), ('2d', x1.reshape(2, -1), (2, len(P) // 2))]
    for cls, ns in seq_lists(H):
        spellings = [('list', list(ns))]
        if ns in ([0, 1, 2, 3, 4, 5], [2, 5, 9]):
            spellings.append(('ndarray', np.array(ns)))
        for sp, arg in spellings:
            for form, x, shape in forms:
                out = R.call(impl, arg, x.copy(), sig=f'{fn}:{cls}:{form}:exception')
                _seq_compare(R, fn, cls if sp == 'list' else cls + ',ns=ndarray', form, out, ns,
                             [T[n].reshape(shape) for n in ns], [run[n].reshape(shape) for n in ns], K_DEFAULT,
                             f'{fn}({ns}{"" if not p else ", " + str(p)}) on {form} array')
    R.nontrivial()
    R.outcome(fn)


def run_seq_zernike(case, seed, R):
    norm, N = case['norm'], case['N']
    P, Tt = pts('U', seed), PTS_T
    fr = [rp.frac(v) for v in P]
    lists = [('ansi', [(n, m) for n in range(5) for m in range(-n, n + 1, 2)]),
             ('unsorted', [(4, 0), (2, -2), (3, 1), (1, 1), (6, 2), (2, 2), (5, -3), (0, 0), (1, -1)]),
             ('repeated-m', [(2, 2), (6, 2), (10, -2)]), ('repeated-m', [(3, -1), (9, 1), (1, 1)]), ('repeated-m', [(4, 0), (0, 0), (8, 0)]),
             ('single', [(0, 0)]), ('single', [(1, -1)]), ('single', [(7, 3)]), ('single', [(N, 0)]), ('single', [(N, -N)]), ('single', [(N - 1, 3)]),
             ('mixed-sign', [(3, 3), (3, -3), (5, -1), (5, 1)])]
    r1, t1 = np.array(P), np.array(Tt)
    forms = [('1d', r1, t1, (len(P),)), ('2d', r1.reshape(2, -1), t1.reshape(2, -1), (2, len(P) // 2))]
    fam = f'zernike_nm_seq[{"norm" if norm else "raw"}]'
    rad_cache = {}

    def rad(n, am):
        if (n, am) not in rad_cache:
            v = np.array([float(rp.zernike_radial(n, am, x)) for x in fr])
            rad_cache[(n, am)] = v * math.sqrt(rp.zernike_norm2(n, am)) if norm else v
        return rad_cache[(n, am)]
    for cls, nms in lists:
        vals, conds, depth = [], [], []
        for n, m in nms:
            am = abs(m)
            trig = np.array([math.cos(m * t) if m >= 0 else math.sin(am * t) for t in Tt])
            vals.append(rad(n, am) * trig)
            conds.append(np.max([np.abs(rad(k, am)) for k in range(am, n + 1, 2)], axis=0))
            depth.append((n - am) // 2)
        for form, r, t, shape in forms:
            out = R.call(pp.zernike_nm_seq, [tuple(nm) for nm in nms], r.copy(), t.copy(), norm=norm, sig=f'{fam}:{cls}:{form}:exception')
            _seq_compare(R, fam, cls, form, out, depth, [v.reshape(shape) for v in vals], [c.reshape(shape) for c in conds], K_DEFAULT,
                         f'zernike_nm_seq({nms}, norm={norm}) on {form} arrays')
    R.nontrivial()
    R.outcome('zernike_nm_seq')


def run_seq_q2d(case, seed, R):
    N, M = case['N'], case['M']
    P, Tt = pts('U', seed), PTS_T
    fr = [rp.frac(v) for v in P]
    lists = [('all', [(n, m) for m in (0, 1, -1, 2, -2, 3) for n in range(4)]),
             ('unsorted', [(3, 2), (0, 0), (1, -2), (2, 1), (0, 3), (4, -1), (2, 0), (0, 2), (5, 1)]),
             ('repeated-m', [(0, 2), (2, 2), (N, -2)]), ('repeated-m', [(1, -1), (4, 1), (N, 1)]), ('repeated-m', [(0, 0), (3, 0), (N, 0)]),
             ('single', [(0, 0)]), ('single', [(0, 1)]), ('single', [(2, -1)]), ('single', [(N, 0)]), ('single', [(N, M)]), ('single', [(N, -M)]), ('single', [(0, -M)]),
             ('mixed-sign', [(1, 3), (1, -3), (2, -1), (2, 1)]), ('sine-only', [(1, -2), (3, -2)]), ('cosine-only', [(1, 2), (3, 2)])]
    r1, t1 = np.array(P), np.array(Tt)
    forms = [('1d', r1, t1, (len(P),)), ('2d', r1.reshape(2, -1), t1.reshape(2, -1), (2, len(P) // 2))]
    tabs = {}

    def radial(n, am):
        """values and running-max magnitudes of the radial factor of order n, azimuthal order am."""
        if am not in tabs:
            if am == 0:
                cs, h = rp.qbfs_table(N)
                pre = np.array([float(x * x * (1 - x * x)) for x in fr])
            else:
                cs, h = rp.q2d_table(am, N)
                pre = np.array([float(x ** am) for x in fr])
            q = np.array([[float(rp.horner(cs[k][:k + 1], x * x)) for x in fr] for k in range(N + 1)]) / np.sqrt([float(v) for v in h])[:, None]
            tabs[am] = (pre * q, np.maximum.accumulate(pre * np.maximum(1.0, np.abs(q)), axis=0))
        return tabs[am][0][n], tabs[am][1][n]
    for cls, nms in lists:
        vals, conds, depth = [], [], []
        for n, m in nms:
            am = abs(m)
            trig = np.array([math.cos(m * t) if m >= 0 else math.sin(am * t) for t in Tt])
            v, c = radial(n, am)
            vals.append(v * trig)
            conds.append(c)
            depth.append(n)
        for form, r, t, shape in forms:
            out = R.call(pp.Q2d_seq, [tuple(nm) for nm in nms], r.copy(), t.copy(), sig=f'Q2d_seq:{cls}:{form}:exception')
            _seq_compare(R, 'Q2d_seq', cls, form, out, depth, [v.reshape(shape) for v in vals], [c.reshape(shape) for c in conds], K_DEFAULT,
                         f'Q2d_seq({nms}) on {form} arrays')
    R.nontrivial()
    R.outcome('Q2d_seq')


def run_seq_xy(case, seed, R):
    X, Y = pts('X', seed), pts('Y', seed)
    fx, fy = [rp.frac(v) for v in X], [rp.frac(v) for v in Y]
    lists = [('zero-exponents', [(0, 0)]), ('zero-exponents', [(1, 0), (0, 1)]), ('zero-exponents', [(0, 5)]), ('zero-exponents', [(4, 0)]),
             ('triangle', [(d - k, k) for d in range(4) for k in range(d + 1)]),
             ('unsorted', [(3, 2), (0, 1), (2, 0), (0, 0), (1, 1), (6, 6)]), ('single', [(6, 6)]), ('single', [(2, 3)]), ('no-zero', [(1, 1), (2, 1), (1, 3)])]
    xv, yv = np.array(X), np.array(Y[:7])
    Xg, Yg = np.meshgrid(xv, yv)
    for cls, mns in lists:
        pt = [np.array([float(x ** m * y ** n) for x, y in zip(fx, fy)]) for m, n in mns]
        gr = [np.array([[float(x ** m * y ** n) for x in fx] for y in fy[:7]]) for m, n in mns]
        Ks = [8 * (m + n + 1) for m, n in mns]
        zero = [0] * len(mns)
        for form, x, y, cg, vals in (('scattered-1d', np.array(X), np.array(Y), False, pt),
                                     ('scattered-2d', np.array(X).reshape(2, -1), np.array(Y).reshape(2, -1), False, [v.reshape(2, -1) for v in pt]),
                                     ('grid,cartesian=True', Xg, Yg, True, gr), ('grid,cartesian=False', Xg, Yg, False, gr)):
            out = R.call(pp.xy_seq, [tuple(mn) for mn in mns], x.copy(), y.copy(), cartesian_grid=cg, sig=f'xy_seq:{cls}:{form}:exception')
            sig = f'xy_seq:{cls}:{form}'
            items = _seq_items(R, out, len(mns), None, sig, f'xy_seq({mns})')
            if items is None:
                continue
            for i in range(len(mns)):
                got = items[i]
                try:    # a separable result may come back un-broadcast (row x column); broadcasting is part of the documented contract
                    got = np.broadcast_to(np.asarray(got), vals[i].shape) if np.ndim(got) == np.ndim(vals[i]) else got
                except Exception:   # noqa
                    pass
                _close(R, got, vals[i], np.abs(vals[i]), zero[i], EPS64, Ks[i], sig, f'xy_seq({mns}) entry {i} ({form})')
    R.nontrivial()
    R.outcome('xy_seq')


def run_seq(case, seed, R):
    fn = case['fn']
    if fn == 'zernike_nm_seq':
        run_seq_zernike(case, seed, R)
    elif fn == 'Q2d_seq':
        run_seq_q2d(case, seed, R)
    elif fn == 'xy_seq':
        run_seq_xy(case, seed, R)
    else:
        run_seq1(case, seed, R)


# ---------------------------------------------------------------------------------------------
# threshold orders (overflow points of factorial / gamma / fixed-width integers); NOT closed over the order dimension

HI_ORDERS = [60, 100, 150, 170, 171, 172, 200, 256, 300]
HI_PTS = [-1.0, 1.0, 0.0, 0.5, -0.75, 0.3125, -0.9375, 0.96875]        # few-bit dyadic: exact rationals stay small at n = 300
HI_JAC = [[-0.5, -0.5], [0.5, 0.5], [-0.5, 0.5], [0.5, -0.5], [0, 4], [1, 2], [2.5, 7.25]]
HI_M = [12, 16, 17, 18, 20, 25, 30]


def _cheb_scale(kind, n, x):
    """running max_k<=n |C_k(x)| of the Chebyshev family `kind` by its own three-term recurrence in float (a scale, not an oracle)."""
    p0 = np.ones_like(x)
    p1 = {1: x, 2: 2 * x, 3: 2 * x - 1, 4: 2 * x + 1}[kind]
    run = np.maximum(np.abs(p0), np.abs(p1)) if n >= 1 else np.abs(p0)
    for _ in range(2, n + 1):
        p0, p1 = p1, 2 * x * p1 - p0
        run = np.maximum(run, np.abs(p1))
    return run


def run_threshold(case, seed, R):
    fam, n = case['family'], case['n']
    x = np.array(HI_PTS)
    fr = [rp.frac(v) for v in HI_PTS]
    if fam == 'jacobi':
        a, b = case['alpha'], case['beta']
        f, args = pp.jacobi, (n, a, b)
        vals = np.array([float(rp.jacobi_hyp(n, F(a), F(b), v)) for v in fr])
        ks = np.arange(n + 1)[:, None]
        cond = np.max(np.abs(sps.eval_jacobi(ks, a, b, x[None, :])), axis=0)
    elif fam == 'legendre':
        f, args = pp.legendre, (n,)
        vals = np.array([float(rp.legendre(n, v)) for v in fr])
        cond = np.ones_like(x)
    else:
        kind = int(fam[-1])
        f, args = getattr(pp, fam), (n,)
        vals = np.array([float(getattr(rp, fam)(n, v)) for v in fr])
        cond = _cheb_scale(kind, n, x)
        # the trigonometric definition as a second, independent judgement of the reference itself (harness self-check)
        th = np.arccos(x[2:])
        trig = {1: np.cos(n * th), 2: np.sin((n + 1) * th) / np.sin(th), 3: np.cos((n + .5) * th) / np.cos(th / 2),
                4: np.sin((n + .5) * th) / np.sin(th / 2)}[kind]
        if not np.all(np.abs(trig - vals[2:]) <= 1e-9 * cond[2:]):
            raise AssertionError(f'reference self-check failed for {fam} n={n}')
    cond = np.maximum(cond, np.abs(vals))
    cls = 'n<171' if n < 171 else 'n>=171'
    got = R.call(f, *args, x, sig=f'{fam}:high-order:{cls}:exception')
    _close(R, got, vals, cond, n, EPS64, K_DEFAULT, f'{fam}:high-order:{cls}', f'{fam} order {n} {args[1:]} on a 1-D array')
    for i, v in enumerate(HI_PTS):
        got = R.call(f, *args, v, sig=f'{fam}:high-order:{cls}:scalar:exception')
        _close(R, got, vals[i], cond[i], n, EPS64, K_DEFAULT, f'{fam}:high-order:{cls}:scalar', f'{fam} order {n} {args[1:]} at x={v}')
    R.nontrivial()
    R.outcome(fam)


def run_q2d_high(case, seed, R):
    """high azimuthal orders: the whole q2d treatment (pointwise vs exact Gram-Schmidt, structure, gradient Gram) plus Q2d_seq."""
    run_q2d(case, seed, R)
    am, N = case['am'], case['N']
    P, Tt = pts('U', seed), PTS_T
    fr = [rp.frac(v) for v in P]
    cs, h = rp.q2d_table(am, N)
    pre = np.array([float(x ** am) for x in fr])
    nms = [(0, am), (1, -am), (2, am), (5, -am), (5, am)]
    vals, conds = [], []
    run = np.zeros(len(P))
    qs = {}
    for k in range(N + 1):
        q = np.array([float(rp.horner(cs[k][:k + 1], x * x)) for x in fr]) / math.sqrt(h[k])
        run = np.maximum(run, pre * np.maximum(1.0, np.abs(q)))
        qs[k] = (pre * q, run.copy())
    for n, m in nms:
        trig = np.array([math.cos(m * t) if m >= 0 else math.sin(am * t) for t in Tt])
        vals.append(qs[n][0] * trig)
        conds.append(qs[n][1])
    out = R.call(pp.Q2d_seq, nms, np.array(P), np.array(Tt), sig='Q2d_seq:high-m:exception')
    _seq_compare(R, 'Q2d_seq', 'high-m', '1d', out, [n for n, _ in nms], vals, conds, K_DEFAULT, f'Q2d_seq({nms})')


# ---------------------------------------------------------------------------------------------
# threshold sizes (blocked / chunked evaluation paths, fast paths above an element count); NOT closed over the data dimension
#
# Every value-returning entry point is evaluated on arrays whose element count is just above a power of two and not a multiple of
# it (2^k + 1 and 2^k + 2^(k-1) + 3, k = 7..16), on 2-D grids of such sizes and on one grid of more than 2^20 elements.  The
# coordinates are the property's exact-reference points repeated cyclically along the flattened (C-order) index with an ODD period
# (11 / 9 / 7: never a divisor of a block length), so the exact-rational reference at the period points, tiled, judges EVERY element
# -- the trailing elements of the last partial block included -- and a result assembled from mis-placed blocks is seen as well.

SIZE_1D = [[2 ** k + 1] for k in range(7, 17)] + [[2 ** k + 2 ** (k - 1) + 3] for k in range(7, 17)]
SIZE_2D = [[129, 3], [150, 150], [181, 182], [300, 300], [257, 1030]]
SIZE_HUGE = [[1025, 1027]]                                   # 1 052 675 > 2^20 elements: a camera-frame sized grid
SIZE_32 = [[2 ** 16 + 1], [300, 300]]                        # float32 coordinates
SIZE_MORE_1D = [[2 ** k - 1] for k in range(7, 19)] + [[2 ** k] for k in range(7, 19)] + [[3 * 2 ** k + 5] for k in range(7, 18)] + \
    [[2 ** 17 + 1], [2 ** 18 + 2 ** 17 + 3]]
SIZE_MORE_2D = [[128, 128], [256, 256], [512, 512], [480, 640], [513, 511], [3, 129], [1030, 257], [2, 3, 11000]]
SIZE_MORE_HUGE = [[1200, 1600]]
SIZE_NMAX = 9
SIZE_SCALAR_ORDERS = [3, 8]
SIZE_SEQ_LISTS = [[0, 1, 2, 3], [2, 5, 9]]

SIZE_ONE = {
    # family: (shape-parameter settings, exact ref maker, point-set kind)
    'jacobi': ([[2.5, 7.25], [-0.5, 0.5]], lambda p: (lambda n, x: rp.jacobi(n, F(p[0]), F(p[1]), x)), 'I'),
    'legendre': ([[]], lambda p: rp.legendre, 'I'),
    'cheby1': ([[]], lambda p: rp.cheby1, 'I'),
    'cheby2': ([[]], lambda p: rp.cheby2, 'I'),
    'cheby3': ([[]], lambda p: rp.cheby3, 'I'),
    'cheby4': ([[]], lambda p: rp.cheby4, 'I'),
    'hermite_H': ([[]], lambda p: rp.hermite_H, 'H'),
    'hermite_He': ([[]], lambda p: rp.hermite_He, 'H'),
    'laguerre': ([[0.5]], lambda p: (lambda n, x: rp.laguerre(n, F(p[0]), x)), 'L'),
    'dickson1': ([[0.5]], lambda p: (lambda n, x: rp.dickson1(n, F(p[0]), x)), 'D'),
    'dickson2': ([[0.5]], lambda p: (lambda n, x: rp.dickson2(n, F(p[0]), x)), 'D'),
    'Qcon': ([[]], lambda p: rp.qcon, 'U'),
    'Qbfs': ([[]], None, 'U'),
}
SIZE_TWO = ['zernike_nm', 'zernike_nm_seq', 'Q2d', 'Q2d_seq', 'xy', 'xy_seq', 'hopkins', 'jacobi.weight']
SIZE_FNS = [f + s for f in SIZE_ONE for s in ('', '_seq')] + SIZE_TWO


def _trig(m, T):
    return np.array([math.cos(m * t) if m >= 0 else math.sin(-m * t) for t in T])


def _q_radial_table(am, N, fr):
    """values and running-max magnitudes (orders 0..N) of the radial factor of Qbfs (am = 0) / Q2d (am >= 1) at the exact points fr."""
    if am == 0:
        cs, h = rp.qbfs_table(N)
        pre = np.array([float(x * x * (1 - x * x)) for x in fr])
    else:
        cs, h = rp.q2d_table(am, N)
        pre = np.array([float(x ** am) for x in fr])
    q = np.array([[float(rp.horner(cs[k][:k + 1], x * x)) for x in fr] for k in range(N + 1)]) / np.sqrt([float(v) for v in h])[:, None]
    return pre * q, np.maximum.accumulate(pre * np.maximum(1.0, np.abs(q)), axis=0)


def _size_probes(fn, seed, f32_):
    """The probe calls of entry point `fn`: dicts f, pre (leading arguments), kw, cols (one list of period points per coordinate
    argument), seq (result is a sequence), depth / vals / cond (per returned item, over the period points), K, what, grid."""
    per = 9 if f32_ else 11
    out = []

    def probe(f, pre, cols, seq, depth, vals, cond, what, kw=None, K=K_DEFAULT, grid=False):
        out.append({'f': f, 'pre': tuple(pre), 'kw': kw or {}, 'cols': cols, 'seq': seq, 'depth': list(depth), 'vals': list(vals),
                    'cond': list(cond), 'K': K, 'what': what, 'grid': grid})

    base = fn[:-4] if fn.endswith('_seq') else fn
    if base in SIZE_ONE:
        params, mk_ref, kind = SIZE_ONE[base]
        if f32_:
            per = min(per, N32[kind] - 1)          # float32-exact points only, odd period (9 or 7)
        P = pts(kind, seed)[:per]
        fr = [rp.frac(v) for v in P]
        f = getattr(pp, fn)
        for p in params:
            if base == 'Qbfs':
                T, run = _q_radial_table(0, SIZE_NMAX, fr)
            else:
                ref = mk_ref(p)
                T = np.array([[float(ref(n, x)) for x in fr] for n in range(SIZE_NMAX + 1)])
                run = np.maximum.accumulate(np.abs(T), axis=0)
            if fn.endswith('_seq'):
                for ns in SIZE_SEQ_LISTS:
                    probe(f, (list(ns), *p), [P], True, ns, [T[n] for n in ns], [run[n] for n in ns], f'{fn}({ns}{", " + str(p) if p else ""})')
            else:
                for n in SIZE_SCALAR_ORDERS:
                    probe(f, (n, *p), [P], False, [n], [T[n]], [run[n]], f'{fn}({n}{", " + str(p) if p else ""})')
        return out
    U, Tt = pts('U', seed)[:per], PTS_T[:per]
    fu = [rp.frac(v) for v in U]
    if fn in ('zernike_nm', 'zernike_nm_seq'):
        def zern(n, m, norm):
            am = abs(m)
            rad = {k: np.array([float(rp.zernike_radial(k, am, x)) for x in fu]) * (math.sqrt(rp.zernike_norm2(k, m)) if norm else 1.0)
                   for k in range(am, n + 1, 2)}
            return (n - am) // 2, rad[n] * _trig(m, Tt), np.max([np.abs(v) for v in rad.values()], axis=0)
        if fn == 'zernike_nm':
            for n, m, norm in ((4, 0, True), (5, -3, False)):
                d, v, c = zern(n, m, norm)
                probe(pp.zernike_nm, (n, m), [U, Tt], False, [d], [v], [c], f'zernike_nm({n},{m},norm={norm})', kw={'norm': norm})
        else:
            for nms, norm in (([(2, 0), (3, 1), (3, -3), (6, 2), (4, 0)], True), ([(1, -1), (5, 1)], False)):
                z = [zern(n, m, norm) for n, m in nms]
                probe(pp.zernike_nm_seq, (list(nms),), [U, Tt], True, [a[0] for a in z], [a[1] for a in z], [a[2] for a in z],
                      f'zernike_nm_seq({nms},norm={norm})', kw={'norm': norm})
    elif fn in ('Q2d', 'Q2d_seq'):
        tabs = {}

        def q2(n, m):
            am = abs(m)
            if am not in tabs:
                tabs[am] = _q_radial_table(am, 3, fu)
            return n, tabs[am][0][n] * _trig(m, Tt), tabs[am][1][n]
        if fn == 'Q2d':
            for n, m in ((3, 0), (2, -2)):
                d, v, c = q2(n, m)
                probe(pp.Q2d, (n, m), [U, Tt], False, [d], [v], [c], f'Q2d({n},{m})')
        else:
            for nms in ([(0, 0), (3, 0), (1, 2), (2, -1), (2, 2)], [(1, 1)]):
                z = [q2(n, m) for n, m in nms]
                probe(pp.Q2d_seq, (list(nms),), [U, Tt], True, [a[0] for a in z], [a[1] for a in z], [a[2] for a in z], f'Q2d_seq({nms})')
    elif fn in ('xy', 'xy_seq'):
        X, Y = pts('X', seed)[:per], pts('Y', seed)[:per]
        fx, fy = [rp.frac(v) for v in X], [rp.frac(v) for v in Y]

        def scattered(m, n):
            return np.array([float(x ** m * y ** n) for x, y in zip(fx, fy)])

        def table(m, n):      # [iy, ix]
            return np.array([[float(x ** m * y ** n) for x in fx] for y in fy])
        for grid, cg in ((False, False), (True, True), (True, False)):
            tv = table if grid else scattered
            tag = f'cartesian_grid={cg}' + (' on a meshgrid' if grid else ' on scattered points')
            if fn == 'xy':
                m, n = 2, 3
                probe(pp.xy, (m, n), [X, Y], False, [0], [tv(m, n)], [np.abs(tv(m, n))], f'xy({m},{n},{tag})', kw={'cartesian_grid': cg},
                      K=8 * (m + n + 1), grid=grid)
            else:
                mns = [(0, 0), (1, 0), (2, 3), (0, 2)]
                probe(pp.xy_seq, (list(mns),), [X, Y], True, [0] * len(mns), [tv(m, n) for m, n in mns], [np.abs(tv(m, n)) for m, n in mns],
                      f'xy_seq({mns},{tag})', kw={'cartesian_grid': cg}, K=[8 * (m + n + 1) for m, n in mns], grid=grid)
    elif fn == 'hopkins':
        H = pts('HF', seed)[:per]
        fh = [rp.frac(v) for v in H]
        for a, b, c in ((2, 3, 1), (-1, 2, 2)):
            rad = np.array([float(r ** b * h ** c) for r, h in zip(fu, fh)])
            probe(pp.hopkins, (a, b, c), [U, Tt, H], False, [0], [rad * _trig(a, Tt)], [np.abs(rad)], f'hopkins({a},{b},{c})', K=8 * (b + c + 2))
    elif fn == 'jacobi.weight':
        import importlib
        jm = importlib.import_module('prysm.polynomials.jacobi')
        P = pts('I', seed)[2:2 + per - 2]                 # interior points only (odd period 9 / 7)
        for a, b in ((2.5, 7.25), (-0.5, 0.5)):
            w = np.array([float(1 - rp.frac(v)) ** a * float(1 + rp.frac(v)) ** b for v in P])
            probe(jm.weight, (a, b), [P], False, [0], [w], [np.abs(w) * (1 + abs(a) + abs(b))], f'jacobi.weight({a},{b})', K=32)
    else:
        raise ValueError(fn)
    return out


def run_size(case, seed, R):
    fn, shape, dt = case['fn'], tuple(case['shape']), case['dtype']
    f32_ = dt == 'f32'
    eps, npdt = (EPS32, np.float32) if f32_ else (EPS64, np.float64)
    size = int(np.prod(shape))
    dim = 'huge' if size > 2 ** 20 else f'{len(shape)}d'
    sig = f'{fn}:size:{dim}:{dt}'
    probes = _size_probes(fn, seed, f32_)
    if case['settings'] == 'first':
        probes = [p for p in probes if not p['grid']][:1]
    for pr in probes:
        per = len(pr['cols'][0])
        if pr['grid']:
            if len(shape) != 2:
                continue
            iy, ix = np.arange(shape[0]) % per, np.arange(shape[1]) % per
            xv, yv = np.array(pr['cols'][0], dtype=npdt), np.array(pr['cols'][1], dtype=npdt)
            arrs = [np.ascontiguousarray(np.broadcast_to(xv[ix][None, :], shape)), np.ascontiguousarray(np.broadcast_to(yv[iy][:, None], shape))]
            gather = lambda v: np.asarray(v)[iy[:, None], ix[None, :]]      # noqa
        else:
            idx = np.arange(size) % per
            arrs = [np.array(c, dtype=npdt)[idx].reshape(shape) for c in pr['cols']]
            gather = lambda v: np.asarray(v)[idx].reshape(shape)            # noqa
        what = f'{pr["what"]} on a {"x".join(map(str, shape))} {dt} array'
        out = R.call(pr['f'], *pr['pre'], *arrs, sig=sig + ':exception', hygiene=dim != 'huge', **pr['kw'])
        if pr['seq']:
            items = _seq_items(R, out, len(pr['depth']), None, sig, what)
            if items is None:
                continue
        else:
            items = [out]
        for i, n in enumerate(pr['depth']):
            got = items[i]
            if pr['grid'] and got is not FAILED:
                try:    # a separable result may come back un-broadcast (row x column); broadcasting is part of the documented contract
                    got = np.broadcast_to(np.asarray(got), shape) if np.ndim(got) == len(shape) else got
                except Exception:   # noqa
                    pass
            K = pr['K'][i] if isinstance(pr['K'], list) else pr['K']
            _close(R, got, gather(pr['vals'][i]), gather(pr['cond'][i]), n, eps, K, sig, f'{what}, entry {i}' if pr['seq'] else what)
    R.nontrivial()
    R.outcome(f'size:{dim}')


def size_cases(tier):
    shapes = [(s, 'f64', 'all' if int(np.prod(s)) <= 2 ** 17 else 'first') for s in SIZE_1D + SIZE_2D] + [(s, 'f32', 'all') for s in SIZE_32] + [(s, 'f64', 'first') for s in SIZE_HUGE]
    if tier != 'quick':
        shapes += [(s, 'f64', 'all') for s in SIZE_MORE_1D + SIZE_MORE_2D] + [(s, 'f32', 'all') for s in SIZE_1D + SIZE_2D if s not in SIZE_32] + \
            [(s, 'f64', 'first') for s in SIZE_MORE_HUGE] + [(s, 'f32', 'first') for s in SIZE_HUGE]
    shapes.sort(key=lambda t: (int(np.prod(t[0])), len(t[0]), t[1]))
    return [{'fn': fn, 'shape': list(s), 'dtype': dt, 'settings': st} for s, dt, st in shapes for fn in SIZE_FNS]


# ---------------------------------------------------------------------------------------------
# the package's public weight / norm helpers

def run_weight(case, seed, R):
    """polynomials.jacobi.weight against (1-x)^alpha (1+x)^beta, and orthogonality of the library's polynomials under the LIBRARY's weight."""
    import importlib
    jm = importlib.import_module('prysm.polynomials.jacobi')
    a, b, N = case['alpha'], case['beta'], case['N']
    cls = 'a=b' if a == b else 'a!=b'
    sig = f'jacobi.weight[{cls}]'
    P = [v for v in pts('I', seed) if abs(v) < 1] + ([1.0] if a >= 0 else []) + ([-1.0] if b >= 0 else [])
    x = np.array(P)
    want = np.array([float(1 - rp.frac(v)) ** a * float(1 + rp.frac(v)) ** b for v in P])
    tol = 32 * EPS64 * (1 + abs(a) + abs(b)) * np.abs(want)      # measured worst 0.71 eps (1+|a|+|b|) |w| over seeds 0..3
    got = R.call(jm.weight, a, b, x, sig=sig + ':exception')
    R.expect_close(got, want, tol, sig, f'weight({a},{b},x) on a 1-D array vs (1-x)^alpha (1+x)^beta')
    for i, v in enumerate(P):
        got = R.call(jm.weight, a, b, v, sig=sig + ':scalar:exception')
        R.expect_close(got, want[i], tol[i], sig + ':scalar', f'weight({a},{b},{v})')
    impl = lambda n, xx: pp.jacobi(n, a, b, xx)   # noqa
    h = jacobi_h(N, a, b)
    # (i) Gauss-Jacobi nodes; quadrature weight w_k * W_library(x_k) / W_textbook(x_k)
    xq, wq = sps.roots_jacobi(N + 1, a, b)
    Wl = _arr(R, R.call(jm.weight, a, b, xq, sig=sig + ':exception'), xq.shape, sig + ':output', 'weight at the Gauss-Jacobi nodes')
    if Wl is not None:
        gram(R, f'jacobi-under-library-weight[{cls}]', N, impl, xq, wq * Wl / ((1 - xq) ** a * (1 + xq) ** b), h)
    # (ii) integer parameters: the integrand is a polynomial -- plain Gauss-Legendre of ample degree, nothing of the weight assumed
    if float(a).is_integer() and float(b).is_integer():
        xl, wl = sps.roots_legendre(N + 2 + int(a + b) // 2 + 1)
        Wl = _arr(R, R.call(jm.weight, a, b, xl, sig=sig + ':exception'), xl.shape, sig + ':output', 'weight at the Gauss-Legendre nodes')
        if Wl is not None:
            gram(R, f'jacobi-under-library-weight[{cls},gauss-legendre]', N, impl, xl, wl * Wl, h)
    R.nontrivial()
    R.outcome('weight')


def run_znorm(case, seed, R):
    N = case['N']
    for n in range(N + 1):
        for m in range(-n, n + 1, 2):
            got = R.call(pp.zernike_norm, n, m, sig='zernike_norm:exception')
            want = math.sqrt(rp.zernike_norm2(n, m))
            R.expect_close(got, want, 4 * EPS64 * want, f'zernike_norm:{"m=0" if m == 0 else "m!=0"}', f'zernike_norm({n},{m}) vs sqrt(2(n+1)/(1+delta_m0))')
    R.nontrivial()
    R.outcome('zernike_norm')


def run_helpers(case, seed, R):
    (run_znorm if case.get('helper') == 'zernike_norm' else run_weight)(case, seed, R)


# ---------------------------------------------------------------------------------------------
# history: cold == warm, bit for bit

XH = np.array(_FIXED['I'][:8])
UH = np.array(_FIXED['U'][:8])
TH = np.array(PTS_T[:8])
LH = np.array(_FIXED['L'][:8])


def evaluate(cfg, dt=None):
    """One configuration of the cache-history alphabets at the fixed history points, coordinates of dtype dt (default float64)."""
    c = (lambda v: v) if dt is None else (lambda v: v.astype(dt))
    f = cfg[0]
    if f == 'jacobi':
        return pp.jacobi(cfg[1], cfg[2], cfg[3], c(XH))
    if f == 'jacobi_seq':
        return pp.jacobi_seq(list(range(cfg[1] + 1)), cfg[2], cfg[3], c(XH))
    if f in ('cheby1', 'cheby2', 'cheby3', 'cheby4', 'legendre'):
        return getattr(pp, f)(cfg[1], c(XH))
    if f in ('cheby1_seq', 'cheby2_seq', 'cheby3_seq', 'cheby4_seq', 'legendre_seq', 'Qcon_seq', 'Qbfs_seq'):
        return getattr(pp, f)(list(range(cfg[1] + 1)), c(UH if f[0] == 'Q' else XH))
    if f in ('hermite_H', 'hermite_He'):
        return getattr(pp, f)(cfg[1], c(XH * 2))
    if f == 'laguerre':
        return pp.laguerre(cfg[1], cfg[2], c(LH))
    if f in ('dickson1', 'dickson2'):
        return getattr(pp, f)(cfg[1], cfg[2], c(XH * 2))
    if f == 'zernike':
        return pp.zernike_nm(cfg[1], cfg[2], c(UH), c(TH), norm=bool(cfg[3]))
    if f == 'zernike_seq':
        nms = [(n, m) for n in range(cfg[1] + 1) for m in range(-n, n + 1, 2)]
        return pp.zernike_nm_seq(nms, c(UH), c(TH), norm=bool(cfg[2]))
    if f == 'Qcon':
        return pp.Qcon(cfg[1], c(UH))
    if f == 'Qbfs':
        return pp.Qbfs(cfg[1], c(UH))
    if f == 'Q2d':
        return pp.Q2d(cfg[1], cfg[2], c(UH), c(TH))
    if f == 'Q2d_seq':
        nms = [(n, m) for m in range(-cfg[2], cfg[2] + 1) for n in range(cfg[1] + 1)]
        return pp.Q2d_seq(nms, c(UH), c(TH))
    raise ValueError(f)


def same_bits(a, b):
    a, b = np.asarray(a), np.asarray(b)
    return a.shape == b.shape and a.dtype == b.dtype and a.tobytes() == b.tobytes()


def run_cache_pair(case, seed, R):
    first, second = case['first'], case['second']
    reset_poly_caches()
    cold = R.call(evaluate, second, sig=f'cache:{second[0]}:exception')
    reset_poly_caches()
    out1 = R.call(evaluate, first, sig=f'cache:{first[0]}:exception')
    if cold is FAILED or out1 is FAILED:
        return
    keep1 = np.array(out1, copy=True)
    warm = R.call(evaluate, second, sig=f'cache:{second[0]}:exception')
    if warm is FAILED:
        return
    R.expect(same_bits(cold, warm), f'cache:{second[0]}:after:{first[0]}',
             f'{second} evaluated after {first} differs from its cold evaluation: max|diff| = '
             f'{float(np.max(np.abs(np.asarray(cold, dtype=float) - np.asarray(warm, dtype=float)))) if np.shape(cold) == np.shape(warm) else "shape"}')
    R.expect(same_bits(out1, keep1), f'cache:{first[0]}:result-overwritten-by:{second[0]}',
             f'the array returned for {first} changed when {second} was evaluated')
    R.nontrivial(first != second)
    R.outcome('pair')


def run_cache_precision(case, seed, R):
    """history (set precision A, evaluate first) ; (set precision B, evaluate second): second must be bit-identical to its cold evaluation
    under B (all lru caches cleared, precision B).  Coordinates are float64 ('f64') or of the configured precision ('match')."""
    from prysm.conf import config
    first, second, A, B, mode = case['first'], case['second'], case['A'], case['B'], case['input']
    dta = None if mode == 'f64' else (np.float32 if A == 32 else np.float64)
    dtb = None if mode == 'f64' else (np.float32 if B == 32 else np.float64)
    try:
        config.precision = B
        reset_poly_caches()
        cold = R.call(evaluate, second, dtb, sig=f'cache:{second[0]}:exception')
        reset_poly_caches()
        config.precision = A
        out1 = R.call(evaluate, first, dta, sig=f'cache:{first[0]}:exception')
        config.precision = B
        warm = R.call(evaluate, second, dtb, sig=f'cache:{second[0]}:exception')
        if cold is FAILED or warm is FAILED or out1 is FAILED:
            return
        sig = f'cache:{second[0]}:precision{B}-after:{first[0]}:precision{A}'
        what = f'{second} under config.precision={B} ({mode} coordinates) after {first} under config.precision={A}'
        if dtb is np.float32:
            # float32 coordinates: C07 demands the value of the polynomial at float32 resolution, not a particular rounding or result dtype.
            # (On the pinned tree the rounding / dtype of float32 evaluations does depend on history: zernike_nm_seq keys the shared
            # recurrence_abc cache with numpy integers, which makes the cached coefficients np.float64 instead of float -- recorded as an
            # outcome class and reported with a proposed fix, not a violation of C07.)
            c64, w64 = np.asarray(cold, dtype=float), np.asarray(warm, dtype=float)
            if R.expect(c64.shape == w64.shape, sig, f'{what}: shape {w64.shape} differs from the cold evaluation {c64.shape}'):
                scale = max(1.0, float(np.max(np.abs(c64)))) if c64.size else 1.0
                order = max([v for v in second[1:3] if isinstance(v, int)] + [1])
                R.expect_close(w64, c64, K_DEFAULT * (order + 1) * EPS32 * scale, sig, f'{what} vs its cold evaluation under {B}')
                if not same_bits(cold, warm):
                    R.outcome('float32-rounding-depends-on-history')
        else:
            ok = same_bits(cold, warm)
            R.expect(ok, sig, lambda: None)
            if not ok:
                R.violations[-1]['msg'] = (f'{what} differs from its cold evaluation under {B}: dtype {np.asarray(warm).dtype} vs {np.asarray(cold).dtype}, max|diff| = '
                                           f'{float(np.max(np.abs(np.asarray(cold, dtype=float) - np.asarray(warm, dtype=float)))) if np.shape(cold) == np.shape(warm) else "shape"}')
        R.nontrivial()
        R.outcome('precision')
    finally:
        config.precision = 64
        reset_poly_caches()


def all_configs(B):
    out = []
    for a, b in B['jacobi_pairs']:
        for n in range(B['N'] + 1):
            out.append(['jacobi', n, a, b])
    for f in ('cheby1', 'cheby2', 'cheby3', 'cheby4', 'legendre', 'hermite_H', 'hermite_He'):
        for n in range(B['N'] + 1):
            out.append([f, n])
    for a in B['lag']:
        for n in range(B['N'] + 1):
            out.append(['laguerre', n, a])
    for a in B['dick']:
        for n in range(B['N'] + 1):
            out.append(['dickson1', n, a])
            out.append(['dickson2', n, a])
    for n in range(B['NZ'] + 1):
        for m in range(-n, n + 1, 2):
            for norm in (1, 0):
                out.append(['zernike', n, m, norm])
    for n in range(B['NQ'] + 1):
        out.append(['Qcon', n])
        out.append(['Qbfs', n])
    for m in range(-B['M2'], B['M2'] + 1):
        for n in range(B['N2'] + 1):
            out.append(['Q2d', n, m])
    return out


def run_cache_sweep(case, seed, R):
    cfgs = all_configs(bounds_for(case['tier']))
    order = case['order']
    if order == 'reverse':
        seq = cfgs[::-1]
    elif order == 'by_order':
        seq = sorted(cfgs, key=lambda c: (c[1], c[0], [float(v) for v in c[2:]]))
    else:
        seq = cfgs
    cold = {}
    for c in cfgs:
        reset_poly_caches()
        cold[json.dumps(c)] = R.call(evaluate, c, sig=f'cache:{c[0]}:exception')
    reset_poly_caches()
    for c in seq:
        warm = R.call(evaluate, c, sig=f'cache:{c[0]}:exception')
        k = cold[json.dumps(c)]
        if warm is FAILED or k is FAILED:
            continue
        R.expect(same_bits(k, warm), f'cache:{c[0]}:sweep:{order}', f'{c} evaluated warm in the {order} enumeration differs from its cold evaluation')
    # the cold results themselves must not have been touched by later evaluations (hoisted scratch arrays)
    reset_poly_caches()
    for c in cfgs[::max(1, len(cfgs) // 200)]:
        again = R.call(evaluate, c)
        k = cold[json.dumps(c)]
        if again is FAILED or k is FAILED:
            continue
        R.expect(same_bits(k, again), f'cache:{c[0]}:result-overwritten', f'the array returned earlier for {c} was modified by later evaluations')
        reset_poly_caches()
    R.nontrivial()
    R.outcome('sweep')


# ---------------------------------------------------------------------------------------------

AB = [0, 0.5, -0.5, 1, 2, 4, -0.9, 2.5, 7.25, 0.3]


def bounds_for(tier):
    q = tier == 'quick'
    return {'jacobi_pairs': [[a, b] for a in AB for b in AB], 'N': 12 if q else 40, 'NZ': 12 if q else 30, 'NQ': 12 if q else 25,
            'N2': 6 if q else 10, 'M2': 6 if q else 10, 'lag': [0, 0.5, 2, -0.5, 3.7], 'dick': [-1, 0, 1, 0.5]}


def plan(tier, seed):
    bounds = bounds_for(tier)
    N, NZ, NQ, N2, M2, lag, dick = (bounds[k] for k in ('N', 'NZ', 'NQ', 'N2', 'M2', 'lag', 'dick'))
    pairs = [(a, b) for a, b in bounds['jacobi_pairs']]
    jac_cases = [{'alpha': a, 'beta': b, 'N': N} for a, b in pairs]
    cl_cases = [{'family': f, 'N': N} for f in CLASSICAL] + [{'family': 'laguerre', 'alpha': a, 'N': N} for a in lag] + \
        [{'family': f, 'alpha': a, 'N': N} for f in ('dickson1', 'dickson2') for a in dick]
    z_cases = [{'am': am, 'norm': norm, 'N': NZ} for am in range(NZ + 1) for norm in (True, False)]
    zg_cases = [{'N': NZ, 'norm': norm} for norm in (True, False)]
    q_cases = [{'N': NQ}]
    q2_cases = [{'am': am, 'N': N2} for am in range(M2 + 1)]
    xy_cases = [{'m': m, 'n': n} for m in range(7) for n in range(7)]
    hop_cases = [{'a': a, 'b': b, 'c': c} for a in range(-4, 5) for b in range(5) for c in range(5)]
    nx = float(np.nextafter(0.5, 1))
    near = [(0.1 + 0.2, -0.3), (1 - 0.9, -0.1), (-0.3, 0.7 - 0.4), (nx, -0.5), (0.5, float(np.nextafter(-0.5, 0))), (-0.5, nx), (0.25, -0.25 + 1e-15), (0.25, -0.25 - 1e-15),
            (-0.25 + 1e-15, 0.25), (0.75, -0.75 + 1e-15), (-0.3, -0.7 + 1e-15), (-0.3, -0.7 - 1e-15), (-0.7 + 1e-15, -0.3),
            (0.1 + 0.2 - 1, -0.3), (1e-9, 1e-12), (1e-12, -1e-9), (-1e-15, 2e-15)]
    near_cases = [{'alpha': float(a), 'beta': float(b), 'N': 6, 'tag': 'a+b~-1' if a + b < -0.5 else 'a+b~0'} for a, b in near]
    thr_cases = [{'family': f, 'n': n} for n in HI_ORDERS for f in ('legendre', 'cheby1', 'cheby2', 'cheby3', 'cheby4')] + \
        [{'family': 'jacobi', 'alpha': a, 'beta': b, 'n': n} for n in HI_ORDERS for a, b in HI_JAC]
    q2h_cases = [{'am': m, 'N': 5} for m in HI_M]
    seq_cases = []
    for fn, (_, _, _, bk) in SEQ1.items():
        for p in SEQ1_PARAMS.get(fn, [[]]):
            seq_cases.append({'fn': fn, 'param': p, 'H': bounds[bk]})
    seq_cases += [{'fn': 'zernike_nm_seq', 'norm': True, 'N': NZ}, {'fn': 'zernike_nm_seq', 'norm': False, 'N': NZ},
                  {'fn': 'Q2d_seq', 'N': N2, 'M': M2}, {'fn': 'xy_seq'}]
    # collision alphabet for the pair histories: same order / other parameter, int vs float spelling, families sharing a cache
    nn = [2, 3, 5, N]
    alpha = []
    for n in nn:
        for ab in ((0, 0), (0, 1), (0, 2), (1, 0), (2, 0), (.5, .5), (.5, -.5), (-.5, .5), (-.5, -.5), (0, 4), (0.0, 4.0), (-0.9, 0.3), (0.3, -0.9)):
            alpha.append(['jacobi', n, ab[0], ab[1]])
    for n in (3, N):
        alpha += [[f, n] for f in ('cheby1', 'cheby2', 'cheby3', 'cheby4', 'legendre', 'hermite_H', 'hermite_He')]
        alpha += [['laguerre', n, 0], ['laguerre', n, 0.5], ['dickson1', n, 1], ['dickson1', n, -1], ['dickson2', n, 1], ['Qcon', n], ['Qbfs', n]]
    alpha += [['Qbfs', 2], ['Qcon', 2]]
    alpha += [['zernike', n, m, norm] for (n, m) in ((4, 0), (4, 2), (6, 2), (6, -2), (5, 1), (7, 1), (7, 3), (8, 4), (12, 4)) for norm in (1, 0)]
    alpha += [['Q2d', n, m] for n in (0, 1, 2, 3, 4, 6) for m in (0, 1, 2, 3, -2, 4)]
    pair_cases = [{'first': a, 'second': b} for a in alpha for b in alpha]
    sweep_cases = [{'order': o, 'tier': tier} for o in ('forward', 'reverse', 'by_order')]
    # precision as an event: a reduced alphabet with every family that owns or uses cached coefficients, scalar and sequence entry points
    palpha = [['jacobi', 3, 0, 0], ['jacobi', N, 0.5, -0.5], ['jacobi', 5, 0, 4], ['jacobi_seq', 6, 0, 4], ['jacobi_seq', N, -0.5, 0.5],
              ['cheby1', 5], ['cheby2', N], ['cheby3', 4], ['cheby4', N], ['legendre', 6], ['cheby2_seq', 6], ['cheby3_seq', N], ['legendre_seq', N],
              ['zernike', 4, 0, 1], ['zernike', 6, 2, 1], ['zernike', 7, -3, 0], ['zernike', NZ, 0, 1], ['zernike_seq', 6, 1], ['zernike_seq', 5, 0],
              ['Qcon', 3], ['Qcon', NQ], ['Qcon_seq', 6], ['Qbfs', 2], ['Qbfs', 3], ['Qbfs', NQ], ['Qbfs_seq', 5], ['Qbfs_seq', NQ],
              ['Q2d', 3, 0], ['Q2d', N2, 0], ['Q2d', 0, 2], ['Q2d', 2, 1], ['Q2d', 4, 1], ['Q2d', 3, -2], ['Q2d', N2, M2], ['Q2d_seq', 3, 2], ['Q2d_seq', N2, 3],
              ['hermite_H', 5], ['laguerre', 5, 0.5], ['dickson1', 5, 1]]
    prec_cases = [{'first': a, 'second': b, 'A': A, 'B': B, 'input': mode} for a in palpha for b in palpha for A, B in ((32, 64), (64, 32))
                  for mode in ('match', 'f64')]
    nconf = len(all_configs(bounds))
    forms = 'every order is evaluated on a 1-D, a 2-D and a 3-D float64 array, as a python scalar at every point, and on a float32 array'
    return [
        ScopeUnit('jacobi', jac_cases, run_jacobi,
                  f'every (alpha,beta) in {AB}^2 x every order n in [0..{N}] at 12 points of [-1,1] (both end points, 0, dyadic, float32-exact and generic '
                  f'rationals); {forms}; oracle: exact-rational explicit sum (DLMF 18.5.8) at the exact value of the point and of the parameters; plus the full '
                  f'(N+1)x(N+1) Gram matrix under the (N+1)-point Gauss-Jacobi rule against diag(h_n)', reset=reset_poly_caches, chunk=1),
        ScopeUnit('classical', cl_cases, run_classical,
                  f'Legendre, Chebyshev T/U/V/W, Hermite H/He, Laguerre alpha in {lag}, Dickson 1/2 alpha in {dick}: every order n in [0..{N}], same input forms; '
                  'oracle: each family\'s own explicit sum in exact rationals; Gram matrices under Gauss-Legendre/-Jacobi/-Hermite/-Laguerre rules of exact degree',
                  reset=reset_poly_caches, chunk=1),
        ScopeUnit('zernike', z_cases, run_zernike,
                  f'every |m| in [0..{NZ}] x norm in {{True,False}}: every n in {{|m|,|m|+2,..}} <= {NZ}, both signs of m, at 12 (r,t) points incl. r=0 and r=1, same '
                  'input forms; oracle: radial factorial formula (exact) x cos/sin(m t) x sqrt(2(n+1)/(1+delta_m0))', reset=reset_poly_caches, chunk=1),
        ScopeUnit('zernike_gram', zg_cases, run_zernike_gram,
                  f'all {(NZ + 1) * (NZ + 2) // 2} modes with n <= {NZ}: full Gram matrix (1/pi) int Z Z\' over the unit disk (Gauss-Legendre in r^2 x trapezoid in theta, exact): '
                  'unit RMS, mutual orthogonality; with and without norm', reset=reset_poly_caches, chunk=1),
        ScopeUnit('qcon_qbfs', [{'family': 'Qcon', **q_cases[0]}, {'family': 'Qbfs', **q_cases[0]}],
                  run_q1,
                  f'Qcon and Qbfs, every order n in [0..{NQ}], 12 points of [0,1], same input forms; oracle: u^4 P_n^(0,4)(2u^2-1) exact; Qbfs: exact-rational '
                  'Gram-Schmidt under the slope inner product; plus, on the implementation\'s own output, degree / prefactor / sign structure and the slope Gram matrix '
                  '(Chebyshev interpolation + Gauss-Chebyshev, exact degree) == identity', reset=reset_poly_caches, chunk=1),
        ScopeUnit('q2d', q2_cases, run_q2d,
                  f'every |m| in [0..{M2}], both signs, every n in [0..{N2}], 12 (u,t) points, same input forms; oracle: exact-rational Gram-Schmidt under the gradient '
                  'inner product x cos/sin(m t); plus radial structure and the gradient Gram matrix of the implementation\'s own output == identity', reset=reset_poly_caches, chunk=1),
        ScopeUnit('xy', xy_cases, run_xy,
                  'every (m,n) in [0..6]^2: scattered points (scalar, 1-D, 2-D, 3-D, float32; cartesian_grid=False), a genuine 7x12 meshgrid with cartesian_grid True and False, '
                  'and separable axis vectors; oracle x^m y^n exact', reset=reset_poly_caches),
        ScopeUnit('hopkins', hop_cases, run_hopkins,
                  'every (a,b,c) in [-4..4] x [0..4]^2, all input forms; oracle cos(a t) | sin(|a| t) times r^b H^c exact', reset=reset_poly_caches),
        ScopeUnit('weight_helpers', [{'alpha': a, 'beta': b, 'N': min(N, 20)} for a, b in pairs] + [{'helper': 'zernike_norm', 'N': NZ}], run_helpers,
                  f'the public weight / norm helpers of the package: polynomials.jacobi.weight for every (alpha,beta) in {AB}^2 pointwise against (1-x)^alpha (1+x)^beta (array and scalars, end '
                  'points where finite), orthogonality of the library\'s Jacobi polynomials under the LIBRARY\'s weight (Gauss-Jacobi nodes x weight ratio; for integer parameters also plain '
                  'Gauss-Legendre of exact degree) against diag(h_n); zernike_norm for every (n,m) against sqrt(2(n+1)/(1+delta_m0))', reset=reset_poly_caches),
        ScopeUnit('jacobi_near_cancel', near_cases, run_jacobi,
                  'value-specific parameter alphabet: (alpha,beta) whose sum is a rounding-sized non-zero number (0.1+0.2,-0.3), (1-0.9,-0.1), (-0.3,0.7-0.4), one-ulp '
                  'neighbours of (0.5,-0.5), alpha+beta = +-1e-15, the same around alpha+beta = -1, and tiny parameters; orders 0..6, all input forms, against the exact-rational '
                  'explicit sum at the exact binary value of the parameters; plus the Gauss-Jacobi Gram matrix', reset=reset_poly_caches, chunk=1),
        ScopeUnit('threshold_orders', thr_cases, run_threshold,
                  f'threshold alphabet of orders {HI_ORDERS} (gamma / factorial overflow at 171, typical large orders) for Legendre, Chebyshev T/U/V/W and Jacobi {HI_JAC} at '
                  f'{len(HI_PTS)} few-bit dyadic points incl. both end points, as 1-D array and scalars; oracle: exact-rational explicit sums (Chebyshev additionally self-checked against the '
                  'trigonometric definitions); scale = running max over k <= n of |p_k(x)|.  This unit is a threshold alphabet, NOT closed over the order dimension', reset=reset_poly_caches),
        ScopeUnit('threshold_sizes', size_cases(tier), run_size,
                  f'threshold alphabet of array sizes for EVERY value-returning entry point ({len(SIZE_FNS)}: the 13 one-coordinate families and their *_seq forms, zernike_nm(_seq), '
                  f'Q2d(_seq), xy(_seq) scattered and on a genuine meshgrid with cartesian_grid True/False, hopkins, jacobi.weight): 1-D lengths 2^k+1 and 2^k+2^(k-1)+3 for k = 7..16, '
                  f'2-D shapes {SIZE_2D}, one grid of more than 2^20 elements {SIZE_HUGE} (above 2^17 elements: first setting only), float32 coordinates at {SIZE_32}'
                  + ('' if tier == 'quick' else f'; thorough adds 2^k-1, 2^k (k = 7..18), 3*2^k+5, {SIZE_MORE_2D}, {SIZE_MORE_HUGE} and float32 at every size') +
                  f'; per entry point two settings (orders {SIZE_SCALAR_ORDERS} / order lists {SIZE_SEQ_LISTS}; Jacobi with two (alpha,beta)); the coordinates are the exact-reference '
                  'points repeated cyclically along the C-order index with an odd period (11; 9 / 7 for float32), so the exact-rational definition judges EVERY element (the last partial '
                  'block included) with the pointwise tolerance policy; the arrays are explicit R.call arguments, so the hygiene variants (strided, Fortran, reused buffer, repeat) run at '
                  'every size up to 257x1030 (the > 2^20 grid is judged by the reference only).  This unit is a threshold alphabet, NOT closed over the data / size dimension', reset=reset_poly_caches, chunk=1),
        ScopeUnit('q2d_high_m', q2h_cases, run_q2d_high,
                  f'threshold alphabet of azimuthal orders |m| in {HI_M} (int64 overflow of the m-dependent seeds at 17/18) x n in [0..5], both signs: Q2d pointwise against the exact '
                  'rational (arbitrary-precision integer) Gram-Schmidt reference whose n=0 member is the closed form Q_0^m = 1/(2 sqrt(F_0^m)), radial structure, gradient Gram matrix, and Q2d_seq; '
                  'not closed over m', reset=reset_poly_caches, chunk=1),
        ScopeUnit('seq_definition', seq_cases, run_seq,
                  f'every value-returning *_seq entry point (jacobi, legendre, cheby1-4, hermite_He/H, laguerre, dickson1/2, Qbfs, Qcon: shape parameters '
                  f'{SEQ1_PARAMS}; zernike_nm_seq norm True/False, Q2d_seq, xy_seq) against the exact-rational definitions (never against the scalar routine) for a '
                  f'structurally complete alphabet of order lists: contiguous from 0 / 1 / 2, gapped ([1,3,6], [2,5,9], [0,4], [0,2], [0,H], [5,H]), singletons of low and high '
                  f'order (H = {N}; Q: {NQ}), python list and ndarray spelling; two-index families: complete low-order sets, unsorted lists, repeated |m|, mixed sign of m, '
                  'sine-only / cosine-only, zero exponents; coordinates as 1-D and 2-D arrays (xy_seq: scattered points and a genuine meshgrid, cartesian_grid True/False); '
                  'same tolerance policy as the pointwise units', reset=reset_poly_caches, chunk=1),
        ScopeUnit('cache_pairs', pair_cases, run_cache_pair,
                  f'history of length 2 over a collision alphabet of {len(alpha)} configurations (same order / other alpha or beta, int vs float spelling, families sharing '
                  'the Jacobi / Q caches): EVERY ordered pair (first, second): second evaluated after first must be bit-identical to second evaluated cold, and the array '
                  'returned for first must not change', reset=reset_poly_caches),
        ScopeUnit('cache_precision', prec_cases, run_cache_precision,
                  f'the global config.precision as a history event: EVERY ordered pair (first, second) of a {len(palpha)}-configuration alphabet (every family that owns or uses cached '
                  'coefficients -- recurrence_abc users incl. Chebyshev / Legendre / Zernike / Qcon, Qbfs f/g/h, Q2d F/G/abc tables -- scalar and *_seq entry points, plus uncached families) '
                  'x (precision A, then B) in {(32,64),(64,32)} x coordinates of the configured precision or float64: second under B after first under A must equal second evaluated cold '
                  'under B (all lru caches cleared) -- bit for bit (values and dtype) whenever the coordinates are float64, within K (n+1) eps32 max|value| when they are float32; '
                  'precision restored to 64 afterwards', reset=reset_all),
        ScopeUnit('cache_sweep', sweep_cases, run_cache_sweep,
                  f'the whole enumeration ({nconf} configurations of every cached and uncached family) evaluated cold (caches cleared before each) and warm without clearing, in '
                  'forward, reversed and order-major sequence (lru eviction included: > 512 / 1000 / 4000 distinct keys); warm == cold bit for bit', reset=reset_poly_caches, chunk=1),
    ]
