"""C08 -- sequence evaluation equals one-at-a-time evaluation.

For every ``*_seq`` function of prysm.polynomials the whole stack returned for a list of orders must
equal, mode for mode and in the order requested, what the scalar-order function of the same family
returns, with shape (len(orders), *coordinate.shape).

Oracle: the scalar-order function of the same family (the relation the property itself states).
Sequence and scalar routines run the same recurrences on the same coordinates, so they may differ
only by the rounding of a final scaling; the comparison is at K*eps(dtype)*cond*max(|mode|, FLOOR) per
mode, cond = 1 + |m|*max|theta| for the modes with an azimuthal factor (the sequence routines form
m*theta in double precision, the scalar ones in the coordinate precision) and 1 otherwise.  Honest
difference measured on the pinned tree over the whole scope: <= 1.7 eps*cond (see TOL_K).

Signatures.  Every case evaluates the 1-D reference coordinate (5 points, float64) first.  When
that already disagrees the defect is about *which orders* were asked for and the signature carries
the order cell (``laguerre_der_seq:n0=0``, ``xy_seq:zero-exp``); when the 1-D reference agrees and
another coordinate array does not, the defect is about the *array shape* and the signature carries
the shape cell (``cheby2_seq:2d``, ``cheby1_seq:2d:lead=len`` = leading dimension equal to the number
of orders, the silently mis-broadcast case).
"""
import itertools

import numpy as np

from mc import ScopeUnit, FAILED
from mc.linalg import dense
from mc.state import reset_poly_caches

import prysm.polynomials as P

ID = 'C08'
ASSUMPTIONS = [
    'the scalar-order function of each family is taken as the definition of the mode (the relation C08 states); '
    'whether the scalar functions are the textbook polynomials is C07/C09',
    'xy / xy_seq with cartesian_grid=True are exercised only on 2-D meshgrid coordinates, the precondition that flag asserts '
    '(on 0-D/1-D/3-D input xy() forms an outer product and xy_seq() does not; with cartesian_grid=False every shape is exercised)',
    'orders are passed as Python lists of int, (n, m) pairs as lists of tuples',
]

TOL_K = 64         # honest seq-vs-scalar difference on the pinned tree is <= 1.7 eps * cond * mode scale (margin > 35x)
CHUNK = 32          # cases per work item: small, so that the 40-violations-per-item cap of the explorer does not hide signatures
FLOOR = 1e-2       # modes whose magnitude is below this are compared at K*eps*FLOOR absolute

# ---------------------------------------------------------------------------------------------
# families

J3 = [[0, 2], [-0.5, -0.5], [1.5, 0.25]]
# name of the sequence function -> (scalar function, coordinate domain, parameter values)
ONE = {
    'jacobi_seq': ('jacobi', (-1, 1), J3),
    'jacobi_der_seq': ('jacobi_der', (-1, 1), J3),
    'legendre_seq': ('legendre', (-1, 1), [[]]),
    'legendre_der_seq': ('legendre_der', (-1, 1), [[]]),
    'cheby1_seq': ('cheby1', (-1, 1), [[]]),
    'cheby1_der_seq': ('cheby1_der', (-1, 1), [[]]),
    'cheby2_seq': ('cheby2', (-1, 1), [[]]),
    'cheby2_der_seq': ('cheby2_der', (-1, 1), [[]]),
    'cheby3_seq': ('cheby3', (-1, 1), [[]]),
    'cheby3_der_seq': ('cheby3_der', (-1, 1), [[]]),
    'cheby4_seq': ('cheby4', (-1, 1), [[]]),
    'cheby4_der_seq': ('cheby4_der', (-1, 1), [[]]),
    'hermite_He_seq': ('hermite_He', (-2, 2), [[]]),
    'hermite_He_der_seq': ('hermite_He_der', (-2, 2), [[]]),
    'hermite_H_seq': ('hermite_H', (-2, 2), [[]]),
    'hermite_H_der_seq': ('hermite_H_der', (-2, 2), [[]]),
    'laguerre_seq': ('laguerre', (0, 4), [[0], [0.5], [2]]),
    'laguerre_der_seq': ('laguerre_der', (0, 4), [[0], [0.5], [2]]),
    'dickson1_seq': ('dickson1', (-2, 2), [[-1], [0], [0.5]]),
    'dickson2_seq': ('dickson2', (-2, 2), [[-1], [0], [0.5]]),
    'Qbfs_seq': ('Qbfs', (0, 1), [[]]),
    'Qcon_seq': ('Qcon', (0, 1), [[]]),
}
UNITS_ONE = [
    ('jacobi', ['jacobi_seq', 'jacobi_der_seq', 'legendre_seq', 'legendre_der_seq']),
    ('cheby', ['cheby1_seq', 'cheby1_der_seq', 'cheby2_seq', 'cheby2_der_seq',
               'cheby3_seq', 'cheby3_der_seq', 'cheby4_seq', 'cheby4_der_seq']),
    ('hermite', ['hermite_He_seq', 'hermite_He_der_seq', 'hermite_H_seq', 'hermite_H_der_seq']),
    ('laguerre_dickson', ['laguerre_seq', 'laguerre_der_seq', 'dickson1_seq', 'dickson2_seq']),
    ('qbfs_qcon', ['Qbfs_seq', 'Qcon_seq']),
]

# two-index families: name -> (scalar, variants (extra keyword values), pool quick, extra pairs for thorough)
POOL_Z = [[0, 0], [1, 1], [1, -1], [2, 0], [2, -2], [3, 1], [4, 0], [4, 2], [5, -3]]
POOL_Z_T = [[3, -1], [6, 0], [6, 2]]
POOL_Q = [[0, 0], [2, 0], [0, 1], [2, 1], [3, 1], [4, -1], [1, 2], [3, -2], [0, -3]]
POOL_Q_T = [[5, 1], [1, -1], [4, 3]]
POOL_XY = [[0, 0], [1, 0], [0, 1], [1, 1], [2, 0], [0, 3], [2, 1], [1, 2], [3, 3]]
POOL_XY_T = [[4, 0], [0, 2], [2, 4]]
TWO = {
    'zernike_nm_seq': ('zernike_nm', 'norm', [True, False], POOL_Z, POOL_Z_T),
    'zernike_nm_der_seq': ('zernike_nm_der', 'norm', [True, False], POOL_Z, POOL_Z_T),
    'Q2d_seq': ('Q2d', None, [None], POOL_Q, POOL_Q_T),
    'xy_seq': ('xy', 'cartesian_grid', [False, True], POOL_XY, POOL_XY_T),
}
COVERED = set(ONE) | set(TWO)


# ---------------------------------------------------------------------------------------------
# coordinates

def shapes_for(k):
    """The coordinate shapes of DESIGN C08 for a list of k orders; 1-D reference first, no duplicates."""
    out = []
    for s in ((5,), (), (1,), (k,), (3, 4), (4, 3), (k, 4), (4, k), (2, 3, 2)):
        if s not in out:
            out.append(s)
    return out


def coords(shape, seed, salt, lo, hi, dtype):
    """Generic seeded representative inside (lo, hi); the 1-D reference also carries both end points and the middle."""
    a = dense(shape, seed, salt, complex_=False)
    x = lo + (hi - lo) * (0.5 + 0.5 * np.tanh(np.asarray(a, dtype=float)))
    x = np.asarray(x, dtype=float)
    if shape == (5,):
        x[0], x[1], x[2] = lo, hi, 0.5 * (lo + hi)
    return np.asarray(x, dtype=dtype)


def dimclass(shape, k):
    c = f'{len(shape)}d'
    if len(shape) >= 2 and shape[0] == k:
        c += ':lead=len'
    return c


def compare(got, want, eps, cond=None):
    """-> (ok, bad mode indices, message); never raises.  want has been built by the harness."""
    try:
        g = np.asarray(got)
        if g.dtype.kind not in 'fiu':
            return False, None, f'non-real output dtype {g.dtype}'
        if g.shape != want.shape:
            return False, None, f'shape {g.shape} != expected {want.shape}'
        g = g.astype(float)
        w = want.astype(float)
        k = w.shape[0]
        scale = np.abs(w.reshape(k, -1)).max(axis=1) if w[0].size else np.zeros(k)
        scale = np.where(np.isfinite(scale), scale, 1.0)
        tol = TOL_K * eps * np.maximum(scale, FLOOR) * (1.0 if cond is None else np.asarray(cond, dtype=float))
        tol = tol.reshape((k,) + (1,) * (w.ndim - 1))
        with np.errstate(invalid='ignore'):
            err = np.abs(g - w)
        same = (g == w) | (np.isnan(g) & np.isnan(w))
        err = np.where(same, 0.0, np.where(np.isnan(err), np.inf, err))
        badel = err > tol
        if not badel.any():
            return True, [], ''
        bad = [j for j in range(k) if badel[j].any()]
        j = bad[0]
        i = int(np.argmax(np.where(badel[j], err[j], -1).ravel()))
        return False, bad, (f'modes {bad} differ; mode {j}: max|err|={float(np.max(err[j])):.3e} > tol={float(tol[j].ravel()[0]):.3e} '
                            f'got {g[j].ravel()[i]!r} want {w[j].ravel()[i]!r}')
    except Exception as e:   # noqa -- an uncomparable output is a wrong output
        return False, None, f'uncomparable output ({type(e).__name__}: {e})'


def honest_ratio(got, want, eps, cond=None):
    """max |got-want| / (eps * cond * mode scale) -- development aid for choosing TOL_K."""
    g = np.asarray(got, dtype=float)
    w = want.astype(float)
    k = w.shape[0]
    scale = np.maximum(np.abs(w.reshape(k, -1)).max(axis=1), FLOOR) * (1.0 if cond is None else np.asarray(cond, dtype=float))
    scale = scale.reshape((k,) + (1,) * (w.ndim - 1))
    return float(np.nanmax(np.abs(g - w) / (eps * scale))) if g.size else 0.0


def stack_scalar(R, outs, shape, sname):
    """Stack validated scalar-function outputs into the expected array; None when the scalar side failed."""
    if any(o is FAILED for o in outs):
        return None
    try:
        arrs = [np.asarray(o) for o in outs]
        for a in arrs:
            if a.shape != tuple(shape) or a.dtype.kind not in 'fiu':
                R.violation(f'{sname}:shape', f'{sname} returned shape {a.shape} dtype {a.dtype} for coordinates of shape {tuple(shape)}')
                return None
        return np.stack([a.astype(float) for a in arrs]) if arrs else None
    except Exception as e:   # noqa
        R.violation(f'{sname}:shape', f'{sname} output cannot be stacked: {type(e).__name__}: {e}')
        return None


def observe(R, got):
    """Feed the sequence output into the determinism digest of the case."""
    try:
        R.observe(np.asarray(got, dtype=float))
    except Exception:   # noqa -- an uncomparable output has already been reported by compare()
        pass


def dedupe(R):
    """One violation per signature and case (the first), so that one defect does not flood the report."""
    seen, keep = set(), []
    for v in R.violations:
        if v['sig'] not in seen:
            seen.add(v['sig'])
            keep.append(v)
    R.violations[:] = keep


# ---------------------------------------------------------------------------------------------
# one-index families

def order_cell(ns):
    c = f'n0={ns[0] if ns[0] < 3 else "3+"}'
    if any(b - a != 1 for a, b in zip(ns, ns[1:])):
        c += ':gapped'
    return c


def run_one(case, seed, R):
    name, par, ns = case['f'], case['par'], case['ns']
    sname, (lo, hi), _ = ONE[name]
    fseq, fsca = getattr(P, name, None), getattr(P, sname, None)
    if not R.expect(callable(fseq) and callable(fsca), f'{name}:missing', f'{name} / {sname} not exported by prysm.polynomials'):
        return
    k = len(ns)
    ref_ok = {}
    for shape in shapes_for(k):
        for dtype in ('float64', 'float32'):
            eps = float(np.finfo(dtype).eps)
            x = coords(shape, seed, 11, lo, hi, dtype)
            xin = x.copy()
            got = R.call(fseq, list(ns), *par, xin, sig=f'{name}:raises')
            exc = R.violations.pop()['msg'] if got is FAILED else None   # re-filed below under the cell signature
            outs = [R.call(fsca, n, *par, x.copy(), sig=f'{sname}:raises') for n in ns]
            want = stack_scalar(R, outs, shape, sname)
            if want is None:
                if exc is not None:
                    R.violation(f'{name}:raises', exc)
                continue
            R.checks += 1
            if got is FAILED:
                ok, msg = False, exc
            else:
                ok, bad, msg = compare(got, want, eps)
                observe(R, got)
            if shape == (5,):
                ref_ok[dtype] = ok
            if not ok:
                if not ref_ok.get('float64', True) or (shape == (5,) and dtype == 'float64'):
                    cell = order_cell(ns)
                elif shape == (5,):
                    cell = order_cell(ns) + ':f32'
                else:
                    cell = dimclass(shape, k)
                    if dtype == 'float32' and ref_ok.get(('shape', shape), False):
                        cell += ':f32'
                R.violation(f'{name}:{cell}', f'{name}({list(ns)}, {", ".join(map(str, par))}{", " if par else ""}x{list(shape)} {dtype}) vs {sname}: {msg}')
            if dtype == 'float64':
                ref_ok[('shape', shape)] = ok
            R.expect(np.array_equal(xin, x), f'{name}:input-mutated', f'{name} modified its coordinate array (shape {shape})')
    dedupe(R)
    R.nontrivial(any(n >= 1 for n in ns))
    R.outcome('single' if k == 1 else ('gapped' if 'gapped' in order_cell(ns) else 'contiguous'))


# ---------------------------------------------------------------------------------------------
# two-index families

def mode_cell(name, pair):
    a, b = pair
    if name == 'xy_seq':
        return 'zero-exp' if (a == 0 or b == 0) else 'pos-exp'
    m = b
    if name == 'Q2d_seq':
        return 'm=0' if m == 0 else (('m=+1' if m > 0 else 'm=-1') if abs(m) == 1 else ('m>1' if m > 0 else 'm<-1'))
    return 'm=0' if m == 0 else ('m>0' if m > 0 else 'm<0')


def run_two(case, seed, R):
    name, var, nms = case['f'], case['var'], [tuple(p) for p in case['nms']]
    sname, kwname, _, _, _ = TWO[name]
    fseq, fsca = getattr(P, name, None), getattr(P, sname, None)
    if not R.expect(callable(fseq) and callable(fsca), f'{name}:missing', f'{name} / {sname} not exported by prysm.polynomials'):
        return
    kw = {} if kwname is None else {kwname: var}
    k = len(nms)
    grid_only = name == 'xy_seq' and var is True
    ref_ok = {}
    for shape in shapes_for(k):
        if grid_only and len(shape) != 2:
            continue
        for dtype in ('float64', 'float32'):
            eps = float(np.finfo(dtype).eps)
            if name == 'xy_seq':
                if grid_only:
                    xv = coords((shape[1],), seed, 21, -1, 1, dtype)
                    yv = coords((shape[0],), seed, 22, -1, 1, dtype)
                    a, b = (np.ascontiguousarray(v) for v in np.meshgrid(xv, yv))
                else:
                    a = coords(shape, seed, 21, -1, 1, dtype)
                    b = coords(shape, seed, 22, -1, 1, dtype)
            else:
                a = coords(shape, seed, 23, 0, 1, dtype)                  # r
                b = coords(shape, seed, 24, 0, 2 * np.pi, dtype)          # theta
            ain, bin_ = a.copy(), b.copy()
            got = R.call(fseq, list(nms), ain, bin_, sig=f'{name}:raises', **kw)
            exc = R.violations.pop()['msg'] if got is FAILED else None   # re-filed below under the cell signature
            outs = [R.call(fsca, p[0], p[1], a.copy(), b.copy(), sig=f'{sname}:raises', **kw) for p in nms]
            if name == 'zernike_nm_der_seq':
                # scalar returns (d/dr, d/dt); the sequence stacks them on axis 1
                try:
                    outs = [o if o is FAILED else np.stack([np.asarray(o[0], dtype=float), np.asarray(o[1], dtype=float)]) for o in outs]
                except Exception as e:   # noqa
                    R.violation(f'{sname}:shape', f'{sname} did not return a (dr, dt) pair of equal shapes: {type(e).__name__}: {e}')
                    if exc is not None:
                        R.violation(f'{name}:raises', exc)
                    continue
                want = stack_scalar(R, outs, (2, *shape), sname)
            else:
                want = stack_scalar(R, outs, shape, sname)
            if want is None:
                if exc is not None:
                    R.violation(f'{name}:raises', exc)
                continue
            R.checks += 1
            bad = None
            if got is FAILED:
                ok, msg = False, exc
            else:
                tmax = float(np.max(np.abs(b))) if b.size else 0.0
                cond = None if name == 'xy_seq' else [1.0 + abs(p[1]) * tmax for p in nms]
                ok, bad, msg = compare(got, want, eps, cond)
                observe(R, got)
            is_ref = shape == ((5,) if not grid_only else (3, 4))
            if is_ref:
                ref_ok[dtype] = ok
            if not ok:
                modes = '+'.join(sorted({mode_cell(name, nms[j]) for j in (bad if bad else range(k))}))
                if not ref_ok.get('float64', True) or (is_ref and dtype == 'float64'):
                    cell = modes
                elif is_ref:
                    cell = modes + ':f32'
                else:
                    cell = dimclass(shape, k)
                    if dtype == 'float32' and ref_ok.get(('shape', shape), False):
                        cell += ':f32'
                vs = '' if kwname is None else f', {kwname}={var}'
                R.violation(f'{name}:{cell}', f'{name}({list(nms)}, coords{list(shape)} {dtype}{vs}) vs {sname}: {msg}')
            if dtype == 'float64':
                ref_ok[('shape', shape)] = ok
            R.expect(np.array_equal(ain, a) and np.array_equal(bin_, b), f'{name}:input-mutated',
                     f'{name} modified its coordinate arrays (shape {shape})')
    dedupe(R)
    R.nontrivial(any(p != (0, 0) for p in nms))
    R.outcome('single' if k == 1 else ('repeat' if len(set(nms)) < k else 'distinct'))


# ---------------------------------------------------------------------------------------------
# inventory: every *_seq function exported by the package is in a table above

def run_inventory(case, seed, R):
    import importlib
    import pkgutil
    found = {n for n in dir(P) if n.endswith('_seq') and callable(getattr(P, n))}
    for m in pkgutil.iter_modules(P.__path__):
        mod = R.call(importlib.import_module, 'prysm.polynomials.' + m.name, sig=f'inventory:import:{m.name}')
        if mod is FAILED:
            continue
        found |= {n for n, v in vars(mod).items() if n.endswith('_seq') and callable(v) and getattr(v, '__module__', '') == mod.__name__}
    R.expect(found <= COVERED, 'inventory:uncovered', f'sequence functions without a C08 table entry: {sorted(found - COVERED)}')
    R.expect(COVERED <= found, 'inventory:missing', f'sequence functions no longer present: {sorted(COVERED - found)}')
    R.nontrivial(len(found) > 0)
    R.outcome('inventory')


# ---------------------------------------------------------------------------------------------

def subsets(B):
    """Every non-empty ascending subset of [0..B], simplest (shortest, lowest) first."""
    out = []
    for k in range(1, B + 2):
        out.extend(list(c) for c in itertools.combinations(range(B + 1), k))
    return out


def ordered_lists(pool, L, pool4=()):
    out = []
    for k in range(1, L + 1):
        out.extend([list(p) for p in t] for t in itertools.product(pool, repeat=k))
    out.extend([list(p) for p in t] for t in itertools.product(pool4, repeat=4))
    srt = sorted(pool, key=lambda p: (p[0], p[1]))
    for full in (srt, srt[::-1], srt[len(srt) // 2:] + srt[:len(srt) // 2]):
        out.append([list(p) for p in full])
    return out


def plan(tier, seed):
    B = 6 if tier == 'quick' else 9
    subs = subsets(B)
    units = [ScopeUnit('inventory', [{'inventory': 'prysm.polynomials'}], run_inventory,
                       'one case: the set of *_seq callables found in prysm.polynomials and its submodules equals the set of functions enumerated below')]
    shapes_txt = '{(5,) with end points, (), (1,), (k,), (3,4), (4,3), (k,4), (4,k), (2,3,2)} (k = number of orders) x {float64, float32}'
    for uname, names in UNITS_ONE:
        cases = [{'f': n, 'par': par, 'ns': ns} for ns in subs for n in names for par in ONE[n][2]]
        units.append(ScopeUnit(
            'seq1_' + uname, cases, run_one,
            f'{", ".join(names)}: EVERY non-empty ascending subset of orders [0..{B}] ({len(subs)}) x parameter values '
            f'{ {n: ONE[n][2] for n in names if ONE[n][2] != [[]]} or "none"} ; inside each case every coordinate shape {shapes_txt}; '
            'oracle = scalar-order function stacked; non-trivial when an order >= 1 is requested', reset=reset_poly_caches, chunk=CHUNK))
    for name, (sname, kwname, variants, pool, extra) in TWO.items():
        pl = pool if tier == 'quick' else pool + extra
        lists = ordered_lists(pl, 3, () if tier == 'quick' else pool)
        cases = [{'f': name, 'var': v, 'nms': nms} for nms in lists for v in variants]
        units.append(ScopeUnit(
            'seq2_' + name, cases, run_two,
            f'{name} vs {sname}: EVERY ordered list (repeats allowed) of length <= 3 from the pool {pl} plus the whole pool sorted, reversed and rotated'
            + ('' if tier == 'quick' else f', plus every ordered list of length 4 from {pool}') +
            f' ({len(lists)} lists) x {kwname}={variants}; inside each case every coordinate shape {shapes_txt}'
            + (' (cartesian_grid=True: the four 2-D shapes as true meshgrids)' if name == 'xy_seq' else '')
            + '; non-trivial when a pair other than (0,0) is requested', reset=reset_poly_caches, chunk=CHUNK))
    return units
