"""C08 -- sequence evaluation equals one-at-a-time evaluation.

For every ``*_seq`` function of prysm.polynomials the whole stack returned for a list of orders must
equal, mode for mode and in the order requested, what the scalar-order function of the same family
returns, with shape (len(orders), *coordinate.shape).

Oracle: the scalar-order function of the same family (the relation the property itself states).

Tolerance.  Sequence and scalar routine are two evaluations of the same polynomial by a three-term
recurrence of n steps (possibly ordered or seeded differently -- any backward-stable order is a valid
implementation), so their honest difference is bounded by a small multiple of the recurrence bound
    (n + 1) * eps * max_{k <= n} |P_k|
(for the derivative sequences: of the derivative).  Per mode j the comparison is therefore at
    tol_j = TOL_K * eps * (N_j + 1) * cond_j * max(S_j, FLOOR)
eps   = the coarser of eps(coordinate dtypes) and eps(config.precision);
N_j   = the order n (one-index, Zernike, Q2d), m + n for the XY monomials;
S_j   = max over the requested modes i with N_i <= N_j of max_x |mode_i(x)|, x over the coordinate array at hand and over the
        case's reference point set (which holds both end points of the domain), taken from the scalar results -- a lower
        estimate of max_{k<=n} sup|P_k| that needs no extra evaluations (it makes the tolerance tighter, never looser);
cond_j = 1 + |m| * max|theta| for modes with an azimuthal factor cos/sin(m theta) (the argument m*theta is formed in the
        coordinate precision by the scalar functions and in double by the sequences), 1 otherwise.
TOL_K = 96 is >= 12x the largest honest difference observed, in these units, on HEAD and on the four property-preserving
rewrites /verif/benign/C08-1..4.  Worst honest err/tol per unit, quick tier (identical for seeds 0..3):
    unit                     HEAD    benign-1  benign-2  benign-3  benign-4
    seq1_jacobi              0       0.0074    0         0         0
    seq1_cheby               0.0019  0.0093    0.0019    0.0019    0.0019
    seq1_hermite             0       0         0         0         0
    seq1_laguerre_dickson    0       0         0         0         0
    seq1_qbfs_qcon           0.0016  0.0094    0.0016    0.0016    0.0016
    seq2_zernike_nm_seq      0.0009  0.0037    0.0009    0.0009    0.0009
    seq2_zernike_nm_der_seq  0.0005  0.0005    0.0005    0.0005    0.0005
    seq2_Q2d_seq             0.0015  0.0015    0.0015    0.0015    0.0015
    seq2_xy_seq              0.0020  0.0020    0.0020    0.0020    0.0020
    hi_orders                0.0204  0.0204    0.0792    0.0204    0.0204   (benign-2: cheby3_der_seq, n=300, float32)
    dtype_precision          0.0019  0.0074    0.0019    0.0019    0.0019
    mixed_coords             0.0020  0.0021    0.0020    0.0020    0.0020
(0 = bit-identical.)  Defects of interest are O(1e-3 .. 1) relative; the loosest tolerance of the subset scope (n = 9,
float32) is 96 * 1.2e-7 * 10 = 1.1e-4 of the mode scale.

Signatures.  Every case evaluates the 1-D reference coordinate (5 points, float64) first.  When
that already disagrees the defect is about *which orders* were asked for and the signature carries
the order cell (``laguerre_der_seq:n0=0``, ``xy_seq:zero-exp``); when the 1-D reference agrees and
another coordinate array does not, the defect is about the *array shape* and the signature carries
the shape cell (``cheby2_seq:2d``, ``cheby1_seq:2d:lead=len`` = leading dimension equal to the number
of orders, the silently mis-broadcast case); a disagreement that appears only for another coordinate
dtype / config.precision carries that (``hermite_H_seq:n0=0:coords=c128``, ``...:prec32``).

Second-wave additions (docs/STRENGTHEN.md): a threshold-order alphabet (orders 170..300, the overflow
points of factorial / Gamma), a coordinate-dtype alphabet x both config.precision settings, mixed
dtypes and open (broadcastable) grids for the two-coordinate families, and the output dtype of the
sequence must be the common dtype of the scalar results (exemptions listed in DTYPE_EXEMPT).

Wave-8 additions (docs/STRENGTHEN8.md):
  order_forms / pair_forms -- the *form* in which the orders are handed over (the statement says "a whole ascending list of orders",
      not "a Python list"): tuple, range (unit step and stepped), integer ndarrays of every signed / unsigned width, lists of NumPy
      integer scalars and of 0-d arrays; for the two-index families lists of lists, tuples of tuples, (k, 2) integer ndarrays, lists
      of 1-D arrays, pairs of NumPy integers.  A form is in the domain iff HEAD answers it exactly as it answers the list (measured:
      all of the above; float-valued orders raise TypeError in every family but zernike_nm_der_seq and are not enumerated, neither
      are one-shot iterators -- generators, zip -- which several families reject).  Signature cell ``orders=<form>[:gapped]``.
  large_coords -- coordinate-size threshold alphabet (blocked / chunked sweeps that drop the tail): sizes just above a power of
      two, 2^7 .. 2^16 (1-D), 2-D / 3-D shapes up to 257x1030 and one > 2^20-element grid, every element judged.  Signature cell
      ``large:<ndim>d``.  NOT closed over the data dimension (a finite list of sizes).
  par_forms -- the shape parameters alpha / beta as Python float / int, NumPy float and (un)signed integer scalars, 0-d arrays.
  many_orders / many_pairs -- mode-count thresholds (>= 129 modes in one request), same oracle, through run_one / run_two.
  Worst honest err/tol on HEAD, seeds 0..3: order_forms 0, pair_forms 0.0022, par_forms 0, large_coords 0.0021, many_orders 0,
  many_pairs 0.0018 (same TOL_K).  These alphabet units run BEFORE the subset-exhaustive units (see plan()).

Wave-10 additions:
  coord_domain / coord_domain2 -- the coordinate RANGE as an alphabet ("whatever ... the coordinate arrays"): every other unit draws its
      coordinates from the nominal range of the family (x in [-1,1], r in [0,1], theta in [0,2pi], ...).  Enumerated here: ranges wider than the
      nominal one, wholly outside it on either side, a signed radial coordinate (a cut along a diameter: r = linspace(-1, 1), as the
      library's own Qbfs / Qcon tests use; u^|m| != (u^2)^(|m|/2) there), r > 1, negative and multi-turn angles, x / y of one sign, of
      magnitude 1e3 and 1e-3.  All of them are in the domain: HEAD's sequences agree with the scalar functions on every one (measured).
      Signature cells ``r=signed``, ``r=neg``, ``t=signed``, ``x=beyond`` ... appended to the usual mode / order cell.
  sparse_orders / sparse_pairs -- requests that are sparse AND reach high orders: every subset of size 2..3 of a pool holding low orders,
      the neighbours of 8 and 16 and high orders (one-index: ascending; two-index: in every order, so also unsorted / descending), e.g.
      [(4,0),(16,0)] -- per |m| a few radial orders of which one is >= 8.  The subset units stop at order 6 / 9, hi_orders and many_* are
      dense or single; a per-|m| table keyed or sized by the orders actually requested goes wrong only here.
  Worst honest err/tol on HEAD, seeds 0..3: coord_domain 0.0023, coord_domain2 0.059 (zernike_nm_seq, theta in [-4pi,4pi], float32),
  sparse_orders 0, sparse_pairs 0.0020.
"""
import itertools

import numpy as np

from mc import ScopeUnit, FAILED
from mc.linalg import dense
from mc.state import reset_poly_caches

import prysm.polynomials as P
from prysm.conf import config

ID = 'C08'

TOL_K = 96         # see the worst-honest-ratio table in the module docstring
CHUNK = 32          # cases per work item: small, so that the 40-violations-per-item cap of the explorer does not hide signatures
FLOOR = 1e-2       # modes whose magnitude is below this are compared at K*eps*FLOOR absolute

# ---------------------------------------------------------------------------------------------
# families

J3 = [[0, 2], [-0.5, -0.5], [1.5, 0.25]]
# name of the sequence function -> (scalar function, coordinate domain, parameter values)
ONE = {
    'jacobi_seq': ('jacobi', (-1, 1), J3),
    'jacobi_der_seq': ('jacobi_der', (-1, 1), J3),
    'legendre_seq': ('legendre', (-1, 1), [[]]),
    'legendre_der_seq': ('legendre_der', (-1, 1), [[]]),
    'cheby1_seq': ('cheby1', (-1, 1), [[]]),
    'cheby1_der_seq': ('cheby1_der', (-1, 1), [[]]),
    'cheby2_seq': ('cheby2', (-1, 1), [[]]),
    'cheby2_der_seq': ('cheby2_der', (-1, 1), [[]]),
    'cheby3_seq': ('cheby3', (-1, 1), [[]]),
    'cheby3_der_seq': ('cheby3_der', (-1, 1), [[]]),
    'cheby4_seq': ('cheby4', (-1, 1), [[]]),
    'cheby4_der_seq': ('cheby4_der', (-1, 1), [[]]),
    'hermite_He_seq': ('hermite_He', (-2, 2), [[]]),
    'hermite_He_der_seq': ('hermite_He_der', (-2, 2), [[]]),
    'hermite_H_seq': ('hermite_H', (-2, 2), [[]]),
    'hermite_H_der_seq': ('hermite_H_der', (-2, 2), [[]]),
    'laguerre_seq': ('laguerre', (0, 4), [[0], [0.5], [2]]),
    'laguerre_der_seq': ('laguerre_der', (0, 4), [[0], [0.5], [2]]),
    'dickson1_seq': ('dickson1', (-2, 2), [[-1], [0], [0.5]]),
    'dickson2_seq': ('dickson2', (-2, 2), [[-1], [0], [0.5]]),
    'Qbfs_seq': ('Qbfs', (0, 1), [[]]),
    'Qcon_seq': ('Qcon', (0, 1), [[]]),
}
UNITS_ONE = [
    ('jacobi', ['jacobi_seq', 'jacobi_der_seq', 'legendre_seq', 'legendre_der_seq']),
    ('cheby', ['cheby1_seq', 'cheby1_der_seq', 'cheby2_seq', 'cheby2_der_seq',
               'cheby3_seq', 'cheby3_der_seq', 'cheby4_seq', 'cheby4_der_seq']),
    ('hermite', ['hermite_He_seq', 'hermite_He_der_seq', 'hermite_H_seq', 'hermite_H_der_seq']),
    ('laguerre_dickson', ['laguerre_seq', 'laguerre_der_seq', 'dickson1_seq', 'dickson2_seq']),
    ('qbfs_qcon', ['Qbfs_seq', 'Qcon_seq']),
]

# two-index families: name -> (scalar, variants (extra keyword values), pool quick, extra pairs for thorough)
POOL_Z = [[0, 0], [1, 1], [1, -1], [2, 0], [2, -2], [3, 1], [4, 0], [4, 2], [5, -3]]
POOL_Z_T = [[3, -1], [6, 0], [6, 2]]
POOL_Q = [[0, 0], [2, 0], [0, 1], [2, 1], [3, 1], [4, -1], [1, 2], [3, -2], [0, -3]]
POOL_Q_T = [[5, 1], [1, -1], [4, 3]]
POOL_XY = [[0, 0], [1, 0], [0, 1], [1, 1], [2, 0], [0, 3], [2, 1], [1, 2], [3, 3]]
POOL_XY_T = [[4, 0], [0, 2], [2, 4]]
TWO = {
    'zernike_nm_seq': ('zernike_nm', 'norm', [True, False], POOL_Z, POOL_Z_T),
    'zernike_nm_der_seq': ('zernike_nm_der', 'norm', [True, False], POOL_Z, POOL_Z_T),
    'Q2d_seq': ('Q2d', None, [None], POOL_Q, POOL_Q_T),
    'xy_seq': ('xy', 'cartesian_grid', [False, True], POOL_XY, POOL_XY_T),
}
COVERED = set(ONE) | set(TWO)

# order lists around the overflow points of n! / Gamma(n+1) (171) and of float32 / power-of-two sizes
HIGH_ORDERS = [[171], [300], [170, 171], [0, 171], [171, 172, 200], [255, 256, 300]]
DTYPE_ORDERS = [[0, 1, 2, 5], [3], [1, 4]]
# the sequence dtype must equal the common dtype of the scalar results, except (current tree, NumPy 2 promotion rules):
DTYPE_EXEMPT = {
    **{f'cheby{i}{d}_seq': 'float32 coordinates: the scalar function returns float64 for n=0 and float32 otherwise (1/np.ones_like(1) is a '
       'float64 scalar); cheby2/4 sequences return float64 (integer order array / float32), cheby1/3 float32' for i in (1, 2, 3, 4) for d in ('', '_der')},
    'Qbfs_seq': 'float32 coordinates: Qbfs(n>=1) multiplies by the float64 scalar 1/np.sqrt(19) and returns float64, Qbfs(0) and Qbfs_seq float32',
    'Q2d_seq': 'inherits Qbfs for m=0; for m!=0 the scalar result takes result_type(r, t), the sequence the dtype of r',
    **{n: 'float32 coordinates: zernike_nm_seq calls recurrence_abc(n, 0, np.int64(|m|)), which caches NumPy float64 constants under the key the scalar '
          'function uses with a Python int; after that zernike_nm returns float64 for float32 input, on a cold cache float32 (history-dependent dtype)'
       for n in ('zernike_nm_seq', 'zernike_nm_der_seq')},
}
# families (and parameter values) for which integer coordinate arrays are enumerated: every scalar one-index function accepts them
INT_COORDS = {n: ONE[n][2] for n in ONE}
INT_PAIRS = {'xy_seq', 'Q2d_seq'}        # two-coordinate families whose scalar function accepts integer coordinates
OPEN_GRID = {'xy_seq', 'Q2d_seq'}        # two-coordinate families for which (1,N) x (M,1) coordinates are enumerated
SHORT = {'float64': 'f64', 'float32': 'f32', 'complex128': 'c128', 'int64': 'i64'}

ASSUMPTIONS = [
    'the scalar-order function of each family is taken as the definition of the mode (the relation C08 states); '
    'whether the scalar functions are the textbook polynomials is C07/C09',
    'xy / xy_seq with cartesian_grid=True are exercised only on 2-D meshgrid coordinates, the precondition that flag asserts '
    '(on 0-D/1-D/3-D input xy() forms an outer product and xy_seq() does not; with cartesian_grid=False every shape is exercised)',
    'orders are passed as Python lists of int and (n, m) pairs as lists of tuples in the subset-exhaustive units; the other generator-free forms '
    '(tuple, range with any positive step, integer ndarrays int8..int64 / uint8..uint64, lists of NumPy integer scalars or 0-d arrays; lists of lists, '
    'tuples of tuples, (k,2) integer ndarrays, lists of 1-D arrays) are an alphabet crossed with a fixed list of order requests (units order_forms, pair_forms); '
    'float-valued orders and one-shot iterators (generators, zip) are outside the domain: HEAD raises TypeError for them in most families',
    'the shape parameters (alpha, beta) are passed as the JSON int / float values in the subset-exhaustive units; Python float / int, np.float64 / float32, '
    'np.int64 / int8 / uint8 / uint64 and 0-d arrays are an alphabet (unit par_forms); jacobi / jacobi_seq raise TypeError for 0-d array parameters (lru_cache key)',
    'the coordinate-size alphabet (unit large_coords) and the mode-count alphabet (unit many_orders) are finite lists of sizes, not closed over the data dimension',
    'the threshold-order, dtype/precision and mixed-dtype/open-grid units are alphabets (finite lists), not closed over subsets of orders',
    'coordinate values: the subset-exhaustive units draw the coordinates from the nominal range of the family (one seeded representative per shape, the 1-D '
    'point set also holds both end points and the middle); ranges outside it (wider, one-sided, signed radius, r > 1, negative / multi-turn angles, |x| ~ 1e3, 1e-3) '
    'are a finite alphabet crossed with a fixed list of requests (units coord_domain, coord_domain2), not closed over the reals',
    'sparse high-order requests (units sparse_orders, sparse_pairs) are every 2- and 3-subset of a fixed pool, not every subset of [0..N] for a high N',
    'integer (int64) coordinates are enumerated for every family whose scalar function accepts them: all one-index families, xy and Q2d; '
    'zernike_nm / zernike_nm_der raise on integer r (in-place float update of an integer array), so the Zernike sequences have no integer oracle',
    'open grids (x or r of shape (1,N), y or t of shape (M,1)) are enumerated for xy_seq and Q2d_seq; zernike_nm raises on them for m != 0 '
    '(in-place update of an array shaped like r), so there is no oracle; Q2d(n, 0, r, t) ignores t and returns r-shaped data, which is broadcast '
    'to the common shape before stacking',
    'the dtype of the stack must equal the common dtype of the scalar results, except for the float32 inconsistencies of the current tree '
    'listed in DTYPE_EXEMPT (dtype is not part of the statement): ' + '; '.join(f'{k}: {v}' for k, v in sorted(DTYPE_EXEMPT.items()) if k in ('cheby1_seq', 'Qbfs_seq', 'Q2d_seq', 'zernike_nm_seq'))
    + ' (same for the other cheby*_seq and zernike_nm_der_seq)',
]


# ---------------------------------------------------------------------------------------------
# coordinates

def shapes_for(k):
    """The coordinate shapes of DESIGN C08 for a list of k orders; 1-D reference first, no duplicates."""
    out = []
    for s in ((5,), (), (1,), (k,), (3, 4), (4, 3), (k, 4), (4, k), (2, 3, 2)):
        if s not in out:
            out.append(s)
    return out


def coords(shape, seed, salt, lo, hi, dtype):
    """Generic seeded representative inside (lo, hi); the 1-D reference also carries both end points and the middle."""
    a = dense(shape, seed, salt, complex_=False)
    x = lo + (hi - lo) * (0.5 + 0.5 * np.tanh(np.asarray(a, dtype=float)))
    x = np.asarray(x, dtype=float)
    if shape == (5,):
        x[0], x[1], x[2] = lo, hi, 0.5 * (lo + hi)
    if np.dtype(dtype).kind == 'c':
        x = x + 0.25j * np.tanh(np.asarray(dense(shape, seed, salt + 100, complex_=False), dtype=float))
    if np.dtype(dtype).kind in 'iu':
        x = np.rint(x)
    return np.asarray(x, dtype=dtype)


def eps_of(*dtypes, prec=64):
    """Comparison precision: the coarsest of the coordinate dtypes' and of the configured precision."""
    e = float(np.finfo(np.float32 if prec == 32 else np.float64).eps)
    for d in dtypes:
        d = np.dtype(d)
        if d.kind in 'fc':
            e = max(e, float(np.finfo(d).eps))
    return e


def dimclass(shape, k):
    c = f'{len(shape)}d'
    if len(shape) >= 2 and shape[0] == k:
        c += ':lead=len'
    return c


def own_scales(want):
    k = want.shape[0]
    own = np.abs(want.reshape(k, -1)).max(axis=1) if want[0].size else np.zeros(k)
    return np.where(np.isfinite(own), own, 1.0)


def mode_scales(want, orders, ref=None):
    """S_j = max over requested modes i with N_i <= N_j of max|mode_i| (scalar results), FLOOR at least.

    ref: the same per-mode maxima on the case's reference coordinates (1-D point set with both end points of the domain);
    a 0-D or one-point coordinate array says nothing about max_x |P_k(x)|, which is what the recurrence bound refers to."""
    k = want.shape[0]
    own = own_scales(want)
    if ref is not None and len(ref) == k:
        own = np.maximum(own, ref)
    orders = np.asarray(orders, dtype=float)
    return np.array([max(FLOOR, own[orders <= orders[j]].max()) for j in range(k)])


def compare(got, want, eps, orders, cond=None, ref=None):
    """-> (ok, bad mode indices, message); never raises.  want has been built by the harness.

    tol_j = TOL_K * eps * (N_j + 1) * cond_j * S_j, see the module docstring.  compare.worst records the largest
    finite err/tol seen (development aid: tools for re-deriving TOL_K read it)."""
    try:
        g = np.asarray(got)
        if g.dtype.kind not in 'fiuc':
            return False, None, f'non-numeric output dtype {g.dtype}'
        if g.shape != want.shape:
            return False, None, f'shape {g.shape} != expected {want.shape}'
        if (g.dtype.kind == 'c') != (want.dtype.kind == 'c'):
            return False, None, f'output dtype {g.dtype} but the scalar function returns a {"complex" if want.dtype.kind == "c" else "real"} result'
        g = g.astype(want.dtype)
        w = want
        k = w.shape[0]
        tol = TOL_K * eps * (np.asarray(orders, dtype=float) + 1.0) * mode_scales(w, orders, ref) * (1.0 if cond is None else np.asarray(cond, dtype=float))
        tol = tol.reshape((k,) + (1,) * (w.ndim - 1))
        with np.errstate(invalid='ignore'):
            err = np.abs(g - w)
        same = (g == w) | (np.isnan(g) & np.isnan(w))
        err = np.where(same, 0.0, np.where(np.isnan(err), np.inf, err))
        badel = err > tol
        finite = np.isfinite(err)
        if finite.any():
            compare.worst = max(compare.worst, float(np.max(np.where(finite, err, 0) / tol)))
        if not badel.any():
            return True, [], ''
        bad = [j for j in range(k) if badel[j].any()]
        j = bad[0]
        i = int(np.argmax(np.where(badel[j], err[j], -1).ravel()))
        return False, bad, (f'modes {bad} differ; mode {j}: max|err|={float(np.max(err[j])):.3e} > tol={float(tol[j].ravel()[0]):.3e} '
                            f'got {g[j].ravel()[i]!r} want {w[j].ravel()[i]!r}')
    except Exception as e:   # noqa -- an uncomparable output is a wrong output
        return False, None, f'uncomparable output ({type(e).__name__}: {e})'


compare.worst = 0.0


def stack_scalar(R, outs, shape, sname, broadcast=False):
    """Stack validated scalar-function outputs into the expected array; None when the scalar side failed.

    broadcast=True (open grids): a scalar result that depends on one coordinate only is broadcast to the common shape."""
    if any(o is FAILED for o in outs):
        return None
    try:
        arrs = [np.asarray(o) for o in outs]
        if broadcast:
            arrs = [np.broadcast_to(a, shape) if a.shape != tuple(shape) and np.broadcast_shapes(a.shape, tuple(shape)) == tuple(shape) else a for a in arrs]
        for a in arrs:
            if a.shape != tuple(shape) or a.dtype.kind not in 'fiuc':
                R.violation(f'{sname}:shape', f'{sname} returned shape {a.shape} dtype {a.dtype} for coordinates of shape {tuple(shape)}')
                return None
        kind = complex if any(a.dtype.kind == 'c' for a in arrs) else float
        return np.stack([a.astype(kind) for a in arrs]) if arrs else None
    except Exception as e:   # noqa
        R.violation(f'{sname}:shape', f'{sname} output cannot be stacked: {type(e).__name__}: {e}')
        return None


def observe(R, got):
    """Feed the sequence output into the determinism digest of the case."""
    try:
        R.observe(np.asarray(got))
    except Exception:   # noqa -- an uncomparable output has already been reported by compare()
        pass


def check_dtype(R, name, got, outs, label, coord_dtypes):
    """The stack's dtype is the common dtype of the scalar results (what stacking them one at a time would give)."""
    if name in DTYPE_EXEMPT or got is FAILED:
        return
    if any(np.ndim(o) == 0 for o in outs):
        return      # 0-D coordinates decay to NumPy scalars inside the scalar functions, whose in-place ops re-bind and promote differently
    try:
        gd = np.asarray(got).dtype
        wd = np.result_type(*[np.asarray(o).dtype for o in outs])
    except Exception:   # noqa -- reported by compare()
        return
    R.expect(gd == wd, f'{name}:dtype:{label}', f'{name} returns dtype {gd} for {coord_dtypes} coordinates; the scalar function returns {wd}')


def dedupe(R):
    """One violation per signature and case (the first), so that one defect does not flood the report."""
    seen, keep = set(), []
    for v in R.violations:
        if v['sig'] not in seen:
            seen.add(v['sig'])
            keep.append(v)
    R.violations[:] = keep


# ---------------------------------------------------------------------------------------------
# one-index families

def order_cell(ns):
    c = f'n0={ns[0] if ns[0] < 3 else "3+"}'
    if any(b - a != 1 for a, b in zip(ns, ns[1:])):
        c += ':gapped'
    if ns[-1] >= 100:
        c += ':high'
    return c


def run_one(case, seed, R):
    """case: f, par, ns [, shapes, dtypes, prec].  Default: every DESIGN shape x {float64, float32} at precision 64."""
    name, par, ns = case['f'], case['par'], case['ns']
    sname, (lo, hi), _ = ONE[name]
    fseq, fsca = getattr(P, name, None), getattr(P, sname, None)
    if not R.expect(callable(fseq) and callable(fsca), f'{name}:missing', f'{name} / {sname} not exported by prysm.polynomials'):
        return
    k = len(ns)
    shapes = [tuple(sh) for sh in case['shapes']] if 'shapes' in case else shapes_for(k)
    dtypes = case.get('dtypes', ['float64', 'float32'])
    prec = case.get('prec', 64)
    tail = ':prec32' if prec == 32 else ''
    if 'dom' in case:                   # coordinate-range alphabet (unit coord_domain): the same relation outside the nominal range
        lo, hi = case['dom']
        tail += ':' + dom_label('x', lo, hi, ONE[name][1])
    ref_ok = {}
    ref_scale = None
    config.precision = prec
    try:
        for shape in shapes:
            for dtype in dtypes:
                eps = eps_of(dtype, prec=prec)
                x = coords(shape, seed, 11, lo, hi, dtype)
                xin = x.copy()
                got = R.call(fseq, list(ns), *par, xin, sig=f'{name}:raises')
                exc = R.violations.pop()['msg'] if got is FAILED else None   # re-filed below under the cell signature
                outs = [R.call(fsca, n, *par, x.copy(), sig=f'{sname}:raises') for n in ns]
                want = stack_scalar(R, outs, shape, sname)
                if want is None:
                    if exc is not None:
                        R.violation(f'{name}:raises', exc)
                    continue
                R.checks += 1
                if ref_scale is None:
                    ref_scale = own_scales(want)        # first configuration = the float64 reference point set
                if got is FAILED:
                    ok, msg = False, exc
                else:
                    ok, bad, msg = compare(got, want, eps, ns, ref=ref_scale)
                    observe(R, got)
                is_ref = shape == (5,)
                if is_ref:
                    ref_ok[dtype] = ok
                if not ok:
                    if not ref_ok.get('float64', True) or (is_ref and dtype == 'float64'):
                        cell = order_cell(ns)                       # already wrong on the 1-D float64 reference: about the orders
                    elif is_ref:
                        cell = order_cell(ns) + ':coords=' + SHORT.get(dtype, dtype)
                    else:
                        cell = dimclass(shape, k)
                        if dtype != 'float64' and ref_ok.get(('shape', shape), False):
                            cell += ':coords=' + SHORT.get(dtype, dtype)
                    R.violation(f'{name}:{cell}{tail}', f'{name}({list(ns)}, {", ".join(map(str, par))}{", " if par else ""}x{list(shape)} {dtype}, '
                                                       f'config.precision={prec}) vs {sname}: {msg}')
                else:
                    check_dtype(R, name, got, outs, SHORT.get(dtype, dtype) + tail, dtype)
                if dtype == 'float64':
                    ref_ok[('shape', shape)] = ok
                R.expect(np.array_equal(xin, x), f'{name}:input-mutated', f'{name} modified its coordinate array (shape {shape})')
    finally:
        config.precision = 64
    dedupe(R)
    R.nontrivial(any(n >= 1 for n in ns))
    R.outcome('single' if k == 1 else ('gapped' if 'gapped' in order_cell(ns) else 'contiguous'))


# ---------------------------------------------------------------------------------------------
# two-index families

def mode_cell(name, pair):
    a, b = pair
    if name == 'xy_seq':
        return 'zero-exp' if (a == 0 or b == 0) else 'pos-exp'
    m = b
    if name == 'Q2d_seq':
        return 'm=0' if m == 0 else (('m=+1' if m > 0 else 'm=-1') if abs(m) == 1 else ('m>1' if m > 0 else 'm<-1'))
    return 'm=0' if m == 0 else ('m>0' if m > 0 else 'm<0')


def two_configs(case, name, k, grid_only):
    """-> list of (shape of x/r, shape of y/t, dtype of x/r, dtype of y/t).  Default: the DESIGN shapes, one dtype for both."""
    if 'cfg' in case:
        return [(tuple(c[0]), tuple(c[1]), c[2], c[3]) for c in case['cfg']]
    return [(sh, sh, dt, dt) for sh in shapes_for(k) if not (grid_only and len(sh) != 2) for dt in ('float64', 'float32')]


def dom_label(what, lo, hi, nom):
    """Signature cell of a coordinate range [lo, hi] relative to the nominal range nom: its sign class (signed / neg / pos) when that differs
    from the nominal one's, else 'beyond' (same signs, reaches outside the nominal range) or 'inside'."""
    def cls(a, b):
        return 'signed' if a < 0 < b else ('neg' if b <= 0 else 'pos')
    c = cls(lo, hi)
    if c == cls(*nom):
        c = 'beyond' if (lo < nom[0] or hi > nom[1]) else 'inside'
    return f'{what}={c}'


def two_coords(name, grid_only, sa, sb, da, db, seed, dom=None):
    """dom: None (nominal: x, y in [-2, 2]; r in [0, 1], theta in [0, 2 pi]) or [lo_a, hi_a, lo_b, hi_b]."""
    if name == 'xy_seq':
        xl, xh, yl, yh = dom if dom is not None else (-2, 2, -2, 2)
        if sa == sb and grid_only:
            xv = coords((sa[1],), seed, 21, xl, xh, da)
            yv = coords((sa[0],), seed, 22, yl, yh, db)
            return tuple(np.ascontiguousarray(v) for v in np.meshgrid(xv, yv))
        if sa != sb:          # open grid: x is a row (1, N), y a column (M, 1) -- np.meshgrid(..., sparse=True)
            xv = coords((int(np.prod(sa)),), seed, 21, xl, xh, da)
            yv = coords((int(np.prod(sb)),), seed, 22, yl, yh, db)
            return xv.reshape(sa), yv.reshape(sb)
        return coords(sa, seed, 21, xl, xh, da), coords(sa, seed, 22, yl, yh, db)
    rl, rh, tl, th = dom if dom is not None else (0, 1, 0, 2 * np.pi)
    a = coords((int(np.prod(sa)),) if sa != sb else sa, seed, 23, rl, rh, da).reshape(sa)         # r
    b = coords((int(np.prod(sb)),) if sa != sb else sb, seed, 24, tl, th, db).reshape(sb)         # theta
    return a, b


def run_two(case, seed, R):
    """case: f, var, nms [, cfg, prec]."""
    name, var, nms = case['f'], case['var'], [tuple(p) for p in case['nms']]
    sname, kwname, _, _, _ = TWO[name]
    fseq, fsca = getattr(P, name, None), getattr(P, sname, None)
    if not R.expect(callable(fseq) and callable(fsca), f'{name}:missing', f'{name} / {sname} not exported by prysm.polynomials'):
        return
    kw = {} if kwname is None else {kwname: var}
    k = len(nms)
    grid_only = name == 'xy_seq' and var is True
    prec = case.get('prec', 64)
    tail = ':prec32' if prec == 32 else ''
    dom = case.get('dom')               # coordinate-range alphabet (unit coord_domain2)
    if dom is not None:
        ca, cb = ('x', 'y') if name == 'xy_seq' else ('r', 't')
        nominal = (-2, 2, -2, 2) if name == 'xy_seq' else (0, 1, 0, 2 * np.pi)
        for c_, i in ((ca, 0), (cb, 2)):            # only the ranges that differ from the nominal one enter the signature
            if (dom[i], dom[i + 1]) != nominal[i:i + 2]:
                tail += ':' + dom_label(c_, dom[i], dom[i + 1], nominal[i:i + 2])
    ref_ok = {}
    ref_scale = None
    config.precision = prec
    try:
        for sa, sb, da, db in two_configs(case, name, k, grid_only):
            shape = tuple(np.broadcast_shapes(sa, sb))
            eps = eps_of(da, db, prec=prec)
            a, b = two_coords(name, grid_only, sa, sb, da, db, seed, dom)
            ain, bin_ = a.copy(), b.copy()
            got = R.call(fseq, list(nms), ain, bin_, sig=f'{name}:raises', **kw)
            exc = R.violations.pop()['msg'] if got is FAILED else None   # re-filed below under the cell signature
            outs = [R.call(fsca, p[0], p[1], a.copy(), b.copy(), sig=f'{sname}:raises', **kw) for p in nms]
            if name == 'zernike_nm_der_seq':
                # scalar returns (d/dr, d/dt); the sequence stacks them on axis 1
                try:
                    outs = [o if o is FAILED else np.stack([np.asarray(o[0]), np.asarray(o[1])]) for o in outs]
                except Exception as e:   # noqa
                    R.violation(f'{sname}:shape', f'{sname} did not return a (dr, dt) pair of equal shapes: {type(e).__name__}: {e}')
                    if exc is not None:
                        R.violation(f'{name}:raises', exc)
                    continue
                want = stack_scalar(R, outs, (2, *shape), sname)
            else:
                want = stack_scalar(R, outs, shape, sname, broadcast=sa != sb)
            if want is None:
                if exc is not None:
                    R.violation(f'{name}:raises', exc)
                continue
            R.checks += 1
            bad = None
            if ref_scale is None:
                ref_scale = own_scales(want)            # first configuration = the float64 reference coordinates
            if got is FAILED:
                ok, msg = False, exc
            else:
                tmax = float(np.max(np.abs(b))) if b.size else 0.0
                cond = None if name == 'xy_seq' else [1.0 + abs(p[1]) * tmax for p in nms]
                orders = [p[0] + p[1] for p in nms] if name == 'xy_seq' else [p[0] for p in nms]
                ok, bad, msg = compare(got, want, eps, orders, cond, ref=ref_scale)
                observe(R, got)
            plain = sa == sb and da == db
            is_ref = plain and sa == ((5,) if not grid_only else (3, 4))
            dlabel = SHORT.get(da, da) if da == db else f'{SHORT.get(da, da)}/{SHORT.get(db, db)}'
            if is_ref:
                ref_ok[da] = ok
            if not ok:
                modes = '+'.join(sorted({mode_cell(name, nms[j]) for j in (bad if bad else range(k))}))
                if not ref_ok.get('float64', True) or (is_ref and da == 'float64'):
                    cell = modes
                elif is_ref:
                    cell = modes + ':coords=' + dlabel
                elif sa != sb:
                    cell = 'open-grid' + ('' if dlabel == 'f64' else ':coords=' + dlabel)
                elif da != db:
                    cell = 'coords=' + dlabel
                else:
                    cell = dimclass(sa, k)
                    if da != 'float64' and ref_ok.get(('shape', sa), False):
                        cell += ':coords=' + dlabel
                vs = '' if kwname is None else f', {kwname}={var}'
                R.violation(f'{name}:{cell}{tail}', f'{name}({list(nms)}, coords {list(sa)} {da} / {list(sb)} {db}{vs}, config.precision={prec}) vs {sname}: {msg}')
            elif da == db or name == 'xy_seq':
                # with two different coordinate dtypes only xy() has a well-defined result dtype (result_type(x, y));
                # the polar scalar functions take it from r in some orders and from theta in others
                check_dtype(R, name, got, outs, dlabel + tail, f'{da}/{db}')
            if plain and da == 'float64':
                ref_ok[('shape', sa)] = ok
            R.expect(np.array_equal(ain, a) and np.array_equal(bin_, b), f'{name}:input-mutated',
                     f'{name} modified its coordinate arrays (shapes {sa}, {sb})')
    finally:
        config.precision = 64
    dedupe(R)
    R.nontrivial(any(p != (0, 0) for p in nms))
    R.outcome('single' if k == 1 else ('repeat' if len(set(nms)) < k else 'distinct'))


# ---------------------------------------------------------------------------------------------
# inventory: every *_seq function exported by the package is in a table above

def run_inventory(case, seed, R):
    import importlib
    import pkgutil
    found = {n for n in dir(P) if n.endswith('_seq') and callable(getattr(P, n))}
    for m in pkgutil.iter_modules(P.__path__):
        mod = R.call(importlib.import_module, 'prysm.polynomials.' + m.name, sig=f'inventory:import:{m.name}')
        if mod is FAILED:
            continue
        found |= {n for n, v in vars(mod).items() if n.endswith('_seq') and callable(v) and getattr(v, '__module__', '') == mod.__name__}
    R.expect(found <= COVERED, 'inventory:uncovered', f'sequence functions without a C08 table entry: {sorted(found - COVERED)}')
    R.expect(COVERED <= found, 'inventory:missing', f'sequence functions no longer present: {sorted(COVERED - found)}')
    R.nontrivial(len(found) > 0)
    R.outcome('inventory')


# ---------------------------------------------------------------------------------------------

def subsets(B):
    """Every non-empty ascending subset of [0..B], simplest (shortest, lowest) first."""
    out = []
    for k in range(1, B + 2):
        out.extend(list(c) for c in itertools.combinations(range(B + 1), k))
    return out


def ordered_lists(pool, L, pool4=()):
    out = []
    for k in range(1, L + 1):
        out.extend([list(p) for p in t] for t in itertools.product(pool, repeat=k))
    out.extend([list(p) for p in t] for t in itertools.product(pool4, repeat=4))
    srt = sorted(pool, key=lambda p: (p[0], p[1]))
    for full in (srt, srt[::-1], srt[len(srt) // 2:] + srt[:len(srt) // 2]):
        out.append([list(p) for p in full])
    return out


def plan(tier, seed):
    B = 6 if tier == 'quick' else 9
    subs = subsets(B)
    units = [ScopeUnit('inventory', [{'inventory': 'prysm.polynomials'}], run_inventory,
                       'one case: the set of *_seq callables found in prysm.polynomials and its submodules equals the set of functions enumerated below')]
    # the alphabet units (finite lists, cheap) run before the subset-exhaustive units: most defect classes per CPU second first,
    # so that a wall-clock cap on a loaded machine cuts the tail of the big enumerations rather than whole classes
    units.extend(wave10(tier))
    units.extend(wave8(tier))
    units.extend(second_wave(tier))
    shapes_txt = '{(5,) with end points, (), (1,), (k,), (3,4), (4,3), (k,4), (4,k), (2,3,2)} (k = number of orders) x {float64, float32}'
    for uname, names in UNITS_ONE:
        cases = [{'f': n, 'par': par, 'ns': ns} for ns in subs for n in names for par in ONE[n][2]]
        units.append(ScopeUnit(
            'seq1_' + uname, cases, run_one,
            f'{", ".join(names)}: EVERY non-empty ascending subset of orders [0..{B}] ({len(subs)}) x parameter values '
            f'{ {n: ONE[n][2] for n in names if ONE[n][2] != [[]]} or "none"} ; inside each case every coordinate shape {shapes_txt}; '
            'oracle = scalar-order function stacked; non-trivial when an order >= 1 is requested', reset=reset_poly_caches, chunk=CHUNK))
    for name, (sname, kwname, variants, pool, extra) in TWO.items():
        pl = pool if tier == 'quick' else pool + extra
        lists = ordered_lists(pl, 3, () if tier == 'quick' else pool)
        cases = [{'f': name, 'var': v, 'nms': nms} for nms in lists for v in variants]
        units.append(ScopeUnit(
            'seq2_' + name, cases, run_two,
            f'{name} vs {sname}: EVERY ordered list (repeats allowed) of length <= 3 from the pool {pl} plus the whole pool sorted, reversed and rotated'
            + ('' if tier == 'quick' else f', plus every ordered list of length 4 from {pool}') +
            f' ({len(lists)} lists) x {kwname}={variants}; inside each case every coordinate shape {shapes_txt}'
            + (' (cartesian_grid=True: the four 2-D shapes as true meshgrids)' if name == 'xy_seq' else '')
            + '; non-trivial when a pair other than (0,0) is requested', reset=reset_poly_caches, chunk=CHUNK))
    return units


def second_wave(tier):
    """Threshold orders, coordinate dtypes x config.precision, mixed dtypes / open grids (docs/STRENGTHEN.md)."""
    two_shapes = [[5], [3, 4]]
    # (1) threshold orders: every one-index family, every parameter value
    hi_cases = [{'f': n, 'par': par, 'ns': ns, 'shapes': two_shapes, 'dtypes': ['float64', 'float32']}
                for ns in HIGH_ORDERS for n in ONE for par in ONE[n][2]]
    # (2) coordinate dtype alphabet x both precisions
    dt_cases = []
    for prec in (64, 32):
        for ns in DTYPE_ORDERS:
            for n in ONE:
                dt_cases.append({'f': n, 'par': ONE[n][2][0], 'ns': ns, 'shapes': two_shapes,
                                 'dtypes': ['float64', 'float32', 'complex128'], 'prec': prec})
                for par in INT_COORDS.get(n, []):
                    dt_cases.append({'f': n, 'par': par, 'ns': ns, 'shapes': two_shapes, 'dtypes': ['float64', 'int64'], 'prec': prec, 'int': 1})
    # (3) two-coordinate families: mixed dtypes, open grids
    mix = [['float64', 'float64'], ['float32', 'float64'], ['float64', 'float32']]
    mix_int = [['int64', 'float64'], ['float64', 'int64'], ['int64', 'int64']]
    mix_xy = mix + mix_int + [['complex128', 'float64'], ['float32', 'complex128']]
    two_cases = []
    for prec in (64, 32):
        for name, (sname, kwname, variants, pool, extra) in TWO.items():
            srt = sorted(pool, key=lambda p: (p[0], p[1]))
            lists = [[p] for p in pool] + [srt, [pool[3], pool[1], pool[8]], [pool[5], pool[5], pool[2]]]
            for v in variants:
                grid = name == 'xy_seq' and v is True
                cfg = []
                for da, db in (mix_xy if name == 'xy_seq' else (mix + mix_int if name in INT_PAIRS else mix)):
                    for sh in (([3, 4],) if grid else ([5], [3, 4])):
                        cfg.append([sh, sh, da, db])
                    if name in OPEN_GRID:
                        cfg.append([[1, 4], [3, 1], da, db])
                for nms in lists:
                    two_cases.append({'f': name, 'var': v, 'nms': nms, 'cfg': cfg, 'prec': prec})
    return [
        ScopeUnit('hi_orders', hi_cases, run_one,
                  f'threshold-order alphabet (NOT closed over subsets): every one-index *_seq x every parameter value x order lists {HIGH_ORDERS} '
                  '(around the overflow of n!/Gamma at 171 and 255/256/300) on the 1-D point set and a (3,4) grid, float64 and float32; inf/NaN patterns '
                  'must match the scalar function exactly', reset=reset_poly_caches, chunk=4),
        ScopeUnit('dtype_precision', dt_cases, run_one,
                  f'coordinate-dtype alphabet: every one-index *_seq x order lists {DTYPE_ORDERS} x config.precision {{64, 32}} x coordinates '
                  '{float64, float32, complex128}, and int64 (integers of the domain) x every parameter value, on the 1-D point set and a (3,4) grid; values as the scalar '
                  'function, and the dtype of the stack = common dtype of the scalar results (exempt: ' + ', '.join(sorted(DTYPE_EXEMPT)) + ')',
                  reset=reset_poly_caches, chunk=CHUNK),
        ScopeUnit('mixed_coords', two_cases, run_two,
                  'two-coordinate families x config.precision {64, 32} x lists {each pool pair alone, the sorted pool, two 3-lists}: the two coordinate arrays '
                  f'differ in dtype {mix} (' + ', '.join(sorted(INT_PAIRS)) + f' also {mix_int}, xy_seq also {mix_xy[6:]}) on (5,) and (3,4) coordinates, and for '
                  + ', '.join(sorted(OPEN_GRID)) + ' open grids x|r (1,4) / y|t (3,1); expected shape = broadcast shape, values and dtype as the scalar function', reset=reset_poly_caches, chunk=CHUNK),
    ]


# ---------------------------------------------------------------------------------------------
# wave 8 (docs/STRENGTHEN8.md): argument forms of the order list, coordinate-size thresholds, mode-count thresholds

INT_DTYPES = ['int8', 'int16', 'int32', 'int64', 'uint8', 'uint16', 'uint32', 'uint64']
# arithmetic progressions (start, stop, step) -- the only requests a range can express -- and two irregular ascending lists
ORDER_REQS = [[0, 5, 1], [2, 7, 1], [0, 1, 1], [1, 2, 1], [4, 5, 1], [1, 10, 2], [0, 9, 2], [3, 16, 3], [1, 9, 3], [0, 12, 11]]
ORDER_LISTS = [[0, 1, 4], [2, 3, 7, 8]]


def order_forms(ns, req):
    """-> ordered {form name: argument object}; 'list' (the form of the subset units) first as the baseline."""
    out = {'list': list(ns), 'tuple': tuple(ns)}
    if req is not None:
        out['range'] = range(*req)
    for dt in INT_DTYPES:
        out[f'ndarray:{dt}'] = np.asarray(ns, dtype=dt)
    for dt in INT_DTYPES:
        out[f'list:np.{dt}'] = [np.dtype(dt).type(n) for n in ns]
    out['list:0d-int64'] = [np.asarray(n, dtype=np.int64) for n in ns]
    out['list:0d-uint8'] = [np.asarray(n, dtype=np.uint8) for n in ns]
    return out


# unsigned (n, m): in the domain only where the SCALAR function accepts unsigned indices (measured on HEAD).  Q2d raises OverflowError for them
# ('Python integer -2 out of bounds for uint8'), xy raises for uint64 (uint64 + int -> float64 exponent), and zernike_nm_der negates m
# ('dt = -m * np.sin(m*t)'), which wraps around for an unsigned NumPy scalar -- the sequence functions do exactly the same as their scalar
# functions there, so C08 has nothing to say (the wrap-around in zernike_nm_der is reported as a candidate defect of the scalar function).
PAIR_UNSIGNED = {'zernike_nm_seq': INT_DTYPES[4:], 'zernike_nm_der_seq': [], 'Q2d_seq': [], 'xy_seq': ['uint8', 'uint16', 'uint32']}


def pair_forms(nms, name):
    """Forms of a list of (n, m) pairs; unsigned types only when no index is negative and the scalar function accepts them."""
    nms = [tuple(p) for p in nms]
    out = {'list:tuple': list(nms), 'list:list': [list(p) for p in nms], 'tuple:tuple': tuple(nms), 'tuple:list': tuple(list(p) for p in nms),
           'list:ndarray': [np.asarray(p, dtype=np.int64) for p in nms]}
    dts = INT_DTYPES[:4] + (PAIR_UNSIGNED[name] if all(v >= 0 for p in nms for v in p) else [])
    for dt in dts:
        out[f'ndarray:{dt}'] = np.asarray(nms, dtype=dt).reshape(len(nms), 2)
    for dt in dts:
        out[f'list:np.{dt}'] = [tuple(np.dtype(dt).type(v) for v in p) for p in nms]
    return out


# forms of the shape parameters (alpha, beta): the value v of the case (JSON int or float) handed over as ...
def _intval(v):
    return float(v).is_integer()


PAR_FORMS = {
    'float': lambda v: float(v),
    'int': lambda v: int(v) if _intval(v) else None,
    'np.float64': lambda v: np.float64(v),
    'np.float32': lambda v: np.float32(v),          # every value of the alphabet is exactly representable
    'np.int64': lambda v: np.int64(v) if _intval(v) else None,
    'np.int8': lambda v: np.int8(v) if _intval(v) else None,
    'np.uint8': lambda v: np.uint8(v) if _intval(v) and v >= 0 else None,
    'np.uint64': lambda v: np.uint64(v) if _intval(v) and v >= 0 else None,
    '0d:float64': lambda v: np.asarray(float(v)),
    '0d:int64': lambda v: np.asarray(int(v)) if _intval(v) else None,
    '0d:uint8': lambda v: np.asarray(int(v), dtype=np.uint8) if _intval(v) and v >= 0 else None,
}
# jacobi / jacobi_seq hash (alpha, beta) for an lru_cache: 0-d arrays raise TypeError in the scalar function as well -- outside the domain
PAR_FORMS_EXCLUDED = {'jacobi_seq': ('0d:float64', '0d:int64', '0d:uint8')}
PAR_VALUES = {
    'jacobi_seq': J3 + [[0, 0], [1, 0], [2, 3]], 'jacobi_der_seq': J3 + [[0, 0], [1, 0], [2, 3]],
    'laguerre_seq': [[0], [0.5], [2], [1]], 'laguerre_der_seq': [[0], [0.5], [2], [1]],
    'dickson1_seq': [[-1], [0], [0.5], [1], [2]], 'dickson2_seq': [[-1], [0], [0.5], [1], [2]],
}


def run_par_forms(case, seed, R):
    """case: f, par, ns.  The shape parameters in every scalar form; oracle = scalar-order function with the plain JSON values."""
    name, par, ns = case['f'], case['par'], case['ns']
    sname, (lo, hi), _ = ONE[name]
    fseq, fsca = getattr(P, name, None), getattr(P, sname, None)
    if not R.expect(callable(fseq) and callable(fsca), f'{name}:missing', f'{name} / {sname} not exported by prysm.polynomials'):
        return
    ref_scale = None
    for shape in ((5,), (3, 4)):
        x = coords(shape, seed, 11, lo, hi, 'float64')
        outs = [R.call(fsca, n, *par, x.copy(), sig=f'{sname}:raises') for n in ns]
        want = stack_scalar(R, outs, shape, sname)
        if want is None:
            continue
        if ref_scale is None:
            ref_scale = own_scales(want)
        for form, mk in PAR_FORMS.items():
            if form in PAR_FORMS_EXCLUDED.get(name, ()):
                continue
            fp = [mk(v) for v in par]
            if any(v is None for v in fp):
                continue
            xin = x.copy()
            got = R.call(fseq, list(ns), *fp, xin, sig=f'{name}:raises')
            exc = _refile(R, got)
            R.checks += 1
            if got is FAILED:
                ok, msg = False, exc
            else:
                ok, bad, msg = compare(got, want, eps_of('float32' if form == 'np.float32' else 'float64'), ns, ref=ref_scale)
                observe(R, got)
            if not ok:
                R.violation(f'{name}:par={form}', f'{name}({list(ns)}, <{form}> {fp!r}, x{list(shape)} float64) vs {sname}({", ".join(map(str, par))}): {msg}')
            R.expect(np.array_equal(xin, x), f'{name}:input-mutated', f'{name} modified its coordinate array (shape {shape})')
    dedupe(R)
    R.nontrivial(any(n >= 1 for n in ns))
    R.outcome('int-valued' if all(_intval(v) for v in par) else 'fractional')


def _refile(R, got):
    """The message of the exception R.call has just filed (it is re-filed under the cell signature)."""
    return R.violations.pop()['msg'] if got is FAILED else None


def run_forms(case, seed, R):
    """case: f, par, req=[start, stop, step] | ns.  Every form of the same orders must give what the scalar function gives."""
    name, par = case['f'], case['par']
    req = case.get('req')
    ns = list(range(*req)) if req is not None else list(case['ns'])
    sname, (lo, hi), _ = ONE[name]
    fseq, fsca = getattr(P, name, None), getattr(P, sname, None)
    if not R.expect(callable(fseq) and callable(fsca), f'{name}:missing', f'{name} / {sname} not exported by prysm.polynomials'):
        return
    k = len(ns)
    gap = ':gapped' if any(b - a != 1 for a, b in zip(ns, ns[1:])) else ''
    eps = eps_of('float64')
    ref_scale = None
    shapes = []
    for sh in ((5,), (), (k, 4)):
        if sh not in shapes:
            shapes.append(sh)
    for shape in shapes:
        x = coords(shape, seed, 11, lo, hi, 'float64')
        outs = [R.call(fsca, n, *par, x.copy(), sig=f'{sname}:raises') for n in ns]
        want = stack_scalar(R, outs, shape, sname)
        if want is None:
            continue
        if ref_scale is None:
            ref_scale = own_scales(want)
        for form, arg in order_forms(ns, req).items():
            xin = x.copy()
            got = R.call(fseq, arg, *par, xin, sig=f'{name}:raises')
            exc = _refile(R, got)
            R.checks += 1
            if got is FAILED:
                ok, msg = False, exc
            else:
                ok, bad, msg = compare(got, want, eps, ns, ref=ref_scale)
                observe(R, got)
            if not ok:
                cell = order_cell(ns) if form == 'list' else f'orders={form}{gap}'
                R.violation(f'{name}:{cell}', f'{name}(<{form}> {arg!r}, {", ".join(map(str, par))}{", " if par else ""}x{list(shape)} float64) vs {sname} at {ns}: {msg}')
                if form == 'list':
                    break       # about the orders themselves (the subset units' finding), not about the form
            R.expect(np.array_equal(xin, x), f'{name}:input-mutated', f'{name} modified its coordinate array (shape {shape})')
    dedupe(R)
    R.nontrivial(any(n >= 1 for n in ns))
    R.outcome('range-stepped' if req is not None and req[2] != 1 else ('range-unit' if req is not None else 'irregular'))


def want_two(R, name, sname, fsca, nms, a, b, kw, shape, broadcast):
    outs = [R.call(fsca, p[0], p[1], a.copy(), b.copy(), sig=f'{sname}:raises', **kw) for p in nms]
    if name == 'zernike_nm_der_seq':
        try:
            outs = [o if o is FAILED else np.stack([np.asarray(o[0]), np.asarray(o[1])]) for o in outs]
        except Exception as e:   # noqa
            R.violation(f'{sname}:shape', f'{sname} did not return a (dr, dt) pair of equal shapes: {type(e).__name__}: {e}')
            return None
        return stack_scalar(R, outs, (2, *shape), sname)
    return stack_scalar(R, outs, shape, sname, broadcast=broadcast)


def two_cond(name, nms, b):
    tmax = float(np.max(np.abs(b))) if b.size else 0.0
    cond = None if name == 'xy_seq' else [1.0 + abs(p[1]) * tmax for p in nms]
    orders = [p[0] + p[1] for p in nms] if name == 'xy_seq' else [p[0] for p in nms]
    return orders, cond


def run_pair_forms(case, seed, R):
    """case: f, var, nms.  Every form of the same (n, m) list must give what the scalar function gives."""
    name, var, nms = case['f'], case['var'], [tuple(p) for p in case['nms']]
    sname, kwname, _, _, _ = TWO[name]
    fseq, fsca = getattr(P, name, None), getattr(P, sname, None)
    if not R.expect(callable(fseq) and callable(fsca), f'{name}:missing', f'{name} / {sname} not exported by prysm.polynomials'):
        return
    kw = {} if kwname is None else {kwname: var}
    k = len(nms)
    grid_only = name == 'xy_seq' and var is True
    eps = eps_of('float64')
    ref_scale = None
    for sa in ([(3, 4), (k, 4)] if grid_only else [(5,), (3, 4), (k, 4)]):
        a, b = two_coords(name, grid_only, sa, sa, 'float64', 'float64', seed)
        want = want_two(R, name, sname, fsca, nms, a, b, kw, sa, False)
        if want is None:
            continue
        if ref_scale is None:
            ref_scale = own_scales(want)
        orders, cond = two_cond(name, nms, b)
        for form, arg in pair_forms(nms, name).items():
            ain, bin_ = a.copy(), b.copy()
            got = R.call(fseq, arg, ain, bin_, sig=f'{name}:raises', **kw)
            exc = _refile(R, got)
            R.checks += 1
            bad = None
            if got is FAILED:
                ok, msg = False, exc
            else:
                ok, bad, msg = compare(got, want, eps, orders, cond, ref=ref_scale)
                observe(R, got)
            if not ok:
                cell = '+'.join(sorted({mode_cell(name, nms[j]) for j in (bad if bad else range(k))})) if form == 'list:tuple' else f'orders={form}'
                vs = '' if kwname is None else f', {kwname}={var}'
                R.violation(f'{name}:{cell}', f'{name}(<{form}> {arg!r}, coords {list(sa)} float64{vs}) vs {sname} at {nms}: {msg}')
                if form == 'list:tuple':
                    break
            R.expect(np.array_equal(ain, a) and np.array_equal(bin_, b), f'{name}:input-mutated', f'{name} modified its coordinate arrays (shape {sa})')
    dedupe(R)
    R.nontrivial(any(p != (0, 0) for p in nms))
    R.outcome('single' if k == 1 else ('repeat' if len(set(nms)) < k else 'distinct'))


# coordinate sizes just above a power of two and not a multiple of it: 2^k + 1 and 2^k + 2^(k-1) + 3
LARGE_1D = [[(1 << k) + 1] for k in range(7, 17)] + [[(1 << k) + (1 << (k - 1)) + 3] for k in range(7, 17)]
LARGE_ND = [[129, 3], [150, 150], [181, 182], [300, 300], [257, 1030], [3, 181, 67]]
LARGE_FRAME = [[1031, 1021]]          # > 2^20 elements: polynomial modes over a 1k x 1k pupil are routine
LARGE_HYGIENE = 1 << 16               # the hygiene variants (6 more evaluations per call) run up to this many elements
LARGE_NS = {1: [0, 2, 5], 2: [1, 3, 4], 3: [0, 1, 3]}          # by ndim of the coordinate array
LARGE_NMS = {'zernike_nm_seq': [[2, 0], [3, 1], [2, -2], [4, 2]], 'zernike_nm_der_seq': [[2, 0], [3, 1], [2, -2], [4, 2]],
             'Q2d_seq': [[2, 0], [2, 1], [3, -2], [0, -3]], 'xy_seq': [[0, 0], [2, 1], [0, 3], [3, 3]]}


def run_large(case, seed, R):
    """case: f, shape, (par, ns) | (var, nms), hy.  One float64 coordinate array of the given shape, every element judged."""
    name, shape = case['f'], tuple(case['shape'])
    hy = bool(case.get('hy', 1))
    cell = f'large:{len(shape)}d'
    if name in ONE:
        sname, (lo, hi), _ = ONE[name]
        fseq, fsca = getattr(P, name, None), getattr(P, sname, None)
        if not R.expect(callable(fseq) and callable(fsca), f'{name}:missing', f'{name} / {sname} not exported by prysm.polynomials'):
            return
        par, ns = case['par'], case['ns']
        x = coords(shape, seed, 31, lo, hi, 'float64')
        xin = x.copy()
        got = R.call(fseq, list(ns), *par, xin, sig=f'{name}:raises', hygiene=hy)
        exc = _refile(R, got)
        outs = [R.call(fsca, n, *par, x.copy(), sig=f'{sname}:raises', hygiene=False) for n in ns]
        want = stack_scalar(R, outs, shape, sname)
        orders, cond = ns, None
        unchanged = np.array_equal(xin, x)
        what = f'{name}({list(ns)}, {", ".join(map(str, par))}{", " if par else ""}x{list(shape)} float64)'
        R.nontrivial(any(n >= 1 for n in ns))
    else:
        sname, kwname, _, _, _ = TWO[name]
        fseq, fsca = getattr(P, name, None), getattr(P, sname, None)
        if not R.expect(callable(fseq) and callable(fsca), f'{name}:missing', f'{name} / {sname} not exported by prysm.polynomials'):
            return
        var, nms = case['var'], [tuple(p) for p in case['nms']]
        kw = {} if kwname is None else {kwname: var}
        a, b = two_coords(name, name == 'xy_seq' and var is True, shape, shape, 'float64', 'float64', seed)
        ain, bin_ = a.copy(), b.copy()
        got = R.call(fseq, list(nms), ain, bin_, sig=f'{name}:raises', hygiene=hy, **kw)
        exc = _refile(R, got)
        outs = [R.call(fsca, p[0], p[1], a.copy(), b.copy(), sig=f'{sname}:raises', hygiene=False, **kw) for p in nms]
        if name == 'zernike_nm_der_seq':
            try:
                outs = [o if o is FAILED else np.stack([np.asarray(o[0]), np.asarray(o[1])]) for o in outs]
                want = stack_scalar(R, outs, (2, *shape), sname)
            except Exception as e:   # noqa
                R.violation(f'{sname}:shape', f'{sname} did not return a (dr, dt) pair of equal shapes: {type(e).__name__}: {e}')
                want = None
        else:
            want = stack_scalar(R, outs, shape, sname)
        orders, cond = two_cond(name, nms, b)
        unchanged = np.array_equal(ain, a) and np.array_equal(bin_, b)
        what = f'{name}({list(nms)}, coords {list(shape)} float64' + ('' if kwname is None else f', {kwname}={var}') + ')'
        R.nontrivial(any(p != (0, 0) for p in nms))
    if want is None:
        if exc is not None:
            R.violation(f'{name}:raises', exc)
        return
    R.checks += 1
    if got is FAILED:
        ok, msg = False, exc
    else:
        ok, bad, msg = compare(got, want, eps_of('float64'), orders, cond)
        if ok is False and bad:
            # where the wrong elements are (a dropped tail shows as the last elements, C order)
            try:
                g, j = np.asarray(got), bad[0]
                idx = np.flatnonzero(~np.isclose(g[j].ravel(), want[j].ravel(), rtol=1e-6, atol=1e-9, equal_nan=True))
                msg += f'; mode {j}: {idx.size} of {want[j].size} elements wrong, flat indices {int(idx[0])}..{int(idx[-1])}' if idx.size else ''
            except Exception:   # noqa
                pass
        observe(R, got)
    if not ok:
        R.violation(f'{name}:{cell}', f'{what} vs {sname}: {msg}')
    R.expect(unchanged, f'{name}:input-mutated', f'{name} modified its coordinate array(s) (shape {shape})')
    dedupe(R)
    n_el = int(np.prod(shape))
    R.outcome('>2^20' if n_el > (1 << 20) else ('>2^15' if n_el > (1 << 15) else ('>2^11' if n_el > (1 << 11) else '<=2^11')))


def wave8(tier):
    # (1) forms of the order list, one-index families: every family x every parameter value x requests x forms (inside the case)
    form_cases = [{'f': n, 'par': par, 'req': req} for req in ORDER_REQS for n in ONE for par in ONE[n][2]]
    form_cases += [{'f': n, 'par': par, 'ns': ns} for ns in ORDER_LISTS for n in ONE for par in ONE[n][2]]
    # (2) forms of the (n, m) list
    pair_cases = []
    for name, (sname, kwname, variants, pool, extra) in TWO.items():
        srt = sorted(pool, key=lambda p: (p[0], p[1]))
        lists = [[pool[3]], [pool[8]], srt, srt[::-1], [pool[5], pool[5], pool[2]], [p for p in pool if p[1] >= 0]]
        for nms in lists:
            for v in variants:
                pair_cases.append({'f': name, 'var': v, 'nms': nms})
    par_cases = [{'f': n, 'par': par, 'ns': ns} for ns in DTYPE_ORDERS for n in PAR_VALUES for par in PAR_VALUES[n]]
    # (3) coordinate-size thresholds
    sizes = LARGE_1D + LARGE_ND + LARGE_FRAME
    if tier != 'quick':
        sizes = sizes + [[(1 << k) + 1] for k in range(17, 21)] + [[513, 2051], [2049, 1027]]
    large_cases = []
    for sh in sizes:
        hy = 1 if int(np.prod(sh)) <= LARGE_HYGIENE else 0
        frame = int(np.prod(sh)) > (1 << 20)         # two modes only: cost
        for n in ONE:
            large_cases.append({'f': n, 'par': ONE[n][2][-1], 'ns': [1, 3] if frame else LARGE_NS[len(sh)], 'shape': sh, 'hy': hy})
        for name, (sname, kwname, variants, pool, extra) in TWO.items():
            for v in variants:
                if name == 'xy_seq' and v is True and len(sh) != 2:
                    continue
                large_cases.append({'f': name, 'var': v, 'nms': LARGE_NMS[name][1:3] if frame else LARGE_NMS[name], 'shape': sh, 'hy': hy})
    # (4) mode-count thresholds: >= 129 modes in one request
    many_one = [{'f': n, 'par': ONE[n][2][-1], 'ns': ns, 'shapes': [[5], [3, 4]], 'dtypes': ['float64']}
                for ns in (list(range(130)), list(range(1, 263, 2))) for n in ONE]
    many_pairs = {
        'zernike_nm_seq': [[n, m] for n in range(17) for m in range(-n, n + 1, 2)],
        'zernike_nm_der_seq': [[n, m] for n in range(17) for m in range(-n, n + 1, 2)],
        'Q2d_seq': [[n, m] for n in range(10) for m in range(-6, 7)],
        'xy_seq': [[a, b] for a in range(12) for b in range(12)],
    }
    many_two = []
    for name, (sname, kwname, variants, pool, extra) in TWO.items():
        for v in variants:
            cfg = [[[3, 4], [3, 4], 'float64', 'float64']] if (name == 'xy_seq' and v is True) else \
                [[[5], [5], 'float64', 'float64'], [[3, 4], [3, 4], 'float64', 'float64']]
            many_two.append({'f': name, 'var': v, 'nms': many_pairs[name], 'cfg': cfg})
            many_two.append({'f': name, 'var': v, 'nms': many_pairs[name][::-1], 'cfg': cfg})
    forms_txt = 'tuple, range, ndarray of ' + '/'.join(INT_DTYPES) + ', list of NumPy scalars of each of these types, list of 0-d int64 / uint8 arrays'
    return [
        ScopeUnit('order_forms', form_cases, run_forms,
                  f'argument-form alphabet for the order list: every one-index *_seq x every parameter value x requests range(start, stop, step) in {ORDER_REQS} '
                  f'and the irregular lists {ORDER_LISTS} x forms {{list (baseline), {forms_txt}}} (range only for the arithmetic progressions) x float64 coordinates of shape '
                  '(5,), (), (k,4); oracle = scalar-order function at the integer orders; the hygiene layer checks that list / ndarray order arguments are not modified; '
                  'float-valued orders and one-shot iterators are outside the domain (HEAD raises)', reset=reset_poly_caches, chunk=8),
        ScopeUnit('pair_forms', pair_cases, run_pair_forms,
                  'argument-form alphabet for the (n, m) list: every two-index *_seq x keyword variant x lists {one pair (two choices), the pool sorted, reversed, a 3-list with a '
                  'repeat, the pairs with m >= 0} x forms {list of tuples (baseline), list of lists, tuple of tuples, tuple of lists, list of 1-D int64 arrays, (k,2) ndarray and '
                  f'pairs of NumPy scalars of int8..int64 and -- when no index is negative and the scalar function accepts unsigned indices: {PAIR_UNSIGNED} -- uint8..uint64}} x float64 coordinates of shape (5,), (3,4), (k,4)',
                  reset=reset_poly_caches, chunk=2),
        ScopeUnit('par_forms', par_cases, run_par_forms,
                  f'argument-form alphabet for the shape parameters: {sorted(PAR_VALUES)} x parameter values {PAR_VALUES["jacobi_seq"]} / {PAR_VALUES["laguerre_seq"]} / '
                  f'{PAR_VALUES["dickson1_seq"]} x order lists {DTYPE_ORDERS} x forms {sorted(PAR_FORMS)} (integer forms for integer values, unsigned for non-negative ones; '
                  f'not enumerated: {PAR_FORMS_EXCLUDED}, where the scalar function raises too) on the 1-D point set and a (3,4) grid; oracle = scalar function with the plain values',
                  reset=reset_poly_caches, chunk=8),
        ScopeUnit('large_coords', large_cases, run_large,
                  'coordinate-size threshold alphabet (NOT closed over the data dimension): every *_seq (one parameter value / every keyword variant, one gapped order list per '
                  f'dimensionality {LARGE_NS} resp. 4 pairs with m = 0, > 0, < 0; two modes on the > 2^20-element grid) x float64 coordinate arrays of shape {sizes}: 1-D sizes 2^k+1 and 2^k+2^(k-1)+3 for k = 7..16'
                  + ('' if tier == 'quick' else ' (thorough: also 2^17+1 .. 2^20+1, 513x2051, 2049x1027)') +
                  ', 2-D / 3-D shapes whose element count is not a multiple of a power of two, one grid of more than 2^20 elements; EVERY element of every mode is compared with '
                  f'the scalar function (a blocked sweep that drops its tail is wrong in the last elements); the hygiene variants (strided / Fortran / reused buffers) run up to {LARGE_HYGIENE} elements',
                  reset=reset_poly_caches, chunk=3),
        ScopeUnit('many_orders', many_one, run_one,
                  'mode-count threshold alphabet, one-index families: orders 0..129 (130 modes) and the odd orders 1..261 (131 modes) in one request, one parameter value, '
                  'on the 1-D point set and a (3,4) grid, float64; inf/NaN patterns must match the scalar function exactly', reset=reset_poly_caches, chunk=2),
        ScopeUnit('many_pairs', many_two, run_two,
                  'mode-count threshold alphabet, two-index families: every valid Zernike (n, m) with n <= 16 (153 pairs), Q2d n <= 9 x |m| <= 6 (130), xy exponents <= 11 (144) '
                  'in one request, ascending and reversed, every keyword variant, on (5,) and (3,4) float64 coordinates', reset=reset_poly_caches, chunk=1),
    ]


# ---------------------------------------------------------------------------------------------
# wave 10: coordinate ranges outside the nominal one; sparse / gapped / unsorted requests that contain high orders

TWO_PI = 2 * np.pi
# one-index families: nominal range -> the other ranges [lo, hi] enumerated (the 1-D point set holds lo, hi and the middle)
DOM_ONE = {
    (-1, 1): [[-1.5, 1.5], [1, 3], [-3, -1]],
    (-2, 2): [[-6, 6], [2, 8], [-8, -2]],
    (0, 4): [[-3, 3], [4, 40], [-4, 0]],
    (0, 1): [[-1, 1], [0, 1.5], [-1.5, 1.5], [-1, 0]],          # signed radial coordinate (a cut along a diameter), beyond the unit radius
}
DOM_NS = [[0, 1, 2, 3, 4, 5, 6], [1, 4], [3], [2, 5, 9]]
# polar families: r range x theta range, the nominal pair [0,1] x [0,2pi] left out (it is the scope of every other unit)
DOM_R = [[0, 1], [-1, 1], [0, 1.5], [-1.5, 1.5], [-1, 0]]
DOM_T = [[0, TWO_PI], [-np.pi, np.pi], [-2 * TWO_PI, 2 * TWO_PI]]
DOM_XY = [[0, 3, 0, 3], [-3, 0, -3, 0], [0, 3, -3, 0], [-1e3, 1e3, -1e3, 1e3], [-1e-3, 1e-3, -1e-3, 1e-3]]

# sparse requests: pools that hold low orders, orders around 8 / 16 (table sizes, hash slots of small sets) and high orders
SPARSE_NS = [0, 2, 7, 8, 9, 16, 33, 64]
SPARSE_NS_T = [1, 3, 15, 17, 32, 100]
SPARSE_Z = [[4, 0], [6, 0], [16, 0], [18, 0], [3, 1], [19, -1], [17, 1], [2, 2], [18, -2], [20, 2]]
SPARSE_Z_T = [[2, 0], [36, 0], [5, -3], [21, 3], [23, -3]]
SPARSE_Q = [[0, 0], [9, 0], [16, 0], [1, 1], [8, 1], [12, -1], [2, 2], [10, -2], [8, 3], [17, -3]]
SPARSE_Q_T = [[3, 0], [24, 0], [0, -1], [9, 2], [16, 5]]
SPARSE_XY = [[0, 0], [8, 0], [0, 9], [1, 8], [16, 1], [2, 17], [9, 9], [3, 3], [16, 0], [0, 16]]
SPARSE_XY_T = [[8, 8], [17, 2], [1, 1], [0, 33], [32, 0]]
SPARSE_TWO = {'zernike_nm_seq': (SPARSE_Z, SPARSE_Z_T), 'zernike_nm_der_seq': (SPARSE_Z, SPARSE_Z_T),
              'Q2d_seq': (SPARSE_Q, SPARSE_Q_T), 'xy_seq': (SPARSE_XY, SPARSE_XY_T)}


def sparse_subsets(pool, sizes):
    out = []
    for k in sizes:
        out.extend(list(c) for c in itertools.combinations(sorted(pool), k))
    return out


def sparse_lists(pool, sizes):
    """Every subset of the given sizes in EVERY order (the two-index families take their pairs in any order)."""
    out = []
    for k in sizes:
        for c in itertools.combinations(pool, k):
            out.extend([list(p) for p in perm] for perm in itertools.permutations(c))
    return out


def wave10(tier):
    quick = tier == 'quick'
    flat = [[5], [3, 4]]
    # (1) coordinate ranges
    dom1 = [{'f': n, 'par': par, 'ns': ns, 'shapes': flat, 'dtypes': ['float64', 'float32'], 'dom': dom}
            for dom in sorted({tuple(d) for v in DOM_ONE.values() for d in v}) for ns in DOM_NS for n in ONE for par in ONE[n][2]
            if list(dom) in DOM_ONE[tuple(ONE[n][1])]]
    dom1 = [dict(c, dom=list(c['dom'])) for c in dom1]
    dom2 = []
    for name, (sname, kwname, variants, pool, extra) in TWO.items():
        srt = sorted(pool, key=lambda p: (p[0], p[1]))
        lists = [srt, [pool[3], pool[1], pool[8]], [pool[5], pool[5], pool[2]]] + [[p] for p in pool]
        doms = DOM_XY if name == 'xy_seq' else [rd + td for rd in DOM_R for td in DOM_T][1:]
        for dom in doms:
            for nms in lists:
                for v in variants:
                    sh = [[3, 4]] if (name == 'xy_seq' and v is True) else flat
                    dom2.append({'f': name, 'var': v, 'nms': nms, 'dom': [float(d) for d in dom],
                                 'cfg': [[s_, s_, dt, dt] for s_ in sh for dt in ('float64', 'float32')]})
    # (2) sparse requests with high orders
    pool1 = SPARSE_NS if quick else sorted(SPARSE_NS + SPARSE_NS_T)
    subs1 = sparse_subsets(pool1, (2, 3)) + ([] if quick else sparse_subsets(SPARSE_NS, (4,)))
    sp1 = [{'f': n, 'par': par, 'ns': ns, 'shapes': flat, 'dtypes': ['float64']} for ns in subs1 for n in ONE for par in ONE[n][2]]
    sp2 = []
    pools2 = {}
    for name, (sname, kwname, variants, pool, extra) in TWO.items():
        pl = SPARSE_TWO[name][0] if quick else SPARSE_TWO[name][0] + SPARSE_TWO[name][1]
        pools2[name] = pl
        for nms in sparse_lists(pl, (2, 3)):
            for v in variants:
                sh = [[3, 4]] if (name == 'xy_seq' and v is True) else flat
                sp2.append({'f': name, 'var': v, 'nms': nms, 'cfg': [[s_, s_, 'float64', 'float64'] for s_ in sh]})
    return [
        ScopeUnit('coord_domain', dom1, run_one,
                  f'coordinate-range alphabet, one-index families (the statement quantifies over every coordinate array, not over the nominal interval): every *_seq x every '
                  f'parameter value x order lists {DOM_NS} x coordinate ranges by nominal interval {DOM_ONE} -- wider than the interval, wholly outside it on either side, and for '
                  'Qbfs / Qcon a SIGNED radial coordinate (a cut along a diameter, as the library\'s own tests use) and radii beyond 1 -- on the 1-D point set (holds both ends '
                  'and the middle of the range) and a (3,4) array, float64 and float32; oracle and tolerance as everywhere (scaled by the scalar results on the same points); '
                  'signature cell x=signed|neg|pos (sign class when it differs from the nominal one) | beyond | inside', reset=reset_poly_caches, chunk=CHUNK),
        ScopeUnit('coord_domain2', dom2, run_two,
                  f'coordinate-range alphabet, two-coordinate families: polar families x EVERY pair (r range, theta range) from {DOM_R} x [0,2pi], [-pi,pi], [-4pi,4pi] but the nominal '
                  f'one (signed r, r > 1, r <= 0, negative and multi-turn angles); xy_seq x (x range, y range) {DOM_XY} (one-signed, mixed-signed, large and tiny magnitudes); x lists '
                  '{the sorted pool, two 3-lists, each pool pair alone} x every keyword variant, on (5,) and (3,4) coordinates, float64 and float32; signature cells r= / t= / x= / y= signed|neg|pos|beyond|inside for the ranges that differ from the nominal one',
                  reset=reset_poly_caches, chunk=CHUNK),
        ScopeUnit('sparse_orders', sp1, run_one,
                  f'sparse requests with high orders, one-index families: every *_seq x every parameter value x EVERY ascending subset of size 2..3 of the pool {pool1}' + ('' if quick else f' and of size 4 of {SPARSE_NS}') + ' '
                  f'({len(subs1)} subsets: low orders, the neighbours of 8 and 16, high orders -- gapped requests whose largest order is far above their length), '
                  'on the 1-D point set and a (3,4) array, float64', reset=reset_poly_caches, chunk=CHUNK),
        ScopeUnit('sparse_pairs', sp2, run_two,
                  'sparse requests with high orders, two-index families: EVERY subset of size 2..3, in EVERY order (unsorted, descending), of the pools '
                  f'{ {n: pools2[n] for n in pools2 if n != "zernike_nm_der_seq"} } (zernike_nm_der_seq: the Zernike pool; per |m| a few radial orders of which some are >= 8, so that the '
                  'per-|m| tables are sparse) x every keyword variant, on (5,) and (3,4) float64 coordinates', reset=reset_poly_caches, chunk=CHUNK),
    ]
