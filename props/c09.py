"""C09 -- derivative functions are the derivatives of the functions they name.

Reference model: the *value routine* of the same family is sampled on Chebyshev nodes of a degree
that is sufficient for the polynomial at hand (the discarded tail coefficients are measured and must
vanish), interpolated, and differentiated in the Chebyshev basis (exact for polynomials).  Azimuthal
dependence is sampled on an equispaced grid and differentiated in the Fourier basis (exact for
trigonometric polynomials).  The conic helpers of the ray tracer are not polynomials: their value
routines are differentiated by the complex-step formula (they are analytic) and by Richardson-
extrapolated central differences whose residual is measured and enters the tolerance.

Which value a derivative routine "names":
  fam_der / fam_der_seq       -> fam(n, ...)                             (d/dx)
  zernike_nm_der(_seq)        -> zernike_nm(n, m, r, t, norm)            (d/dr, d/dt)
  jacobi_sum_clenshaw_der     -> sum_k s_k jacobi(k, a, b, x)            (d^i/dx^i in alphas[i][0], i=1..j)
  clenshaw_qbfs_der           -> sum_n c_n Qbfs(n, u) / (u^2 (1-u^2)),   x = u^2, 2(alphas[i][0]+alphas[i][1])
  clenshaw_q2d_der            -> sum_n c_n Q2d(n, m, u, 0) / u^m,        x = u^2, .5 alphas[i][0] (- 2/5 alphas[i][3])
  compute_z_zprime_Q*         -> the sag they return themselves          (d/du, d/dt)
                                 AND the value functions they name: sum_n c_n Qbfs(n, u) / Qcon(n, u) / Q2d(n, +-m, u, t) built order
                                 by order from the value routines ("surface coefficients for Q0..QN"): a slope that is consistent with a
                                 sag of a different surface (coefficients attached to the wrong orders) is not the derivative of the
                                 function the routine names
  sphere/conic_sag_der        -> sphere_sag / conic_sag                  (d/drho)
  off_axis_conic_der          -> off_axis_conic_sag                      (d/dr, d/dt)
  der_direction_cosine_spheroid -> 1 / phi_spheroid                      (d/drho)
  off_axis_conic_sigma_der    -> 1 / off_axis_conic_sigma                (d/dr, d/dt)
  Q2d_and_der                 -> the sag it returns itself               (d/drho, d/dtheta)
The documented work array `alphas` of the three Clenshaw derivative sums is part of the call history: one zero-initialised array handed to
successive calls must give the answers of the same calls without it (unit `workarray`).  Every routine is point-wise in its coordinate
arguments: f(tile(x)) == tile(f(x)) extends the verdict on a small coordinate set to every element of threshold-sized arrays (unit `large`).
(whether the returned *sag* equals the explicit modal sum is C10 -- here only the slopes are judged against the derivative of that sum;
whether the sequences equal the scalar forms on every coordinate shape is C08.)
"""
import json
import math

import numpy as np
from numpy.polynomial import chebyshev as Ch

from mc import ScopeUnit, FAILED
from mc.state import reset_all
from mc.linalg import dense

from prysm import polynomials as P
from prysm.polynomials import qpoly
from prysm.x.raytracing import surfaces as S

ID = 'C09'
ASSUMPTIONS = [
    'the value routines are polynomials (trigonometric polynomials in azimuth) of the nominal degree; the check measures '
    'the discarded Chebyshev / Fourier tail of every sampled value routine and reports a violation if it does not vanish',
    'numpy.polynomial.chebyshev (chebder, chebval) and numpy.fft are correct',
    'evaluation points are a finite alphabet per domain (end-points, 0, rationals inside); coordinate *shapes* are the business of C08',
]

EPS = float(np.finfo(np.float64).eps)
EPS32 = float(np.finfo(np.float32).eps)
KTOL = 1000.0         # safety factor on eps * cond.  Measured honest maxima of err/(eps*cond) on the repaired tree, both tiers,
                      # seeds 0..3: <= 10 for every family, 18 for compute_z_zprime_Q2d, 6 for clenshaw_qbfs_der, <= 9 for the named-modes oracles of compute_z_zprime_Q* (see CALIB)
CALIB = None          # set to a dict by tools to record the honest error / (eps*cond) ratios


# =================================================================================================
# oracle machinery

def cheb_nodes(N):
    return np.cos(np.pi * (np.arange(N) + 0.5) / N)


def cheb_coefs(F):
    """Chebyshev coefficients (axis 0) of the interpolant through samples on cheb_nodes(N)."""
    N = F.shape[0]
    T = np.cos(np.outer(np.arange(N), np.pi * (np.arange(N) + 0.5) / N))   # T_j(x_k)
    c = (2.0 / N) * np.tensordot(T, F, axes=(1, 0))
    c[0] *= 0.5
    return c


class Cheb1D:
    """Exact interpolant of a polynomial value routine on [a, b] and its derivatives.

    f(x) -> (N,) or (K, N) for node vector x of length N.  ``ok`` is False when f failed.
    """

    def __init__(self, f, a, b, deg, extra=6):
        self.a, self.b, self.deg = a, b, deg
        self.mid, self.half = 0.5 * (a + b), 0.5 * (b - a)
        N = deg + 1 + extra
        self.xn = self.mid + self.half * cheb_nodes(N)
        F = f(self.xn)
        self.ok = F is not FAILED
        if not self.ok:
            return
        F = np.asarray(F, dtype=float)
        if F.shape[-1:] != (N,) or F.ndim > 2 or not np.all(np.isfinite(F)):
            self.ok = False
            self.why = f'value routine returned shape {F.shape} / non-finite samples'
            return
        self.multi = F.ndim == 2
        Ft = F.T if self.multi else F
        self.c = cheb_coefs(Ft)
        self.scale = np.max(np.abs(Ft), axis=0)                     # () or (K,)
        self.tail = np.max(np.abs(self.c[deg + 1:]), axis=0)
        self.c = self.c[:deg + 1]          # the measured tail is discarded: the interpolant is of the nominal degree

    def tail_ok(self):
        return bool(np.all(self.tail <= 1e4 * EPS * (self.deg + 2) * (self.scale + 1e-300)))

    def der(self, x, j=1):
        """j-th derivative at points x: shape (L,) or (K, L)."""
        d = Ch.chebder(self.c, m=j, scl=1.0 / self.half, axis=0) if j else self.c
        return Ch.chebval((np.asarray(x, dtype=float) - self.mid) / self.half, d)

    def cond(self, x, j=1):
        """(oracle condition, implementation condition) for the j-th derivative."""
        co = self.scale * (self.deg + 1.0) ** (2 * j) / self.half ** j
        dmax = np.maximum(np.max(np.abs(self.der(x, j)), axis=-1), np.max(np.abs(self.der(self.xn, j)), axis=-1))
        ci = (self.deg + 1.0) * dmax
        return co, ci


class Polar:
    """Exact interpolant of f(r, t), polynomial of degree degr in r on [a,b] and trigonometric of degree degt in t."""

    def __init__(self, f, degr, degt, a=0.0, b=1.0, extra=6):
        self.degr, self.degt = degr, degt
        self.mid, self.half = 0.5 * (a + b), 0.5 * (b - a)
        Nr = degr + 1 + extra
        Nt = 2 * degt + 1 + extra
        Nt += 1 - Nt % 2      # odd
        self.rn = self.mid + self.half * cheb_nodes(Nr)
        self.tn = 2 * np.pi * np.arange(Nt) / Nt
        Rg, Tg = np.meshgrid(self.rn, self.tn, indexing='ij')
        F = f(Rg, Tg)
        self.ok = F is not FAILED
        if not self.ok:
            return
        F = np.asarray(F, dtype=float)
        if F.shape != (Nr, Nt) or not np.all(np.isfinite(F)):
            self.ok = False
            return
        self.scale = float(np.max(np.abs(F)))
        self.k = np.fft.fftfreq(Nt) * Nt                     # integer wavenumbers
        self.G = np.fft.fft(cheb_coefs(F), axis=1) / Nt       # (Nr, Nt) complex
        tail_r = np.max(np.abs(self.G[degr + 1:])) if extra else 0.0
        tail_t = np.max(np.abs(self.G[:, np.abs(self.k) > degt])) if extra else 0.0
        self.tail = float(max(tail_r, tail_t))
        self.G = self.G[:degr + 1] * (np.abs(self.k) <= degt)    # the measured tail is discarded

    def tail_ok(self):
        return self.tail <= 1e4 * EPS * (self.degr + 2) * (self.scale + 1e-300)

    def eval(self, r, t, dr=0, dt=0):
        """d^dr/dr^dr d^dt/dt^dt f on the grid r (P,) x t (Q,) -> (P, Q)."""
        G = self.G
        if dr:
            G = Ch.chebder(G, m=dr, scl=1.0 / self.half, axis=0)
        if dt:
            G = G * (1j * self.k) ** dt
        A = Ch.chebvander((np.asarray(r, dtype=float) - self.mid) / self.half, G.shape[0] - 1)   # (P, Nr')
        E = np.exp(1j * np.outer(self.k, np.asarray(t, dtype=float)))                               # (Nt, Q)
        return np.real(A @ G @ E)

    def cond(self, r, t, dr=0, dt=0):
        co = self.scale * ((self.degr + 1.0) ** (2 * dr) / self.half ** dr) * max(1.0, float(self.degt)) ** dt
        dmax = max(float(np.max(np.abs(self.eval(r, t, dr, dt)))), float(np.max(np.abs(self.eval(self.rn, self.tn, dr, dt)))))
        ci = (self.degr + 1.0 + self.degt) * dmax
        return co, ci


def richardson(f, x, h, levels=5):
    """Richardson-extrapolated central difference of f at x; returns (estimate, measured residual, max|f| on the stencil)."""
    D = []
    fmax = 0.0
    for i in range(levels):
        hi = h / 2 ** i
        fp, fm = np.asarray(f(x + hi), dtype=float), np.asarray(f(x - hi), dtype=float)
        fmax = max(fmax, float(np.max(np.abs(fp))), float(np.max(np.abs(fm))))
        D.append((fp - fm) / (2 * hi))
    T = [D]
    for m in range(1, levels):
        prev = T[-1]
        T.append([(4 ** m * prev[i + 1] - prev[i]) / (4 ** m - 1) for i in range(len(prev) - 1)])
    est = T[-1][0]
    resid = np.abs(T[-1][0] - T[-2][1])
    return est, resid, fmax


def close(R, got, want, cond, sig, what, eps=EPS, extra_tol=0.0):
    """expect_close with tol = KTOL * eps * cond (+ extra_tol); records calibration ratios when asked."""
    tol = KTOL * eps * np.asarray(cond, dtype=float) + extra_tol + 1e-300
    if CALIB is not None and got is not FAILED:
        try:
            g, w = np.asarray(got, dtype=float), np.asarray(want, dtype=float)
            if g.shape == w.shape and g.size:
                ratio = float(np.max(np.abs(g - w) / (eps * np.asarray(cond, dtype=float) + extra_tol / KTOL + 1e-300)))
                key = sig.split(':')[0] + (':named-modes' if ':named-modes' in sig else '') + ('/f32' if eps == EPS32 else '')
                if not (ratio <= CALIB.get(key, (0.0, ''))[0]):
                    CALIB[key] = (ratio, what)
        except Exception:   # noqa
            pass
    return R.expect_close(got, want, tol, sig, what)


class _Abort(Exception):
    """A value routine failed (already recorded by R.call): nothing to differentiate."""


def V(R, f, *a, **k):
    """Call a value routine through the recorder; abort the case when it failed."""
    out = R.call(f, *a, **k)
    if out is FAILED:
        raise _Abort()
    return out


def aborting(run):
    def wrapped(case, seed, R):
        try:
            return run(case, seed, R)
        except _Abort:
            R.outcome('value-routine-failed')
    wrapped.__name__ = run.__name__
    return wrapped


def ncls(n):
    return 'n=0' if n == 0 else ('n=1' if n == 1 else 'n>=2')


def unit_or_dense(L, k, seed, salt):
    """Coefficient vector of length L: unit vector e_k (k >= 0) or the seeded dense representative (k == -1)."""
    if k >= 0:
        s = [0.0] * L
        s[k] = 1.0
        return s
    return [float(v) for v in dense((L,), seed, salt, complex_=False)]


# =================================================================================================
# 1-D families

JPTS = [-1.0, -0.75, -0.5, -1 / 3, 0.0, 0.1, 0.3, 0.5, 2 / 3, 0.9, 1.0]


def _fam(val, der, seq, dom, pts):
    return {'val': val, 'der': der, 'seq': seq, 'dom': dom, 'pts': np.array(pts, dtype=float)}


def _scaled(pts, a, b):
    return [0.5 * (a + b) + 0.5 * (b - a) * p for p in pts]


FAMS = {
    'jacobi': _fam(lambda n, x, a, b: P.jacobi(n, a, b, x), lambda n, x, a, b: P.jacobi_der(n, a, b, x),
                   lambda ns, x, a, b: P.jacobi_der_seq(ns, a, b, x), (-1, 1), JPTS),
    'legendre': _fam(lambda n, x: P.legendre(n, x), lambda n, x: P.legendre_der(n, x),
                     lambda ns, x: P.legendre_der_seq(ns, x), (-1, 1), JPTS),
    'cheby1': _fam(lambda n, x: P.cheby1(n, x), lambda n, x: P.cheby1_der(n, x), lambda ns, x: P.cheby1_der_seq(ns, x), (-1, 1), JPTS),
    'cheby2': _fam(lambda n, x: P.cheby2(n, x), lambda n, x: P.cheby2_der(n, x), lambda ns, x: P.cheby2_der_seq(ns, x), (-1, 1), JPTS),
    'cheby3': _fam(lambda n, x: P.cheby3(n, x), lambda n, x: P.cheby3_der(n, x), lambda ns, x: P.cheby3_der_seq(ns, x), (-1, 1), JPTS),
    'cheby4': _fam(lambda n, x: P.cheby4(n, x), lambda n, x: P.cheby4_der(n, x), lambda ns, x: P.cheby4_der_seq(ns, x), (-1, 1), JPTS),
    'hermite_He': _fam(lambda n, x: P.hermite_He(n, x), lambda n, x: P.hermite_He_der(n, x),
                       lambda ns, x: P.hermite_He_der_seq(ns, x), (-3, 3), _scaled(JPTS, -3, 3)),
    'hermite_H': _fam(lambda n, x: P.hermite_H(n, x), lambda n, x: P.hermite_H_der(n, x),
                      lambda ns, x: P.hermite_H_der_seq(ns, x), (-3, 3), _scaled(JPTS, -3, 3)),
    'laguerre': _fam(lambda n, x, a: P.laguerre(n, a, x), lambda n, x, a: P.laguerre_der(n, a, x),
                     lambda ns, x, a: P.laguerre_der_seq(ns, a, x), (0, 8), [0.0, 0.25, 0.5, 1.0, 2.0, 3.0, 4.5, 6.0, 7.2, 8.0]),
}
for _k, _v in FAMS.items():
    for _r in ('val', 'der', 'seq'):
        _v[_r].__qualname__ = _k + {'val': '', 'der': '_der', 'seq': '_der_seq'}[_r]

JAC_ALPHABET = [0, 0.5, -0.5, 1, 2, 4, -0.9, 2.5, 7.25, 0.3]
LAG_ALPHABET = [0, 0.5, 2, -0.5, 3.7]


def fam_params():
    out = [('legendre', [])] + [(f'cheby{i}', []) for i in (1, 2, 3, 4)] + [('hermite_He', []), ('hermite_H', [])]
    out += [('laguerre', [a]) for a in LAG_ALPHABET]
    out += [('jacobi', [a, b]) for a in JAC_ALPHABET for b in JAC_ALPHABET]
    return out


def value_oracle(R, fam, name, orders, par):
    """Cheb1D of the value routine for the listed orders (rows), None if the value routine failed."""
    a, b = fam['dom']
    deg = max(max(orders), 0)

    def f(x):
        rows = []
        for n in orders:
            v = R.call(fam['val'], n, x, *par)
            if v is FAILED:
                return FAILED
            rows.append(np.asarray(v, dtype=float) * np.ones_like(x))
        return np.array(rows)
    orc = Cheb1D(f, a, b, deg)
    if not orc.ok:
        if not R.violations:
            R.violation(f'{name}:value-routine', 'value routine did not return finite samples of the node shape')
        return None
    # each row k is of degree orders[k]: measure its own tail
    for i, n in enumerate(orders):
        tail = max(float(orc.tail[i]), float(np.max(np.abs(orc.c[n + 1:, i]))) if orc.c.shape[0] > n + 1 else 0.0)
        orc.c[n + 1:, i] = 0.0
        R.expect(tail <= 1e4 * EPS * (deg + 2) * (orc.scale[i] + 1e-300), f'{name}:value-not-degree-n',
                 f'value routine of order {n} is not a polynomial of degree {n}: Chebyshev tail {tail:.3e} (scale {orc.scale[i]:.3e}); oracle invalid')
    return orc


def run_poly1d(case, seed, R):
    name, n, par = case['fam'], case['n'], case['par']
    fam = FAMS[name]
    orc = value_oracle(R, fam, name, [n], par)
    if orc is None:
        return
    x = fam['pts']
    want = orc.der(x)[0]
    co, ci = orc.cond(x)
    co, ci = float(co[0]), float(ci[0])
    sig = f'{name}_der:{ncls(n)}'
    # 1-D float64, 2-D float64, python scalars, float32
    got = R.call(fam['der'], n, x.copy(), *par, sig=sig + ':exception')
    close(R, got, want, co + ci, sig, f'{name}_der({n}, {par}) on {len(x)} points')
    x2 = np.concatenate([x, x[:1]]).reshape(2, -1) if len(x) % 2 else x.reshape(2, -1)
    w2 = np.concatenate([want, want[:1]]).reshape(2, -1) if len(x) % 2 else want.reshape(2, -1)
    got = R.call(fam['der'], n, x2.copy(), *par, sig=sig + ':exception')
    close(R, got, w2, co + ci, sig, f'{name}_der({n}, {par}) on a 2-D array')
    for i in (0, len(x) // 2, len(x) - 1):
        got = R.call(fam['der'], n, float(x[i]), *par, sig=sig + ':exception')
        close(R, got, want[i], co + ci, sig, f'{name}_der({n}, {par}) at scalar x={float(x[i])}')
    x32 = x.astype(np.float32)
    w32 = orc.der(x32.astype(float))[0]
    got = R.call(fam['der'], n, x32, *par, sig=sig + ':exception')
    close(R, got, w32, co * EPS / EPS32 + ci, sig + ':f32', f'{name}_der({n}, {par}) on float32 points', eps=EPS32)
    # sequence form, single order
    sigs = f'{name}_der_seq:{ncls(n)}'
    got = R.call(fam['seq'], [n], x.copy(), *par, sig=sigs + ':exception')
    close(R, got, want[None, :], co + ci, sigs, f'{name}_der_seq([{n}], {par})')
    R.nontrivial(n >= 1)
    R.outcome('zero' if n == 0 else 'der')


def run_poly1d_seq(case, seed, R):
    name, ns, par = case['fam'], case['ns'], case['par']
    fam = FAMS[name]
    orc = value_oracle(R, fam, name, ns, par)
    if orc is None:
        return
    x = fam['pts']
    want = orc.der(x)
    co, ci = orc.cond(x)
    got = R.call(fam['seq'], list(ns), x.copy(), *par, sig=f'{name}_der_seq:exception')
    if got is FAILED:
        return
    g = np.asarray(got)
    if not R.expect(g.shape == want.shape and g.dtype.kind == 'f', f'{name}_der_seq:shape', f'shape {g.shape} dtype {g.dtype}, expected {want.shape} float'):
        return
    for i, n in enumerate(ns):
        close(R, g[i], want[i], float(co[i] + ci[i]), f'{name}_der_seq:{ncls(n)}', f'{name}_der_seq({ns}, {par}) row {i} (order {n})')
    x32 = x.astype(np.float32)
    w32 = orc.der(x32.astype(float))
    got = R.call(fam['seq'], list(ns), x32, *par, sig=f'{name}_der_seq:exception')
    if got is not FAILED and R.expect(np.asarray(got).shape == want.shape, f'{name}_der_seq:shape', 'float32 shape'):
        for i, n in enumerate(ns):
            close(R, np.asarray(got)[i], w32[i], float(co[i] * EPS / EPS32 + ci[i]), f'{name}_der_seq:{ncls(n)}:f32',
                  f'{name}_der_seq({ns}, {par}) float32 row {i}', eps=EPS32)
    R.nontrivial(max(ns) >= 1)
    R.outcome('seq')


# =================================================================================================
# coordinate dtype alphabet: integer arrays, Python / numpy integer scalars, float32 (values are judged, result dtype is not)

IPTS = {(-1, 1): [-1, 0, 1], (-3, 3): [-3, -2, -1, 0, 1, 2, 3], (0, 8): [0, 1, 2, 3, 5, 8]}


def run_poly1d_dtype(case, seed, R):
    name, n, par = case['fam'], case['n'], case['par']
    fam = FAMS[name]
    orders = list(range(n + 1))
    orc = value_oracle(R, fam, name, orders, par)
    if orc is None:
        return
    ip = IPTS[tuple(fam['dom'])]
    xf = np.array(ip, dtype=np.float64)
    want = orc.der(xf)               # (n+1, npts): the derivative of the value routine at the same points, float64
    co, ci = orc.cond(xf)
    cd = co + ci
    forms = [('float64', np.array(ip, dtype=np.float64), EPS), ('int64', np.array(ip, dtype=np.int64), EPS),
             ('int32', np.array(ip, dtype=np.int32), EPS), ('float32', np.array(ip, dtype=np.float32), EPS32)]
    for dn, xa, eps in forms:
        tol_c = float(cd[n]) if eps == EPS else float(co[n] * EPS / EPS32 + ci[n])
        sig = f'{name}_der:{ncls(n)}:dtype={dn}'
        got = R.call(fam['der'], n, xa, *par, sig=sig + ':exception')
        close(R, got, want[n], tol_c, sig, f'{name}_der({n}, {par}) on a {dn} array {ip}', eps=eps)
        sigs = f'{name}_der_seq:dtype={dn}'
        got = R.call(fam['seq'], orders, xa, *par, sig=sigs + ':exception')
        if got is not FAILED and R.expect(np.asarray(got).shape == want.shape, sigs + ':shape', f'shape {np.asarray(got).shape}'):
            for i in orders:
                tc = float(cd[i]) if eps == EPS else float(co[i] * EPS / EPS32 + ci[i])
                close(R, np.asarray(got)[i], want[i], tc, f'{name}_der_seq:{ncls(i)}:dtype={dn}', f'{name}_der_seq({orders}, {par}) row {i} on a {dn} array', eps=eps)
    for dn, conv in (('pyint', int), ('npint', np.int64), ('npfloat32', np.float32), ('pyfloat', float)):
        sig = f'{name}_der:{ncls(n)}:dtype={dn}'
        for j, v in enumerate(ip):
            got = R.call(fam['der'], n, conv(v), *par, sig=sig + ':exception')
            eps = EPS32 if dn == 'npfloat32' else EPS
            tol_c = float(cd[n]) if eps == EPS else float(co[n] * EPS / EPS32 + ci[n])
            close(R, got, want[n][j], tol_c, sig, f'{name}_der({n}, {par}) at the {dn} scalar {v}', eps=eps)
    R.nontrivial(n >= 1)
    R.outcome('dtype')


def run_zernike_dtype(case, seed, R):
    n, m, norm = case['n'], case['m'], case['norm']
    orc = zern_oracle(R, n, m, norm)
    if orc is None:
        return
    rp = [0, 1, 1, 0, 1]
    tv = np.array([0.3, 0.3, 2.0, 4.5, 5.9])
    wr = orc.eval(np.array(rp, dtype=float), tv, dr=1)[np.arange(5), np.arange(5)]
    wt = orc.eval(np.array(rp, dtype=float), tv, dt=1)[np.arange(5), np.arange(5)]
    cr = sum(orc.cond(ZR, ZT, dr=1))
    ct = sum(orc.cond(ZR, ZT, dt=1))
    cell = f'{ncls((n - abs(m)) // 2).replace("n", "nj")}:{mcls(m)}'
    for dn, ra, eps in (('int64', np.array(rp, dtype=np.int64), EPS), ('int32', np.array(rp, dtype=np.int32), EPS), ('float32', np.array(rp, dtype=np.float32), EPS32)):
        ta = tv.astype(np.float32) if dn == 'float32' else tv.copy()
        # the property is about the derivative OF THE VALUE ROUTINE: where zernike_nm itself rejects the coordinate dtype (integer
        # arrays with n_j = 0: in-place float*int) there is nothing to differentiate and the case is recorded, not judged
        try:
            R.tick()
            P.zernike_nm(n, m, ra.copy(), ta.copy(), norm=norm)
        except Exception:   # noqa
            R.outcome('value-routine-rejects-dtype')
            continue
        out = R.call(P.zernike_nm_der, n, m, ra, ta, norm=norm, sig=f'zernike_nm_der:{cell}:dtype={dn}:exception')
        if out is FAILED or not R.expect(isinstance(out, tuple) and len(out) == 2, 'zernike_nm_der:return', 'does not return (dr, dt)'):
            continue
        if dn == 'float32':
            t64 = ta.astype(float)
            w_r = orc.eval(np.array(rp, dtype=float), t64, dr=1)[np.arange(5), np.arange(5)]
            w_t = orc.eval(np.array(rp, dtype=float), t64, dt=1)[np.arange(5), np.arange(5)]
        else:
            w_r, w_t = wr, wt
        close(R, out[0], w_r, cr * (EPS / eps) + (n + 1) * np.max(np.abs(w_r)) + 1e-30, f'zernike_nm_der:dr:{cell}:dtype={dn}', f'dZ/dr of Z({n},{m}) with {dn} r {rp}', eps=eps)
        close(R, out[1], w_t, ct * (EPS / eps) + (n + 1) * np.max(np.abs(w_t)) + 1e-30, f'zernike_nm_der:dt:{cell}:dtype={dn}', f'dZ/dt of Z({n},{m}) with {dn} r {rp}', eps=eps)
    for dn, conv in (('pyint', int), ('npint', np.int64)):
        for j in (1, 3):
            out = R.call(P.zernike_nm_der, n, m, conv(rp[j]), float(tv[j]), norm=norm, sig=f'zernike_nm_der:{cell}:dtype={dn}:exception')
            if out is FAILED or not R.expect(isinstance(out, tuple) and len(out) == 2, 'zernike_nm_der:return', 'does not return (dr, dt)'):
                continue
            close(R, out[0], wr[j], cr, f'zernike_nm_der:dr:{cell}:dtype={dn}', f'dZ/dr of Z({n},{m}) at the {dn} scalar r={rp[j]}')
            close(R, out[1], wt[j], ct, f'zernike_nm_der:dt:{cell}:dtype={dn}', f'dZ/dt of Z({n},{m}) at the {dn} scalar r={rp[j]}')
    R.nontrivial(n >= 1)
    R.outcome('dtype')


# =================================================================================================
# threshold orders (overflow points of factorial / gamma / Pochhammer, n = 171), Jacobi family

HORD = [60, 100, 170, 171, 172, 200, 256]
HPTS = np.array([-0.8, -0.45, -0.1, 0.25, 0.6, 0.8])
HDOM = (-0.9, 0.9)      # interpolation interval: keeps the end-point growth n^max(alpha,beta) of Jacobi polynomials out of the oracle's scale
HJAC = [[0, 0], [-0.5, -0.5], [0.5, 0.5], [-0.5, 0.5], [0.5, -0.5], [0, 4], [2.5, 0.3], [1, 2], [-0.9, 7.25]]


def cheb_trig_der(kind, n, x):
    """Textbook derivatives T_n', U_n', V_n', W_n' from the trigonometric definitions, x = cos(theta)."""
    th = np.arccos(x)
    st = np.sin(th)
    if kind == 1:     # T_n = cos(n th)
        return n * np.sin(n * th) / st
    if kind == 2:     # U_n = sin((n+1) th) / sin(th)
        return (np.sin((n + 1) * th) * np.cos(th) - (n + 1) * np.cos((n + 1) * th) * st) / st ** 3
    h = n + 0.5
    if kind == 3:     # V_n = cos((n+1/2) th) / cos(th/2)
        dth = (-h * np.sin(h * th) * np.cos(th / 2) + 0.5 * np.cos(h * th) * np.sin(th / 2)) / np.cos(th / 2) ** 2
    else:             # W_n = sin((n+1/2) th) / sin(th/2)
        dth = (h * np.cos(h * th) * np.sin(th / 2) - 0.5 * np.sin(h * th) * np.cos(th / 2)) / np.sin(th / 2) ** 2
    return -dth / st


def run_high_order(case, seed, R):
    name, n, par = case['fam'], case['n'], case['par']
    fam = FAMS[name]
    x = HPTS
    cell = 'high:' + ('n<=170' if n <= 170 else 'n>=171')
    orders = [n - 1, n]
    # oracle 1: the value routine, spectrally differentiated on HDOM (exact degree n; tolerance K eps (n+1)^2 scale / 0.9)
    xn = 0.5 * (HDOM[0] + HDOM[1]) + 0.5 * (HDOM[1] - HDOM[0]) * cheb_nodes(n + 1 + 6)      # the nodes Cheb1D(.., deg=n) samples
    rows = [R.call(fam['val'], m, xn.copy(), *par, sig=f'{name}:{cell}:value-routine:exception') for m in orders]
    finite = all(v is not FAILED and np.all(np.isfinite(np.asarray(v, dtype=float))) for v in rows)
    orc = None
    if finite:
        orc = Cheb1D(lambda t: np.array([np.asarray(v, dtype=float) * np.ones_like(t) for v in rows]), *HDOM, n)
        for i, m in enumerate(orders):
            tail = max(float(orc.tail[i]), float(np.max(np.abs(orc.c[m + 1:, i]))) if orc.c.shape[0] > m + 1 else 0.0)
            orc.c[m + 1:, i] = 0.0
            R.expect(tail <= 1e4 * EPS * (n + 2) * (orc.scale[i] + 1e-300), f'{name}:value-not-degree-n',
                     f'value routine of order {m} is not a polynomial of degree {m} (tail {tail:.3e}); oracle invalid')
    # oracle 2 (Chebyshev kinds): the trigonometric closed forms, independent of the value routine
    kind = int(name[-1]) if name.startswith('cheby') else 0
    wants, conds = [], []
    for i, m in enumerate(orders):
        if kind:
            w = cheb_trig_der(kind, m, x)
            cd = (m + 1.0) * np.max(np.abs(w)) * 4      # argument error m*eps inside the sines times the amplitude m/sin^k(theta)
            if orc is not None:
                co, ci = orc.cond(x)
                R.expect(np.all(np.abs(orc.der(x)[i] - w) <= KTOL * EPS * (cd + co[i] + ci[i])), f'{name}_der:{cell}:oracle-disagreement',
                         f'order {m}: the closed form of the derivative and the differentiated value routine disagree (max {float(np.max(np.abs(orc.der(x)[i] - w))):.3e})')
        elif orc is not None:
            w = orc.der(x)[i]
            co, ci = orc.cond(x)
            cd = float(co[i] + ci[i])
        else:
            if not R.violations:
                R.violation(f'{name}:{cell}:value-routine', f'value routine of order {m} returns non-finite samples at interior points')
            return
        wants.append(w)
        conds.append(cd)
    want, cd = wants[1], conds[1]
    sig = f'{name}_der:{cell}'
    got = R.call(fam['der'], n, x.copy(), *par, sig=sig + ':exception')
    close(R, got, want, cd, sig, f'{name}_der({n}, {par}) at {len(x)} interior points')
    got = R.call(fam['der'], n, float(x[2]), *par, sig=sig + ':exception')
    close(R, got, want[2], cd, sig, f'{name}_der({n}, {par}) at scalar x={float(x[2])}')
    sigs = f'{name}_der_seq:{cell}'
    got = R.call(fam['seq'], [n], x.copy(), *par, sig=sigs + ':exception')
    close(R, got, want[None, :], cd, sigs, f'{name}_der_seq([{n}], {par})')
    got = R.call(fam['seq'], [0, 1, n - 1, n], x.copy(), *par, sig=sigs + ':exception')
    if got is not FAILED and R.expect(np.asarray(got).shape == (4, len(x)), sigs + ':shape', f'shape {np.asarray(got).shape}'):
        close(R, np.asarray(got)[2], wants[0], conds[0], sigs, f'{name}_der_seq([0,1,{n - 1},{n}], {par}) row 2')
        close(R, np.asarray(got)[3], wants[1], conds[1], sigs, f'{name}_der_seq([0,1,{n - 1},{n}], {par}) row 3')
    R.nontrivial()
    R.outcome('high')


# =================================================================================================
# Zernike

ZR = np.array([0.0, 0.1, 0.25, 0.5, 2 / 3, 0.9, 1.0])
ZT = np.array([0.0, 0.3, math.pi / 4, math.pi / 2, 2.0, math.pi, 4.5, 5.9])


def mcls(m):
    return 'm=0' if m == 0 else ('m>0' if m > 0 else 'm<0')


def zern_oracle(R, n, m, norm):
    def f(r, t):
        return R.call(P.zernike_nm, n, m, r, t, norm=norm)
    orc = Polar(f, n, abs(m))
    if not orc.ok:
        if not R.violations:
            R.violation('zernike_nm:value-routine', 'value routine did not return finite samples of the grid shape')
        return None
    R.expect(orc.tail_ok(), 'zernike_nm:value-not-degree-n', f'zernike_nm({n},{m}) is not of degree ({n},{abs(m)}): tail {orc.tail:.3e}; oracle invalid')
    return orc


def run_zernike(case, seed, R):
    n, m, norm = case['n'], case['m'], case['norm']
    orc = zern_oracle(R, n, m, norm)
    if orc is None:
        return
    wr, wt = orc.eval(ZR, ZT, dr=1), orc.eval(ZR, ZT, dt=1)
    cr = sum(orc.cond(ZR, ZT, dr=1))
    ct = sum(orc.cond(ZR, ZT, dt=1))
    Rg, Tg = np.meshgrid(ZR, ZT, indexing='ij')
    cell = f'{ncls((n - abs(m)) // 2).replace("n", "nj")}:{mcls(m)}' + (':|m|=1' if abs(m) == 1 else '')
    sr, st = f'zernike_nm_der:dr:{cell}', f'zernike_nm_der:dt:{cell}'
    out = R.call(P.zernike_nm_der, n, m, Rg.copy(), Tg.copy(), norm=norm, sig=f'zernike_nm_der:{cell}:exception')
    if out is not FAILED and R.expect(isinstance(out, tuple) and len(out) == 2, 'zernike_nm_der:return', 'does not return (dr, dt)'):
        close(R, out[0], wr, cr, sr, f'dZ/dr of Z({n},{m}) norm={norm} on the r x t grid')
        close(R, out[1], wt, ct, st, f'dZ/dt of Z({n},{m}) norm={norm} on the r x t grid')
    # paired 1-D vectors (the diagonal-ish walk through the grid)
    idx_r = np.arange(len(ZT)) % len(ZR)
    rv, tv = ZR[idx_r], ZT.copy()
    out = R.call(P.zernike_nm_der, n, m, rv.copy(), tv.copy(), norm=norm, sig=f'zernike_nm_der:{cell}:exception')
    if out is not FAILED and R.expect(isinstance(out, tuple) and len(out) == 2, 'zernike_nm_der:return', 'does not return (dr, dt)'):
        close(R, out[0], wr[idx_r, np.arange(len(ZT))], cr, sr, f'dZ/dr of Z({n},{m}) norm={norm} on paired vectors')
        close(R, out[1], wt[idx_r, np.arange(len(ZT))], ct, st, f'dZ/dt of Z({n},{m}) norm={norm} on paired vectors')
    # sequence form with the single term
    out = R.call(P.zernike_nm_der_seq, [(n, m)], Rg.copy(), Tg.copy(), norm=norm, sig=f'zernike_nm_der_seq:{cell}:exception')
    if out is not FAILED and R.expect(np.asarray(out).shape == (1, 2) + Rg.shape, 'zernike_nm_der_seq:shape', f'shape {np.asarray(out).shape}'):
        close(R, np.asarray(out)[0, 0], wr, cr, sr.replace('_der:', '_der_seq:'), f'seq dZ/dr of Z({n},{m})')
        close(R, np.asarray(out)[0, 1], wt, ct, st.replace('_der:', '_der_seq:'), f'seq dZ/dt of Z({n},{m})')
    R.nontrivial(n >= 1)
    R.outcome('radial-only' if m == 0 else 'der')


def run_zernike_seq(case, seed, R):
    nms, norm = case['nms'], case['norm']
    Rg, Tg = np.meshgrid(ZR, ZT, indexing='ij')
    out = R.call(P.zernike_nm_der_seq, [tuple(nm) for nm in nms], Rg.copy(), Tg.copy(), norm=norm, sig='zernike_nm_der_seq:exception')
    if out is FAILED or not R.expect(np.asarray(out).shape == (len(nms), 2) + Rg.shape, 'zernike_nm_der_seq:shape', f'shape {np.asarray(out).shape}'):
        return
    out = np.asarray(out)
    for i, (n, m) in enumerate(nms):
        orc = zern_oracle(R, n, m, norm)
        if orc is None:
            continue
        cell = f'{ncls((n - abs(m)) // 2).replace("n", "nj")}:{mcls(m)}' + (':|m|=1' if abs(m) == 1 else '')
        close(R, out[i, 0], orc.eval(ZR, ZT, dr=1), sum(orc.cond(ZR, ZT, dr=1)), f'zernike_nm_der_seq:dr:{cell}', f'row {i} dZ/dr of Z({n},{m})')
        close(R, out[i, 1], orc.eval(ZR, ZT, dt=1), sum(orc.cond(ZR, ZT, dt=1)), f'zernike_nm_der_seq:dt:{cell}', f'row {i} dZ/dt of Z({n},{m})')
    R.nontrivial()
    R.outcome('seq')


# =================================================================================================
# Clenshaw derivative sums

def jcls(j, L):
    return ('j=1' if j == 1 else 'j>=2') + (':j<len' if j < L else ':j>=len')


def check_alphas(R, out, j, L, npts, sig):
    if out is FAILED:
        return None
    a = np.asarray(out)
    if not R.expect(a.dtype.kind == 'f' and a.shape == (j + 1, L, npts), sig + ':shape', f'alphas shape {a.shape}, expected {(j + 1, L, npts)}'):
        return None
    return a


def run_jacobi_clenshaw(case, seed, R):
    a, b, L, k = case['a'], case['b'], case['L'], case['k']
    s = unit_or_dense(L, k, seed, 91)
    x = np.array(JPTS)

    def f(xn):
        tot = np.zeros_like(xn)
        for i, c in enumerate(s):
            if c != 0:
                v = R.call(P.jacobi, i, a, b, xn)
                if v is FAILED:
                    return FAILED
                tot = tot + c * np.asarray(v, dtype=float)
        return tot
    orc = Cheb1D(f, -1, 1, L - 1)
    if not orc.ok:
        return
    R.expect(orc.tail_ok(), 'jacobi:value-not-degree-n', f'sum of jacobi values is not of degree {L - 1}; oracle invalid')
    sa = np.array(s, dtype=np.float64)      # one ndarray object, reused by every call of the case (watched by the hygiene layer)
    for j in case['js']:
        sig = f'jacobi_sum_clenshaw_der:{jcls(j, L)}'
        for arg in (s, sa):
            out = check_alphas(R, R.call(P.jacobi_sum_clenshaw_der, arg, a, b, x.copy(), j=j, sig=sig + ':exception'), j, L, len(x), sig)
            if out is None:
                continue
            for i in range(1, j + 1):
                close(R, out[i][0], orc.der(x, i), sum(orc.cond(x, i)), sig, f'alphas[{i}][0] vs d^{i}/dx^{i} of sum s_k P_k^({a},{b}), s={s}, j={j}')
        # scalar coordinate
        xs = float(x[3])
        out = R.call(P.jacobi_sum_clenshaw_der, s, a, b, xs, j=j, sig=sig + ':exception')
        if out is not FAILED and R.expect(np.asarray(out).shape == (j + 1, L), sig + ':shape', f'scalar x: alphas shape {np.asarray(out).shape}'):
            for i in range(1, j + 1):
                close(R, np.asarray(out)[i][0], orc.der(np.array([xs]), i)[0], sum(orc.cond(x, i)), sig, f'scalar x: alphas[{i}][0], s={s}, j={j}')
    R.nontrivial(L >= 2 and (k != 0))
    R.outcome('unit' if k >= 0 else 'dense')


XQ = np.array([0.0, 0.01, 0.09, 0.25, 0.5, 0.81, 1.0])       # usq alphabet


def run_qbfs_clenshaw(case, seed, R):
    L, k = case['L'], case['k']
    cs = unit_or_dense(L, k, seed, 92)

    def f(xn):   # S(x) = sum c_n Qbfs_n(u) / (u^2 (1-u^2)), x = u^2, on open nodes
        u = np.sqrt(xn)
        tot = np.zeros_like(xn)
        for i, c in enumerate(cs):
            if c != 0:
                v = R.call(qpoly.Qbfs, i, u)
                if v is FAILED:
                    return FAILED
                tot = tot + c * np.asarray(v, dtype=float) / (xn * (1 - xn))
        return tot
    orc = Cheb1D(f, 0, 1, L - 1)
    if not orc.ok:
        return
    R.expect(orc.tail_ok(), 'Qbfs:value-not-degree-n', f'sum of Qbfs/(x(1-x)) is not of degree {L - 1} in x; oracle invalid (tail {orc.tail:.3e})')
    csa = np.array(cs, dtype=np.float64)
    for j in case['js']:
        sig = f'clenshaw_qbfs_der:{jcls(j, L)}'
        for arg in (cs, csa):
            out = check_alphas(R, R.call(qpoly.clenshaw_qbfs_der, arg, XQ.copy(), j=j, sig=sig + ':exception'), j, L, len(XQ), sig)
            if out is None:
                continue
            for i in range(1, j + 1):
                got = 2 * (out[i][0] + (out[i][1] if L > 1 else 0.0))
                # the Qbfs -> Chebyshev-3 change of basis amplifies rounding in proportion to the number of terms
                close(R, got, orc.der(XQ, i), L * sum(orc.cond(XQ, i)), sig, f'2(alphas[{i}][0]+alphas[{i}][1]) vs d^{i}/dx^{i} S(x), cs={cs}, j={j}')
    R.nontrivial(L >= 2 and k != 0)
    R.outcome('unit' if k >= 0 else 'dense')


def run_q2d_clenshaw(case, seed, R):
    m, L, k = case['m'], case['L'], case['k']
    cs = unit_or_dense(L, k, seed, 93)

    def f(xn):   # sum c_n Q_n^m(x) = Q2d(n, m, u, 0) / u^m
        u = np.sqrt(xn)
        tot = np.zeros_like(xn)
        for i, c in enumerate(cs):
            if c != 0:
                v = R.call(qpoly.Q2d, i, m, u, np.zeros_like(u))
                if v is FAILED:
                    return FAILED
                tot = tot + c * np.asarray(v, dtype=float) / u ** m
        return tot
    orc = Cheb1D(f, 0, 1, L - 1)
    if not orc.ok:
        return
    mc_ = 'm=1' if m == 1 else 'm>1'
    R.expect(orc.tail_ok(), 'Q2d:value-not-degree-n', f'sum of Q2d/u^m is not of degree {L - 1} in x; oracle invalid (tail {orc.tail:.3e})')
    csa = np.array(cs, dtype=np.float64)
    for j in case['js']:
        sig = f'clenshaw_q2d_der:{mc_}:{jcls(j, L)}'
        for arg in (cs, csa):
            out = check_alphas(R, R.call(qpoly.clenshaw_q2d_der, arg, m, XQ.copy(), j=j, sig=sig + ':exception'), j, L, len(XQ), sig)
            if out is None:
                continue
            for i in range(1, j + 1):
                got = 0.5 * out[i][0]
                if m == 1 and L - 1 > 2:
                    got = got - 2 / 5 * out[i][3]
                close(R, got, orc.der(XQ, i), sum(orc.cond(XQ, i)), sig, f'.5 alphas[{i}][0] (-2/5 alphas[{i}][3]) vs d^{i}/dx^{i} sum c_n Q_n^{m}(x), cs={cs}, j={j}')
    R.nontrivial(L >= 2 and k != 0)
    R.outcome('unit' if k >= 0 else 'dense')


# =================================================================================================
# sag + slope evaluators (derivative of the sag they return)

UQ = np.array([0.0, 0.1, 0.3, 0.5, 0.75, 0.9, 1.0])


def lcls(L):
    return 'len=1' if L == 1 else 'len>1'


def masked_dense(mask, seed, salt):
    """Coefficient vector with the seeded dense (non-zero) representative on the support mask and exact zeros elsewhere."""
    d = dense((len(mask),), seed, salt, complex_=False)
    return [float(v) if m else 0.0 for v, m in zip(d, mask)]


def spcls(cs):
    """Sparsity class of a coefficient vector: where its exact zeros are."""
    nz = [i for i, c in enumerate(cs) if c != 0]
    if len(nz) == len(cs):
        return 'full'
    if not nz:
        return 'all-zero'
    out = []
    if nz[0] > 0:
        out.append('leading0')
    if any(b - a > 1 for a, b in zip(nz, nz[1:])):
        out.append('interior0')
    if nz[-1] < len(cs) - 1:
        out.append('trailing0')
    return '+'.join(out)


def coef_forms(cs):
    """The ways of writing one coefficient vector: (form name, object).  Exact zeros are written as the Python int 0 in the tuple form."""
    forms = [('list', list(cs)), ('ndarray', np.array(cs, dtype=np.float64)), ('tuple-int0', tuple(0 if c == 0 else c for c in cs))]
    if all(float(c).is_integer() for c in cs):
        forms.append(('int64', np.array(cs, dtype=np.int64)))
    return forms


def run_zprime_1d(case, seed, R):
    kind, L = case['kind'], case['L']
    k = case.get('k', -1)
    cs = masked_dense(case['mask'], seed, 94) if 'mask' in case else unit_or_dense(L, k, seed, 94)
    fn = qpoly.compute_z_zprime_Qbfs if kind == 'Qbfs' else qpoly.compute_z_zprime_Qcon
    val = qpoly.Qbfs if kind == 'Qbfs' else qpoly.Qcon
    name = f'compute_z_zprime_{kind}'
    sig = f'{name}:{lcls(L)}'
    deg = 2 * (L - 1) + 4

    # the value function the routine names: "surface coefficients for Q0..QN" -- coefficient n multiplies the value routine of order n
    def fm(un):
        tot = np.zeros_like(un)
        for i, c in enumerate(cs):
            if c != 0:
                v = R.call(val, i, un.copy(), sig=f'{kind}:value-routine:exception')
                if v is FAILED:
                    return FAILED
                tot = tot + c * np.asarray(v, dtype=float)
        return tot
    orcm = Cheb1D(fm, 0, 1, deg)
    if orcm.ok:
        R.expect(orcm.tail_ok(), f'{kind}:value-not-degree-n', f'sum of {kind} values is not of degree {deg} in u; oracle invalid (tail {orcm.tail:.3e})')
    sigm = f'{name}:named-modes:{lcls(L)}'
    for form, arg in coef_forms(cs):
        def f(un):
            out = R.call(fn, arg, un.copy(), un * un, sig=sig + ':exception')
            if out is FAILED:
                return FAILED
            if not (isinstance(out, tuple) and len(out) == 2):
                R.violation(name + ':return', 'does not return (S, Sprime)')
                return FAILED
            return out[0]
        orc = Cheb1D(f, 0, 1, deg)
        if not orc.ok:
            continue
        R.expect(orc.tail_ok(), f'{name}:sag-not-degree-n', f'returned sag is not of degree {2 * L + 2} in u; oracle invalid (tail {orc.tail:.3e})')
        out = R.call(fn, arg, UQ.copy(), UQ * UQ, sig=sig + ':exception')
        if out is FAILED:
            continue
        close(R, out[1], orc.der(UQ), sum(orc.cond(UQ)), sig, f'Sprime vs d/du of the returned S, coefs={cs} given as {form}')
        close(R, out[0], orc.der(UQ, 0), orc.scale * (orc.deg + 1), sig + ':sag-consistency', 'S at the evaluation points vs its own interpolant')
        if orcm.ok:
            close(R, out[1], orcm.der(UQ), sum(orcm.cond(UQ)) + 1e-300, sigm,
                  f'Sprime vs d/du of sum_n c_n {kind}(n, u) (the value routine, order by order), coefs={cs} ({spcls(cs)}) given as {form}')
    R.nontrivial()
    R.outcome('unit' if 'mask' not in case and k >= 0 else ('dense' if 'mask' not in case else 'sparse:' + spcls(cs)))


def q2d_structure(st, k, seed):
    """(cm0, ams, bms) for structure st = {'c': Lc, 'ab': [[La, Lb], ...]} with the k-th entry 1 (k=-1: dense)."""
    Lc, ab = st['c'], st['ab']
    total = Lc + sum(a + b for a, b in ab)
    flat = unit_or_dense(total, k, seed, 95)
    pos = 0
    cm0 = flat[pos:pos + Lc]
    pos += Lc
    ams, bms = [], []
    for a, b in ab:
        ams.append(flat[pos:pos + a])
        pos += a
        bms.append(flat[pos:pos + b])
        pos += b
    return cm0, ams, bms


def q2d_stcls(st):
    """Structure class: length class of the m=0 list, whether any azimuthal list has length 1, and the sparsity of the azimuthal orders."""
    Lc = st['c']
    lens = [x for ab in st['ab'] for x in ab if x > 0]
    sparse = 'gap' if any(a == 0 and b == 0 for a, b in st['ab']) else ('one-sided' if any((a == 0) != (b == 0) for a, b in st['ab']) else 'full')
    return 'cm0:' + ('none' if Lc == 0 else lcls(Lc)) + ':ab:' + ('len=1' if 1 in lens else 'len>1') + ':' + sparse


def q2d_where(st, k):
    """Which family / m the k-th coefficient belongs to."""
    if k < 0:
        return 'dense'
    Lc = st['c']
    if k < Lc:
        return f'cm0:{lcls(Lc)}'
    pos = Lc
    for mi, (a, b) in enumerate(st['ab']):
        if k < pos + a:
            return f'a:{lcls(a)}:' + ('m=1' if mi == 0 else 'm>1')
        pos += a
        if k < pos + b:
            return f'b:{lcls(b)}:' + ('m=1' if mi == 0 else 'm>1')
        pos += b
    return 'none'


def run_zprime_q2d(case, seed, R):
    st, k = case['st'], case['k']
    cm0, ams, bms = q2d_structure(st, k, seed)
    M = len(st['ab'])
    degr = max([2 * st['c'] + 2] + [mi + 1 + 2 * (max(a, b) - 1) for mi, (a, b) in enumerate(st['ab']) if max(a, b) > 0])
    sig = f'compute_z_zprime_Q2d:{q2d_stcls(st)}'

    def call(u, t, coefs=None):
        c0_, a_, b_ = coefs or (cm0, ams, bms)
        out = R.call(qpoly.compute_z_zprime_Q2d, c0_, a_, b_, u, t, sig=sig + ':exception')
        if out is FAILED:
            return FAILED
        if not (isinstance(out, tuple) and len(out) == 3):
            R.violation('compute_z_zprime_Q2d:return', 'does not return (z, dr, dt)')
            return FAILED
        return out

    def f(u, t):
        out = call(u.copy(), t.copy())
        return FAILED if out is FAILED else out[0]
    orc = Polar(f, degr, M)
    if not orc.ok:
        return
    R.expect(orc.tail_ok(), 'compute_z_zprime_Q2d:sag-not-degree-n', f'returned sag is not of degree ({degr},{M}); oracle invalid (tail {orc.tail:.3e})')
    Ug, Tg = np.meshgrid(UQ, ZT, indexing='ij')
    out = call(Ug.copy(), Tg.copy())
    if out is FAILED:
        return
    close(R, out[1], orc.eval(UQ, ZT, dr=1), sum(orc.cond(UQ, ZT, dr=1)), sig + ':dr', f'dz/du vs d/du of the returned z; cm0={cm0} ams={ams} bms={bms} (unit coefficient in {q2d_where(st, k)})')
    close(R, out[2], orc.eval(UQ, ZT, dt=1), sum(orc.cond(UQ, ZT, dt=1)), sig + ':dt', f'dz/dt vs d/dt of the returned z; cm0={cm0} ams={ams} bms={bms}')

    # the value functions the routine names: cm0[n] multiplies Qbfs(n, u), ams[m-1][n] multiplies Q2d(n, m, u, t), bms[m-1][n] multiplies Q2d(n, -m, u, t)
    def fm(u, t):
        tot = np.zeros_like(u)
        terms = [(c, qpoly.Qbfs, (n, u)) for n, c in enumerate(cm0)]
        for mi, (a, b) in enumerate(zip(ams, bms)):
            terms += [(c, qpoly.Q2d, (n, mi + 1, u, t)) for n, c in enumerate(a)]
            terms += [(c, qpoly.Q2d, (n, -(mi + 1), u, t)) for n, c in enumerate(b)]
        for c, val, args in terms:
            if c != 0:
                v = R.call(val, *args, sig='Q2d:value-routine:exception')
                if v is FAILED:
                    return FAILED
                tot = tot + c * np.asarray(v, dtype=float)
        return tot
    orcm = Polar(fm, degr, M)
    if orcm.ok:
        R.expect(orcm.tail_ok(), 'Q2d:value-not-degree-n', f'sum of Qbfs / Q2d values is not of degree ({degr},{M}); oracle invalid (tail {orcm.tail:.3e})')
        sigm = f'compute_z_zprime_Q2d:named-modes:{q2d_where(st, k)}'
        close(R, out[1], orcm.eval(UQ, ZT, dr=1), sum(orcm.cond(UQ, ZT, dr=1)) + 1e-300, sigm + ':dr',
              f'dz/du vs d/du of sum c Qbfs(n,u) + sum a Q2d(n,m,u,t) + sum b Q2d(n,-m,u,t) (the value routines, term by term); cm0={cm0} ams={ams} bms={bms}')
        close(R, out[2], orcm.eval(UQ, ZT, dt=1), sum(orcm.cond(UQ, ZT, dt=1)) + 1e-300, sigm + ':dt',
              f'dz/dt vs d/dt of the explicit sum of the value routines; cm0={cm0} ams={ams} bms={bms}')
    # the same with float64 ndarray coefficients (one set of objects, two calls)
    arrs = (np.array(cm0, dtype=np.float64), [np.array(a, dtype=np.float64) for a in ams], [np.array(b, dtype=np.float64) for b in bms])
    for _ in range(2):
        out = call(Ug.copy(), Tg.copy(), arrs)
        if out is FAILED:
            return
        close(R, out[0], orc.eval(UQ, ZT), orc.scale * (degr + 1 + M), sig + ':ndarray-coefs', 'z with ndarray coefficients vs z with list coefficients')
        close(R, out[1], orc.eval(UQ, ZT, dr=1), sum(orc.cond(UQ, ZT, dr=1)), sig + ':dr', 'dz/du with ndarray coefficients')
        close(R, out[2], orc.eval(UQ, ZT, dt=1), sum(orc.cond(UQ, ZT, dt=1)), sig + ':dt', 'dz/dt with ndarray coefficients')
    R.nontrivial()
    R.outcome('unit' if k >= 0 else 'dense')


# =================================================================================================
# conic helpers of the ray tracer

CR = np.array([0.0, 1.0, 2.5, 5.0, 7.5, 10.0])
CT = np.array([0.0, 0.3, math.pi / 4, math.pi / 2, 2.0, math.pi, 4.5, 5.9])
CSTEP = 1e-30


def kcls(k):
    return 'k=0' if k == 0 else 'k!=0'


def ocls(dx, dy):
    return 'onaxis' if dx == 0 and dy == 0 else ('dx' if dx != 0 else 'dy')


def cstep(f, x):
    """Complex-step derivative of an analytic-safe value routine."""
    return np.imag(f(x + 1j * CSTEP)) / CSTEP


def both_oracles(R, f, x, h, sig, what):
    """Derivative of value routine f at x by complex step (primary) and Richardson (cross-check of the oracle itself)."""
    d_cs = cstep(f, x)
    d_ri, resid, fmax = richardson(f, x, h)
    agree = np.all(np.abs(d_cs - d_ri) <= 10 * resid + 1e4 * EPS * fmax / (h / 16) + 1e-300)
    R.expect(agree, sig + ':oracle-disagreement', f'{what}: complex-step and Richardson derivatives of the value routine disagree '
             f'(max diff {float(np.max(np.abs(d_cs - d_ri))):.3e}); the value routine is not smooth here or the oracle is broken')
    return d_cs


@aborting
def run_conic_radial(case, seed, R):
    c, k = case['c'], case['k']
    rho = CR.copy()
    c0 = ':c=0' if c == 0 else ''
    # sphere (only once per c: k == 0 cell carries it)
    if k == 0:
        want = both_oracles(R, lambda r: V(R, S.sphere_sag, c, r * r), rho, 1.0, 'sphere_sag_der', 'sphere_sag')
        tol = np.abs(want) + abs(c) * np.max(rho)
        got = R.call(S.sphere_sag_der, c, rho.copy())
        close(R, got, want, tol, 'sphere_sag_der' + c0, f'sphere_sag_der(c={c!r}) vs d/drho sphere_sag')
        got = R.call(S.sphere_sag_der, c, rho.copy(), phi=np.sqrt(1 - c * c * rho * rho))
        close(R, got, want, tol, 'sphere_sag_der:phi', f'sphere_sag_der(c={c}, phi=given)')
        got = R.call(S.sphere_sag_der, c, float(rho[3]))
        close(R, got, want[3], tol[3], 'sphere_sag_der', 'scalar rho')
    want = both_oracles(R, lambda r: V(R, S.conic_sag, c, k, r * r), rho, 1.0, 'conic_sag_der', 'conic_sag')
    tol = np.abs(want) + abs(c) * np.max(rho)
    got = R.call(S.conic_sag_der, c, k, rho.copy())
    close(R, got, want, tol, f'conic_sag_der:{kcls(k)}' + c0, f'conic_sag_der(c={c!r}, k={k}) vs d/drho conic_sag')
    phi = np.sqrt(1 - (1 + k) * c * c * rho * rho)
    got = R.call(S.conic_sag_der, c, k, rho.copy(), phi=phi)
    close(R, got, want, tol, f'conic_sag_der:{kcls(k)}:phi', f'conic_sag_der(c={c}, k={k}, phi=given)')
    # d/drho (1/phi)
    want = both_oracles(R, lambda r: 1 / V(R, S.phi_spheroid, c, k, r * r), rho, 1.0, 'der_direction_cosine_spheroid', '1/phi_spheroid')
    tol = np.abs(want) + c * c * np.max(rho)
    sig = f'der_direction_cosine_spheroid:{kcls(k)}' + c0
    got = R.call(S.der_direction_cosine_spheroid, c, k, rho.copy())
    close(R, got, want, tol, sig, f'der_direction_cosine_spheroid(c={c}, k={k}) vs d/drho (1/phi_spheroid)')
    got = R.call(S.der_direction_cosine_spheroid, c, k, rho.copy(), rhosq=rho * rho, phi=phi)
    close(R, got, want, tol, sig, f'der_direction_cosine_spheroid(c={c}, k={k}, rhosq, phi given)')
    R.nontrivial()
    R.outcome('radial')


@aborting
def run_conic_offaxis(case, seed, R):
    c, k, dx, dy = case['c'], case['k'], case['dx'], case['dy']
    Rg, Tg = np.meshgrid(CR, CT, indexing='ij')
    cell = f'{kcls(k)}:{ocls(dx, dy)}' + (':c=0' if c == 0 else '')
    for name, val, der in (('off_axis_conic_der', lambda r, t: V(R, S.off_axis_conic_sag, c, k, r, t, dx, dy), S.off_axis_conic_der),
                           ('off_axis_conic_sigma_der', lambda r, t: 1 / V(R, S.off_axis_conic_sigma, c, k, r, t, dx, dy), S.off_axis_conic_sigma_der)):
        wr = both_oracles(R, lambda r: val(r, Tg), Rg, 1.0, name + ':dr', name)
        wt = both_oracles(R, lambda t: val(Rg, t), Tg, 0.5, name + ':dt', name)
        sc = abs(c) * (np.max(CR) + abs(dx) + abs(dy)) * (1.0 if name == 'off_axis_conic_der' else abs(c) * (np.max(CR) + abs(dx) + abs(dy)))
        out = R.call(der, c, k, Rg.copy(), Tg.copy(), dx, dy, sig=f'{name}:{cell}:exception')
        if out is FAILED or not R.expect(isinstance(out, tuple) and len(out) == 2, name + ':return', 'does not return (dr, dt)'):
            continue
        close(R, out[0], wr, np.abs(wr) + sc, f'{name}:dr:{cell}', f'{name}(c={c}, k={k}, dx={dx}, dy={dy}) d/dr')
        close(R, out[1], wt, np.abs(wt) + sc * np.max(CR), f'{name}:dt:{cell}', f'{name}(c={c}, k={k}, dx={dx}, dy={dy}) d/dt')
    R.nontrivial()
    R.outcome('offaxis')


QST = {'c': 3, 'ab': [[2, 3], [3, 1]]}
QR = np.array([1.5, 2.5, 5.0, 7.5, 10.0])
QNORM = 12.0
QN = QST['c'] + sum(a + b for a, b in QST['ab'])


def ccls(c):
    return 'c=0' if c == 0 else 'c!=0'


def run_q2d_and_der(case, seed, R):
    c, k, dx, dy, kk, Rn = case['c'], case['k'], case['dx'], case['dy'], case['coef'], case['Rn']
    st = case.get('st', QST)
    if kk == -2:
        cm0, ams, bms = q2d_structure(st, -1, seed)
        cm0, ams, bms = [0.0 * v for v in cm0], [[0.0 * v for v in a] for a in ams], [[0.0 * v for v in b] for b in bms]
    else:
        cm0, ams, bms = q2d_structure(st, kk, seed)
    scale_q = 0.05    # Q departure comparable to the base conic sag over the aperture
    # float64 ndarray coefficients, the same objects in every call of the case (the hygiene layer of R.call watches them)
    cm0 = np.array(cm0) * scale_q
    ams = [np.array(a) * scale_q for a in ams]
    bms = [np.array(b) * scale_q for b in bms]
    rr = QR / QNORM * Rn          # the same normalised radii u for every normalisation radius
    h = Rn / QNORM
    Rg, Tg = np.meshgrid(rr, CT, indexing='ij')
    # the structure QST holds one length-1 list (its coefficient is the last one); the dense vector includes it
    cell = f'{ccls(c)}:{kcls(k)}:{ocls(dx, dy)}:' + ('R=1' if Rn == 1 else 'R!=1') + ':' + \
        ('base-only' if kk == -2 else ('q:len=1' if 'len=1' in (q2d_stcls(st) if kk == -1 else q2d_where(st, kk)) else 'q:len>1')) + \
        ('' if 'st' not in case else ':' + q2d_stcls(st).split(':')[-1])
    sig = f'Q2d_and_der:{cell}'
    bad = []

    def call(r, t):
        out = R.call(S.Q2d_and_der, cm0, ams, bms, r * np.cos(t), r * np.sin(t), Rn, c, k, dx, dy, sig=sig + ':exception')
        if out is FAILED or not (isinstance(out, tuple) and len(out) == 3) or np.asarray(out[0]).shape != np.shape(r):
            bad.append(1)
            return np.zeros_like(r)
        return out

    def z(r, t):
        out = call(r, t)
        return out[0] if isinstance(out, tuple) else out
    wr, resr, fr = richardson(lambda r: z(r, Tg), Rg, h)
    wt, rest, ft = richardson(lambda t: z(Rg, t), Tg, 0.5)
    out = call(Rg, Tg)
    if bad:
        if not R.violations:
            R.violation(sig + ':return', 'Q2d_and_der does not return (z, dr, dt) of the coordinate shape')
        return
    sc = abs(c) * (np.max(rr) + abs(dx) + abs(dy)) + scale_q / Rn
    what = f'c={c!r} k={k} dx={dx} dy={dy} normalization_radius={Rn} cm0={cm0.tolist()} ams={[a.tolist() for a in ams]} bms={[b.tolist() for b in bms]}'
    close(R, out[1], wr, np.abs(wr) + 16 * fr / h, sig + ':dr', f'Q2d_and_der d/drho vs Richardson derivative of its own sag (residual {float(np.max(resr)):.2e}); ' + what,
          extra_tol=10 * resr + 1e-9 * sc)
    close(R, out[2], wt, np.abs(wt) + 32 * ft, sig + ':dt', f'Q2d_and_der d/dtheta vs Richardson derivative of its own sag (residual {float(np.max(rest)):.2e}); ' + what,
          extra_tol=10 * rest + 1e-9 * sc * np.max(rr))
    R.nontrivial()
    R.outcome('base-only' if kk == -2 else 'q')


# =================================================================================================
# coordinate argument forms: every derivative routine, one point, every way of writing that point

AF_COEF = [0.37, -1.21, 0.58, 0.93, -0.45]          # non-integer coefficients (an integer work array would truncate them)
AF_ST = {'c': 3, 'ab': [[2, 3], [3, 2]]}


def af_routines():
    """name -> (callable(*primary, *secondary), number of primary coordinates, accepts python scalars)."""
    cs = list(AF_COEF)
    cm0 = [0.37, -1.21, 0.58]
    ams = [[0.93, -0.45], [0.31, 0.77, -0.62]]
    bms = [[-0.28, 0.66, 0.12], [0.54, -0.83]]
    out = {}
    for name, fam in FAMS.items():
        out[f'{name}_der'] = (fam['der'], 'n,x,*par', True)
        out[f'{name}_der_seq'] = (fam['seq'], 'ns,x,*par', False)
    out['zernike_nm_der'] = (P.zernike_nm_der, 'n,m,r,t', True)
    out['jacobi_sum_clenshaw_der'] = (lambda x, a, b, j: P.jacobi_sum_clenshaw_der(cs, a, b, x, j=j), 'x', True)
    out['clenshaw_qbfs_der'] = (lambda x, j: qpoly.clenshaw_qbfs_der(cs, x, j=j), 'x', True)
    out['clenshaw_q2d_der'] = (lambda x, m, j: qpoly.clenshaw_q2d_der(cs, m, x, j=j), 'x', True)
    out['compute_z_zprime_Qbfs'] = (lambda u: qpoly.compute_z_zprime_Qbfs(cs, u, u * u), 'u', True)
    out['compute_z_zprime_Qcon'] = (lambda u: qpoly.compute_z_zprime_Qcon(cs, u, u * u), 'u', True)
    out['compute_z_zprime_Q2d'] = (lambda u, t: qpoly.compute_z_zprime_Q2d(cm0, ams, bms, u, t), 'u,t', True)
    out['sphere_sag_der'] = (lambda rho, c: S.sphere_sag_der(c, rho), 'rho', True)
    out['conic_sag_der'] = (lambda rho, c, k: S.conic_sag_der(c, k, rho), 'rho', True)
    out['der_direction_cosine_spheroid'] = (lambda rho, c, k: S.der_direction_cosine_spheroid(c, k, rho), 'rho', True)
    out['off_axis_conic_der'] = (lambda r, t, c, k, dx, dy: S.off_axis_conic_der(c, k, r, t, dx, dy), 'r,t', True)
    out['off_axis_conic_sigma_der'] = (lambda r, t, c, k, dx, dy: S.off_axis_conic_sigma_der(c, k, r, t, dx, dy), 'r,t', True)
    out['Q2d_and_der'] = (lambda x, y, c, k, dx, dy: S.Q2d_and_der(np.array(cm0) * 0.05, [np.array(a) * 0.05 for a in ams], [np.array(b) * 0.05 for b in bms],
                                                                      x, y, 12.0, c, k, dx, dy), 'x,y', True)
    for k_, v in out.items():
        try:
            v[0].__qualname__ = k_
        except Exception:   # noqa
            pass
    return out


AF = None
# forms left out: zernike_nm (the value routine) itself raises for integer ARRAY radial coordinates when n_j = 0 (in-place float * int), and an
# array of radial coordinates made of the integers 0 and 1 only is not a plausible input; integer scalars r = 0, r = 1 are kept
AF_SKIP = {'zernike_nm_der': ('int64array', 'int32array')}

AF_FORMS = [  # name, constructor from a python float, needs an integer-valued point, eps, is-scalar form
    ('pyfloat', float, False, EPS, True),
    ('npfloat64', np.float64, False, EPS, True),
    ('npfloat32', np.float32, False, EPS32, True),
    ('array0d', lambda v: np.array(v, dtype=np.float64), False, EPS, False),
    ('float32array', lambda v: np.array([v], dtype=np.float32), False, EPS32, False),
    ('pyint', lambda v: int(v), True, EPS, True),
    ('npint64', lambda v: np.int64(v), True, EPS, True),
    ('int64array', lambda v: np.array([int(v)], dtype=np.int64), True, EPS, False),
    ('int32array', lambda v: np.array([int(v)], dtype=np.int32), True, EPS, False),
]


def af_flat(out):
    """Every float of an output (array / scalar / tuple of those) as one 1-D float64 vector, or None if it is not numeric."""
    try:
        parts = out if isinstance(out, (tuple, list)) else (out,)
        return np.concatenate([np.asarray(o, dtype=np.float64).ravel() for o in parts])
    except Exception:   # noqa
        return None


def run_argforms(case, seed, R):
    global AF
    if AF is None:
        AF = af_routines()
    name, pt, pre, post, nprim = case['routine'], case['pt'], case['pre'], case['post'], case['nprim']
    f, _, scalars_ok = AF[name]
    prim, sec = pt[:nprim], pt[nprim:]
    integer = all(float(v).is_integer() for v in prim)

    def call(conv, scalar, sig, vals=None):
        vals = prim if vals is None else vals
        coords = [conv(v) for v in vals]
        # secondary coordinates (azimuth) follow the container kind of the form, always in floating point
        coords += [float(v) if scalar else (np.array(v, dtype=np.float64) if np.ndim(coords[0]) == 0 else np.array([v], dtype=np.float64)) for v in sec]
        return R.call(f, *pre, *coords, *post, sig=sig)

    ref = af_flat(call(lambda v: np.array([v], dtype=np.float64), False, f'{name}:form=float64array:exception'))
    if ref is None or not np.all(np.isfinite(ref)):
        if not R.violations:
            R.violation(f'{name}:form=float64array', 'the float64 one-element-array call did not return finite numbers')
        return
    for fname, conv, need_int, eps, scalar in AF_FORMS:
        if need_int and not integer:
            continue
        if fname in AF_SKIP.get(name, ()):
            continue
        if scalar and not scalars_ok and fname in ('pyfloat', 'pyint'):
            continue      # *_der_seq document an ndarray coordinate (they read x.shape / x.dtype): python numbers are not in their domain
        sig = f'{name}:form={fname}'
        want = ref
        if eps == EPS32:
            want = af_flat(call(lambda v: np.array([float(np.float32(v))], dtype=np.float64), False, f'{name}:form=float64array:exception'))
            if want is None:
                continue
        got = call(conv, scalar, sig + ':exception')
        if got is FAILED:
            continue
        g = af_flat(got)
        if not R.expect(g is not None and g.shape == want.shape, sig + ':shape', f'{name} with the coordinate written as {fname} returns {type(got).__name__} of a different size than for a one-element float64 array'):
            continue
        scale = float(np.max(np.abs(want))) if want.size else 0.0
        close(R, g, want, np.abs(want) + scale + 1e-300, sig, f'{name}{tuple(pre)} at {prim} written as {fname} vs the same point as a float64 array', eps=eps)
    R.nontrivial()
    R.outcome('int-point' if integer else 'generic-point')


def argform_cases(q):
    cases = []

    def add(routine, pre, pts, post=(), nprim=1):
        for pt in pts:
            cases.append({'routine': routine, 'pre': list(pre), 'post': list(post), 'pt': list(pt), 'nprim': nprim})
    fps_small = [('legendre', []), ('cheby1', []), ('cheby2', []), ('cheby3', []), ('cheby4', []), ('hermite_He', []), ('hermite_H', []),
                 ('laguerre', [0.5]), ('jacobi', [0, 0]), ('jacobi', [-0.5, 0.5]), ('jacobi', [2.5, 0.3]), ('jacobi', [0, 4])]
    for fam, par in fps_small:
        pts = [[0.0], [1.0], [2.0], [0.3]] if fam == 'laguerre' else [[-1.0], [0.0], [1.0], [0.3]]
        for n in (0, 1, 2, 5):
            add(f'{fam}_der', [n], pts, par)
        for ns in ([0], [1], [0, 1, 2, 5]):
            add(f'{fam}_der_seq', [ns], pts, par)
    for n, m in ((0, 0), (1, 1), (1, -1), (2, 0), (3, 1), (4, -2), (5, 3)):
        add('zernike_nm_der', [n, m], [[0.0, 0.7], [1.0, 0.7], [0.4, 0.7]])
    for a, b in ((0, 0), (0, 4), (-0.5, 0.5), (2.5, 0.3)):
        for j in (1, 2):
            add('jacobi_sum_clenshaw_der', [], [[-1.0], [0.0], [1.0], [0.3]], [a, b, j])
    for j in (1, 2):
        add('clenshaw_qbfs_der', [], [[0.0], [1.0], [0.36]], [j])
        for m in (1, 2, 3):
            add('clenshaw_q2d_der', [], [[0.0], [1.0], [0.36]], [m, j])
    for r in ('compute_z_zprime_Qbfs', 'compute_z_zprime_Qcon'):
        add(r, [], [[0.0], [1.0], [0.6]])
    add('compute_z_zprime_Q2d', [], [[0.0, 0.7], [1.0, 0.7], [0.6, 0.7]])
    rpts = [[0.0], [1.0], [5.0], [2.5]]
    for c, k in ((1 / 50, -0.6), (-1 / 80, 0)):
        add('sphere_sag_der', [], rpts, [c])
        add('conic_sag_der', [], rpts, [c, k])
        add('der_direction_cosine_spheroid', [], rpts, [c, k])
        for dx, dy in ((0, 0), (5, 0), (0, -3)):
            add('off_axis_conic_der', [], [[v[0], 0.7] for v in rpts], [c, k, dx, dy])
            add('off_axis_conic_sigma_der', [], [[v[0], 0.7] for v in rpts], [c, k, dx, dy])
            add('Q2d_and_der', [], [[0.0, 0.0], [1.0, 0.0], [3.0, 4.0], [2.5, 1.25]], [c, k, dx, dy], nprim=2)
    return cases


# =================================================================================================
# documented work arrays (`alphas`): one array handed to successive calls of the Clenshaw derivative sums

WA_EVENTS = ['A', 'B', 'U', 'E0', 'Ar']     # coefficient vector (dense A, dense B, unit e_{L-1}, unit e_0) x coordinate set (X0; 'Ar': A at X1)


def wa_call(R, kind, par, cs, x, j, sig, **kw):
    if kind == 'jacobi':
        return R.call(P.jacobi_sum_clenshaw_der, cs, par[0], par[1], x, j=j, sig=sig, **kw)
    if kind == 'qbfs':
        return R.call(qpoly.clenshaw_qbfs_der, cs, x, j=j, sig=sig, **kw)
    return R.call(qpoly.clenshaw_q2d_der, cs, par[0], x, j=j, sig=sig, **kw)


def wa_oracle(R, kind, par, cs):
    """Cheb1D of the function the alphas of the routine name (see the module docstring), from the value routines term by term."""
    def f(xn):
        tot = np.zeros_like(xn)
        u = np.sqrt(xn) if kind != 'jacobi' else None
        for i, c in enumerate(cs):
            if c == 0:
                continue
            if kind == 'jacobi':
                v = R.call(P.jacobi, i, par[0], par[1], xn)
            elif kind == 'qbfs':
                v = R.call(qpoly.Qbfs, i, u)
            else:
                v = R.call(qpoly.Q2d, i, par[0], u, np.zeros_like(u))
            if v is FAILED:
                return FAILED
            v = np.asarray(v, dtype=float)
            if kind == 'qbfs':
                v = v / (xn * (1 - xn))
            elif kind == 'q2d':
                v = v / u ** par[0]
            tot = tot + c * v
        return tot
    dom = (-1, 1) if kind == 'jacobi' else (0, 1)
    return Cheb1D(f, dom[0], dom[1], len(cs) - 1)


def wa_combo(kind, par, out, i, L):
    """The documented combination of row i of the alphas that is the i-th derivative of the sum."""
    if kind == 'jacobi':
        return out[i][0]
    if kind == 'qbfs':
        return 2 * (out[i][0] + (out[i][1] if L > 1 else 0.0))
    got = 0.5 * out[i][0]
    if par[0] == 1 and L - 1 > 2:
        got = got - 2 / 5 * out[i][3]
    return got


def run_workarray(case, seed, R):
    kind, par, L, j, xs, depth = case['kind'], case['par'], case['L'], case['j'], case['xs'], case['depth']
    name = {'jacobi': 'jacobi_sum_clenshaw_der', 'qbfs': 'clenshaw_qbfs_der', 'q2d': 'clenshaw_q2d_der'}[kind]
    xa = np.array(JPTS) if kind == 'jacobi' else XQ.copy()
    if xs == 'array':
        X0, X1 = xa.copy(), xa[::-1].copy()
    else:
        X0, X1 = float(xa[3]), float(xa[5])
    vecs = {'A': unit_or_dense(L, -1, seed, 96), 'B': [2.5 * v for v in unit_or_dense(L, -1, seed, 97)],
            'U': unit_or_dense(L, L - 1, seed, 0), 'E0': unit_or_dense(L, 0, seed, 0)}
    orcs = {}
    for key, cs in vecs.items():
        orc = wa_oracle(R, kind, par, cs)
        if not orc.ok:
            return
        R.expect(orc.tail_ok(), f'{kind}:value-not-degree-n', f'sum of the value routines is not of degree {L - 1}; oracle invalid (tail {orc.tail:.3e})')
        orcs[key] = orc
    wshape = (j + 1, L) + np.shape(X0)
    amp = L if kind == 'qbfs' else 1

    def step(ev, work, sig, hist):
        key = 'A' if ev == 'Ar' else ev
        x = X1 if ev == 'Ar' else X0
        cs, orc = vecs[key], orcs[key]
        kw = {} if work is None else {'alphas': work}
        # the work array is a documented output buffer and is, by design, what the previous call returned: the generic hygiene rules
        # (result changed by a later call) do not apply to it
        out = wa_call(R, kind, par, np.array(cs, dtype=np.float64), x if np.ndim(x) == 0 else x.copy(), j, sig + ':exception', hygiene=work is None, **kw)
        if out is FAILED:
            return False
        a = np.asarray(out)
        if not R.expect(a.dtype.kind == 'f' and a.shape == wshape, sig + ':shape', f'alphas shape {a.shape}, expected {wshape} (history {hist})'):
            return False
        xe = np.atleast_1d(np.asarray(x, dtype=float))
        ok = True
        for i in range(1, j + 1):
            want = orc.der(xe, i)
            cond = amp * sum(orc.cond(xa, i))
            ok &= bool(close(R, np.atleast_1d(wa_combo(kind, par, a, i, L)), want, cond, sig,
                             f'{name} row {i} vs d^{i}/dx^{i} of the sum, coefficients {cs}, j={j}, call history {hist} '
                             + ('(no work array)' if work is None else '(one zero-initialised work array `alphas` passed to every call of the history)')))
        return ok

    evs = [e for e in WA_EVENTS if not (L == 1 and e == 'E0')]
    cell = jcls(j, L)
    # without a work array (the reference behaviour of this tree for the same calls)
    for ev in evs:
        step(ev, None, f'{name}:{cell}', [ev])
    # every history of up to `depth` calls sharing one work array; the last call of each history is judged (prefix-closed)
    hists = [[e] for e in evs]
    while hists:
        nxt = []
        for h in hists:
            work = np.zeros(wshape, dtype=np.float64)
            good = True
            for n_, ev in enumerate(h):
                last = n_ == len(h) - 1
                if last:
                    good = step(ev, work, f'{name}:workarray:' + ('first-use' if len(h) == 1 else 'reused') + f':{cell}', h)
                else:
                    key = 'A' if ev == 'Ar' else ev
                    x = X1 if ev == 'Ar' else X0
                    if wa_call(R, kind, par, np.array(vecs[key], dtype=np.float64), x if np.ndim(x) == 0 else x.copy(), j,
                               f'{name}:workarray:exception', hygiene=False, alphas=work) is FAILED:
                        good = False
                        break
            if good and len(h) < depth:
                nxt += [h + [e] for e in evs]
        hists = nxt
        if R.violations:
            break       # one level deeper would repeat the same finding |events| times
    R.nontrivial(L >= 2)
    R.outcome(f'{xs}')


def workarray_cases(q):
    depth = 2 if q else 3
    cfg = [('jacobi', ab) for ab in ([0, 0], [0, 4], [-0.5, 0.5], [2.5, 0.3])] + [('qbfs', [])] + [('q2d', [m]) for m in (1, 2, 3)]
    Ls = (1, 2, 3, 5) if q else (1, 2, 3, 4, 5, 8)
    js = (1, 2, 3) if q else (1, 2, 3, 4)
    return [{'kind': kind, 'par': par, 'L': L, 'j': j, 'xs': xs, 'depth': depth} for L in Ls for j in js for kind, par in cfg for xs in ('array', 'scalar')]


# =================================================================================================
# size thresholds: every routine of the property is point-wise in its coordinate arguments, so f(tile(x)) == tile(f(x))

LG_B = np.array([-0.83, -0.57, -0.31, -0.12, 0.09, 0.27, 0.46, 0.64, 0.71, 0.88, 0.95])      # 11 generic interior points (odd tiling period)
LG_U = (LG_B + 1) / 2
LG_T = 0.2 + 0.55 * np.arange(len(LG_B))
LG = None
LG_ROW = ('Q2d_and_der',)


def lg_routines():
    """name -> (callable(*coordinate arrays), [base coordinate vectors of length 11]).

    Q2d_and_der turns VECTOR x, y into a grid (cart_to_polar, vec_to_grid=True, documented): it is point-wise for >= 2-D coordinates
    only, and gets its 1-D sizes as (1, N) arrays (LG_ROW).
    """
    cs = list(AF_COEF)
    cm0 = [0.37, -1.21, 0.58]
    ams = [[0.93, -0.45], [0.31, 0.77, -0.62]]
    bms = [[-0.28, 0.66, 0.12], [0.54, -0.83]]
    c, k = 1 / 50, -0.6
    rho = 10 * LG_U
    out = {}
    for name, fam in FAMS.items():
        par = {'jacobi': [2.5, 0.3], 'laguerre': [0.5]}.get(name, [])
        a, b = fam['dom']
        base = [0.5 * (a + b) + 0.5 * (b - a) * LG_B] if name != 'laguerre' else [8 * LG_U]
        out[f'{name}_der'] = ((lambda x, fam=fam, par=par: fam['der'](5, x, *par)), base)
        out[f'{name}_der_seq'] = ((lambda x, fam=fam, par=par: fam['seq']([1, 2, 5], x, *par)), base)
    out['zernike_nm_der'] = (lambda r, t: P.zernike_nm_der(5, 3, r, t), [LG_U, LG_T])
    out['zernike_nm_der_seq'] = (lambda r, t: P.zernike_nm_der_seq([(3, 1), (4, -2), (5, 3)], r, t), [LG_U, LG_T])
    out['jacobi_sum_clenshaw_der'] = (lambda x: P.jacobi_sum_clenshaw_der(cs, 0, 4, x, j=2)[1:, 0], [LG_B])
    out['clenshaw_qbfs_der'] = (lambda x: qpoly.clenshaw_qbfs_der(cs, x, j=2)[1:, :2], [LG_U ** 2])
    out['clenshaw_q2d_der'] = (lambda x: (lambda a: (a[1:, 0], a[1, 3]))(qpoly.clenshaw_q2d_der(cs, 1, x, j=2)), [LG_U ** 2])
    out['compute_z_zprime_Qbfs'] = (lambda u, usq: qpoly.compute_z_zprime_Qbfs(cs, u, usq), [LG_U, LG_U ** 2])
    out['compute_z_zprime_Qcon'] = (lambda u, usq: qpoly.compute_z_zprime_Qcon(cs, u, usq), [LG_U, LG_U ** 2])
    out['compute_z_zprime_Q2d'] = (lambda u, t: qpoly.compute_z_zprime_Q2d(cm0, ams, bms, u, t), [LG_U, LG_T])
    out['sphere_sag_der'] = (lambda r: S.sphere_sag_der(c, r), [rho])
    out['conic_sag_der'] = (lambda r: S.conic_sag_der(c, k, r), [rho])
    out['der_direction_cosine_spheroid'] = (lambda r: S.der_direction_cosine_spheroid(c, k, r), [rho])
    out['off_axis_conic_der'] = (lambda r, t: S.off_axis_conic_der(c, k, r, t, 5, 0), [rho, LG_T])
    out['off_axis_conic_sigma_der'] = (lambda r, t: S.off_axis_conic_sigma_der(c, k, r, t, 5, 0), [rho, LG_T])
    out['Q2d_and_der'] = (lambda x, y: S.Q2d_and_der(np.array(cm0) * 0.05, [np.array(a) * 0.05 for a in ams], [np.array(b) * 0.05 for b in bms],
                                                    x, y, 12.0, c, k, 5, 0), [rho * np.cos(LG_T), rho * np.sin(LG_T)])
    for k_, v in out.items():
        v[0].__qualname__ = k_
    return out


LG_1D = [s for kk in range(7, 17) for s in (2 ** kk + 1, 2 ** kk + 2 ** (kk - 1) + 3)]
LG_2D = [[129, 3], [150, 150], [181, 182], [300, 300], [257, 1030]]
LG_BIG = [[1025, 1030]]
LG_GRID = ('zernike_nm_der', 'zernike_nm_der_seq', 'jacobi_sum_clenshaw_der', 'clenshaw_qbfs_der', 'clenshaw_q2d_der', 'compute_z_zprime_Qbfs', 'compute_z_zprime_Qcon',
           'compute_z_zprime_Q2d', 'sphere_sag_der', 'conic_sag_der', 'der_direction_cosine_spheroid', 'off_axis_conic_der', 'off_axis_conic_sigma_der', 'Q2d_and_der')


def lg_parts(out, cshape):
    """The float arrays of a result (array or tuple of arrays) whose trailing axes are the coordinate shape, else None."""
    try:
        parts = [np.asarray(p) for p in (out if isinstance(out, (tuple, list)) else (out,))]
    except Exception:   # noqa
        return None
    n = len(cshape)
    if not parts or any(p.dtype.kind != 'f' or p.ndim < n or p.shape[p.ndim - n:] != tuple(cshape) for p in parts):
        return None
    return parts


def run_large(case, seed, R):
    global LG
    if LG is None:
        LG = lg_routines()
    name, shape = case['routine'], tuple(case['shape'])
    f, base = LG[name]
    period = len(base[0])
    if name in LG_ROW:
        base = [b.reshape(1, -1) for b in base]
        shape = (1,) * (2 - len(shape)) + shape if len(shape) < 2 else shape
    N = int(np.prod(shape))
    cls = 'big' if N > 2 ** 20 else f'{len(case["shape"])}d'
    sig = f'{name}:large:{cls}'
    small = lg_parts(R.call(f, *[b.copy() for b in base], sig=f'{name}:large:period:exception'), base[0].shape)
    if small is not None:
        small = [p.reshape(p.shape[:p.ndim - base[0].ndim] + (period,)) for p in small]
        base = [b.reshape(-1) for b in base]
    if small is None:
        if not R.violations:
            R.violation(f'{name}:large:period', f'{name} on {period} points does not return float arrays of the coordinate shape')
        return
    idx = (np.arange(N) % period).reshape(shape)
    got = R.call(f, *[np.ascontiguousarray(b[idx]) for b in base], hygiene=False, sig=sig + ':exception')
    if got is FAILED:
        return
    big = lg_parts(got, shape)
    if not R.expect(big is not None and len(big) == len(small) and all(g.shape == s.shape[:-1] + shape for g, s in zip(big, small)), sig + ':shape',
                    f'{name} on coordinates of shape {shape}: result is not float arrays of that shape with the leading axes of the {period}-point result'):
        return
    generic = True
    for pi, (g, s) in enumerate(zip(big, small)):
        want = s[..., idx]
        rowmax = np.max(np.abs(s), axis=-1).reshape(s.shape[:-1] + (1,) * len(shape))
        generic &= bool(np.all(s != 0))
        R.expect_close(g, want, KTOL * EPS * (np.abs(want) + rowmax) + 1e-300, sig,
                       f'{name} on the {period}-point coordinate set tiled to shape {shape} ({N} points, C order) vs the tiled {period}-point result, output {pi}')
    R.nontrivial(generic)
    R.outcome('large:' + cls)


def large_cases(q):
    global LG
    if LG is None:
        LG = lg_routines()
    names = list(LG)
    shapes = [[s] for s in LG_1D] + LG_2D
    cases = [{'routine': r, 'shape': sh} for sh in shapes for r in names]
    # > 2^20 points: in the quick tier only the routines that are evaluated on whole surface / pupil grids (and the sums they are built on)
    bigs = [r for r in names if not q or r in LG_GRID]
    cases += [{'routine': r, 'shape': sh} for sh in LG_BIG for r in bigs]
    return cases


# =================================================================================================
# plan

def plan(tier, seed):
    q = tier == 'quick'
    NMAX = 12 if q else 24
    LMAX = 8 if q else 12
    JS = [1, 2, 3] if q else [1, 2, 3, 4]
    ZN = 12 if q else 20
    MQ = 6 if q else 10
    fps = fam_params()
    poly_cases = [{'fam': f, 'par': p, 'n': n} for n in range(NMAX + 1) for f, p in fps]
    ns_lists = [list(range(n + 1)) for n in range(1, NMAX + 1)]
    ns_lists += [list(range(0, NMAX + 1, 2)), list(range(1, NMAX + 1, 2)), list(range(1, NMAX + 1)), list(range(2, NMAX + 1)),
                 list(range(3, NMAX + 1)), [0, NMAX], [1, 4, 9], [2, 3], [0, 2], [1, 3], [0, 3, NMAX - 1]]
    seq_cases = [{'fam': f, 'par': p, 'ns': ns} for ns in ns_lists for f, p in fps]
    hfp = [('legendre', [])] + [(f'cheby{i}', []) for i in (1, 2, 3, 4)] + [('jacobi', ab) for ab in HJAC]
    high_cases = [{'fam': f, 'par': p, 'n': n} for n in (HORD if q else HORD + [129, 300, 513]) for f, p in hfp]
    dt_cases = [{'fam': f, 'par': p, 'n': n} for n in range(5) for f, p in fps]
    zdt_cases = [{'n': n, 'm': m, 'norm': True} for n in range(5) for m in range(-n, n + 1, 2)]
    af_cases = argform_cases(q)
    nms = [(n, m) for n in range(ZN + 1) for m in range(-n, n + 1, 2)]
    z_cases = [{'n': n, 'm': m, 'norm': norm} for (n, m) in nms for norm in (True, False)]
    nms6 = [[n, m] for n in range(7) for m in range(-n, n + 1, 2)]
    zs_cases = [{'nms': lst, 'norm': norm} for norm in (True, False)
                for lst in (nms6, nms6[::-1], [nm for nm in nms6 if nm[1] == 0], [nm for nm in nms6 if nm[1] < 0],
                            [nm for nm in nms6 if abs(nm[1]) == 1], [[2, 0], [2, 0]])]
    coef_ix = [(L, k) for L in range(1, LMAX + 1) for k in list(range(L)) + [-1]]
    jc_cases = [{'a': a, 'b': b, 'L': L, 'k': k, 'js': JS} for (L, k) in coef_ix for a in JAC_ALPHABET for b in JAC_ALPHABET]
    qb_cases = [{'L': L, 'k': k, 'js': JS} for (L, k) in coef_ix]
    q2_cases = [{'m': m, 'L': L, 'k': k, 'js': JS} for m in range(1, MQ + 1) for (L, k) in coef_ix]
    zp_cases = [{'kind': kind, 'L': L, 'k': k} for kind in ('Qbfs', 'Qcon') for (L, k) in coef_ix]
    # every sparsity pattern: every support mask with 2 <= |support| < L (|support| = 1 are the unit vectors, = L the dense vector)
    LSP = 8 if q else 10
    zp_cases += [{'kind': kind, 'L': L, 'mask': [mk >> i & 1 for i in range(L)]} for kind in ('Qbfs', 'Qcon') for L in range(3, LSP + 1)
                 for mk in range(1, 2 ** L - 1) if bin(mk).count('1') >= 2]
    lens = [[1, 1], [2, 3], [4, 1], [5, 5]] if q else [[1, 1], [2, 3], [4, 1], [5, 5], [1, 4], [8, 6]]
    structs = []
    for Lc in (0, 1, 2, 5):
        for ab1 in lens:
            structs.append({'c': Lc, 'ab': [ab1]})
        for ab1 in lens:
            for ab2 in lens:
                structs.append({'c': Lc, 'ab': [ab1, ab2]})
        for i, ab1 in enumerate(lens):
            structs.append({'c': Lc, 'ab': [ab1, lens[(i + 1) % len(lens)], lens[(i + 2) % len(lens)]]})
        structs.append({'c': Lc, 'ab': [[2, 2]] * (4 if q else 6)})
    zq_cases = [{'st': st, 'k': k} for st in structs for k in list(range(st['c'] + sum(a + b for a, b in st['ab']))) + [-1]]
    # every sparsity pattern of the azimuthal orders: every non-empty subset of {1..MS} populated, the other orders given as empty lists,
    # x four (len a, len b) assignments (two-sided unequal, cosine only, sine only, mixed incl. one-sided and length 1) x cm0 absent / present
    MS = 4 if q else 5
    variants = [lambda i: [2, 3], lambda i: [3, 0], lambda i: [0, 2], lambda i: [[4, 1], [0, 3], [2, 0], [1, 2], [3, 3]][i % 5]]
    sparse_structs, sparse_variant, seen_st = [], [], set()
    for mask in range(1, 2 ** MS):
        pop = [mm for mm in range(1, MS + 1) if mask >> (mm - 1) & 1]
        for vi, var in enumerate(variants):
            for Lc in (0, 2):
                ab = [var(pop.index(mm)) if mm in pop else [0, 0] for mm in range(1, max(pop) + 1)]
                key = json.dumps([Lc, ab])
                if key not in seen_st:
                    seen_st.add(key)
                    sparse_structs.append({'c': Lc, 'ab': ab})
                    sparse_variant.append(vi)
    zs_sparse_cases = [{'st': st, 'k': k} for st in sparse_structs for k in list(range(st['c'] + sum(a + b for a, b in st['ab']))) + [-1]]
    known = {json.dumps(c, sort_keys=True) for c in zq_cases}
    zs_sparse_cases = [c for c in zs_sparse_cases if json.dumps(c, sort_keys=True) not in known]
    CS = [1 / 50, -1 / 80, 0, 0.0]      # c exactly zero (flat base), as int and as float
    KS = [0, -1, -0.6, 0.5, -2]
    OFF = [[0, 0], [5, 0], [0, 5], [-3, 0], [0, -7.5]] if q else [[0, 0], [5, 0], [0, 5], [-3, 0], [0, -7.5], [12, 0], [0, 0.25]]
    cr_cases = [{'c': c, 'k': k} for c in CS for k in KS]
    co_cases = [{'c': c, 'k': k, 'dx': dx, 'dy': dy} for c in CS for k in KS for dx, dy in OFF]
    nq = QN
    RNS = [1, 0.5, 25]
    qd_cases = [{'c': c, 'k': k, 'dx': dx, 'dy': dy, 'coef': kk, 'Rn': QNORM} for c in CS for k in KS for dx, dy in OFF for kk in [-2] + list(range(nq)) + [-1]]
    qd_sparse = [st for st, vi in zip(sparse_structs, sparse_variant) if vi == 3 and st['c'] == 0]     # one (mixed-length) structure per subset of orders
    qd_cases += [{'c': c, 'k': -1, 'dx': dx, 'dy': dy, 'coef': kk, 'Rn': QNORM, 'st': st} for st in qd_sparse for c in (1 / 50, 0)
                 for dx, dy in ([0, 0], [5, 0]) for kk in list(range(st['c'] + sum(a + b for a, b in st['ab']))) + [-1]]
    qd_cases += [{'c': c, 'k': k, 'dx': dx, 'dy': dy, 'coef': kk, 'Rn': Rn} for Rn in RNS for c in CS for k in KS for dx, dy in OFF for kk in (-2, 0, QST['c'], -1)]
    pts = 'points: end-points, 0 and rationals inside the domain'
    wa_cases = workarray_cases(q)
    lg_cases = large_cases(q)
    return [
        ScopeUnit('poly1d', poly_cases, run_poly1d,
                  f'every order n in [0..{NMAX}] x every family/parameter (Legendre, Chebyshev 1-4, Hermite He/H, Laguerre alpha in {LAG_ALPHABET}, '
                  f'Jacobi (alpha,beta) in {JAC_ALPHABET}^2): fam_der on 1-D, 2-D, scalar and float32 coordinates and fam_der_seq([n]) against the Chebyshev-'
                  f'differentiated value routine; {pts}; non-trivial when n >= 1', reset=reset_all),
        ScopeUnit('poly1d_seq', seq_cases, run_poly1d_seq,
                  f'same families/parameters x {len(ns_lists)} order lists (every prefix [0..n], evens, odds, tails, sparse picks): every row of fam_der_seq '
                  'against the differentiated value routine of that order, float64 and float32', reset=reset_all),
        ScopeUnit('poly1d_dtype', dt_cases, run_poly1d_dtype,
                  'orders 0..4 x every family/parameter x coordinate forms {float64, int64, int32, float32 arrays; Python int, numpy int64, numpy float32, Python float scalars} at the '
                  'integer points of the domain: fam_der and every row of fam_der_seq([0..n]) against the differentiated value routine evaluated in float64 at the same points '
                  '(values are judged, the dtype of the result is not)', reset=reset_all),
        ScopeUnit('zernike_dtype', zdt_cases, run_zernike_dtype,
                  'every (n,m), n <= 4: zernike_nm_der with integer (int64, int32), float32 and Python / numpy integer scalar radial coordinates r in {0, 1}', reset=reset_all),
        ScopeUnit('argforms', af_cases, run_argforms,
                  'every derivative routine of the property x a few orders/parameters x special points (x = -1, 0, 1; u, usq = 0, 1; rho = 0, 1, 5) and one generic point x every way of '
                  'writing the coordinate {python float, numpy float64 / float32 scalar, 0-d array, float32 array; for integer-valued points also python int, numpy int64 scalar, '
                  'int64 / int32 array}, non-integer coefficients: the result must equal the result for the same point given as a one-element float64 array (eps of the coarser type); '
                  'python numbers are left out for *_der_seq, whose documented coordinate is an ndarray (they read x.shape); integer ARRAY radial coordinates are left out for '
                  'zernike_nm_der (zernike_nm itself rejects them for n_j = 0)', reset=reset_all),
        ScopeUnit('high_order', high_cases, run_high_order,
                  f'threshold orders n in {HORD} (overflow of n!, gamma, Pochhammer at 171) x Legendre, Chebyshev 1-4, Jacobi (alpha,beta) in {HJAC}: fam_der (array, scalar) and '
                  f'fam_der_seq ([n] and [0,1,n-1,n]) at {len(HPTS)} interior points against the trigonometric closed forms of T_n\', U_n\', V_n\', W_n\' and against the value routine '
                  f'differentiated spectrally on {list(HDOM)}; tolerance 1000 eps (n+1) max|f\'| resp. 1000 eps (n+1)^2 max|f| / 0.9; this part is a finite threshold alphabet, not closed over the order', reset=reset_all),
        ScopeUnit('zernike', z_cases, run_zernike,
                  f'every (n,m), n <= {ZN}, both norm flags: zernike_nm_der radial and azimuthal on the {len(ZR)}x{len(ZT)} (r,t) grid (r=0 and r=1 included), on paired '
                  'vectors, and zernike_nm_der_seq([(n,m)]) against Chebyshev(r) x Fourier(t) differentiation of zernike_nm', reset=reset_all),
        ScopeUnit('zernike_seq', zs_cases, run_zernike_seq,
                  'zernike_nm_der_seq over whole lists (all terms n<=6 sorted/reversed, m=0 only, sine only, |m|=1 only, repeated term), both norm flags', reset=reset_all),
        ScopeUnit('jacobi_clenshaw', jc_cases, run_jacobi_clenshaw,
                  f'every unit coefficient vector of every length 1..{LMAX} + one seeded dense vector x (alpha,beta) in {JAC_ALPHABET}^2 x derivative order j in {JS}: '
                  'alphas[i][0], i=1..j, of jacobi_sum_clenshaw_der (list and ndarray coefficients, array and scalar x) against the i-th Chebyshev derivative of sum s_k jacobi(k)', reset=reset_all),
        ScopeUnit('qbfs_clenshaw', qb_cases, run_qbfs_clenshaw,
                  f'every unit vector of length 1..{LMAX} + dense x j in {JS}: 2(alphas[i][0]+alphas[i][1]) of clenshaw_qbfs_der against d^i/dx^i of sum c_n Qbfs_n(u)/(u^2(1-u^2)), x=u^2', reset=reset_all),
        ScopeUnit('q2d_clenshaw', q2_cases, run_q2d_clenshaw,
                  f'm in [1..{MQ}] x every unit vector of length 1..{LMAX} + dense x j in {JS}: the documented combination of clenshaw_q2d_der alphas against d^i/dx^i of sum c_n Q2d(n,m,u,0)/u^m', reset=reset_all),
        ScopeUnit('zprime_qbfs_qcon', zp_cases, run_zprime_1d,
                  f'compute_z_zprime_Qbfs / _Qcon: every unit vector of length 1..{LMAX} + dense, and every sparsity pattern (every support mask with 2 <= |support| < L, L in 3..{LSP}, '
                  'seeded dense values on the support, exact zeros elsewhere: leading, interior, trailing zeros in every combination), each written as list, float64 ndarray, tuple with the zeros '
                  'as Python int 0, and int64 ndarray when integer-valued: returned slope against d/du of the returned sag AND against d/du of sum_n c_n Qbfs(n,u) resp. Qcon(n,u) built from the '
                  'value routines order by order (both Chebyshev-differentiated in u on [0,1])', reset=reset_all),
        ScopeUnit('zprime_q2d', zq_cases, run_zprime_q2d,
                  f'compute_z_zprime_Q2d: {len(structs)} coefficient structures (cm0 length in {{0,1,2,5}}, 1..{4 if q else 6} azimuthal orders, (len a, len b) from {lens}) x every unit '
                  'coefficient + dense: returned dr, dt against Chebyshev(u) x Fourier(t) differentiation of the returned sag AND of the explicit sum of the value routines '
                  '(cm0[n] Qbfs(n,u) + ams[m-1][n] Q2d(n,m,u,t) + bms[m-1][n] Q2d(n,-m,u,t))', reset=reset_all),
        ScopeUnit('zprime_q2d_sparse', zs_sparse_cases, run_zprime_q2d,
                  f'compute_z_zprime_Q2d over EVERY sparsity pattern of the azimuthal orders: every non-empty subset of {{1..{MS}}} populated and the remaining orders below the highest '
                  'given as empty lists, x (len a, len b) in {two-sided unequal, cosine only, sine only, mixed with one-sided and length-1 lists} x cm0 absent/present x every unit '
                  f'coefficient + dense ({len(sparse_structs)} structures); list and ndarray coefficients; same two oracles (returned sag, explicit sum of the value routines)', reset=reset_all),
        ScopeUnit('conic_radial', cr_cases, run_conic_radial,
                  f'(c,k) in {CS} x {KS}: sphere_sag_der, conic_sag_der (phi computed and given), der_direction_cosine_spheroid against complex-step derivatives of '
                  'sphere_sag / conic_sag / 1/phi_spheroid, cross-checked by Richardson-extrapolated central differences', reset=reset_all),
        ScopeUnit('conic_offaxis', co_cases, run_conic_offaxis,
                  f'(c,k) x (dx,dy) in {OFF}: off_axis_conic_der and off_axis_conic_sigma_der (radial and azimuthal) on the {len(CR)}x{len(CT)} (r,t) grid against complex-step '
                  'derivatives of off_axis_conic_sag and 1/off_axis_conic_sigma, cross-checked by Richardson', reset=reset_all),
        ScopeUnit('q2d_and_der', qd_cases, run_q2d_and_der,
                  f'(c,k) x (dx,dy) x (base conic only, every unit coefficient of the structure {QST}, dense) at normalization_radius {QNORM}, and x normalization_radius in {RNS} for '
                  f'four coefficient choices, and {len(qd_sparse)} sparse azimuthal structures (every subset of orders populated, others empty) x every unit coefficient; ' 'c includes exactly 0 as int and float (flat base); float64 ndarray coefficients reused by every call of a case: Q2d_and_der slopes against Richardson-extrapolated central '
                  'differences (measured residual in the tolerance) of the sag it returns, in rho and theta', reset=reset_all),
        ScopeUnit('workarray', wa_cases, run_workarray,
                  'the documented work array `alphas` of jacobi_sum_clenshaw_der ((alpha,beta) in {(0,0),(0,4),(-.5,.5),(2.5,.3)}), clenshaw_qbfs_der and clenshaw_q2d_der (m in 1..3) x '
                  f'coefficient length L in {sorted({c["L"] for c in wa_cases})} x derivative order j in {sorted({c["j"] for c in wa_cases})} x coordinate (array, scalar): ONE zero-initialised array of the documented shape '
                  f'(j+1, L, *x.shape) is passed to every call of every history of up to {wa_cases[0]["depth"]} calls over the event alphabet {WA_EVENTS} (dense A, dense B, unit e_(L-1), unit e_0, A on the '
                  'reversed / another coordinate set); after the last call of every history (prefix-closed, so after every call) the documented combination of row i = 1..j of the returned alphas is judged '
                  'against the i-th Chebyshev derivative of the sum of the value routines, exactly as for the same calls without a work array', reset=reset_all),
        ScopeUnit('large', lg_cases, run_large,
                  f'size thresholds (blocking): every derivative routine of the property ({len(LG)} callables: 9 families _der / _der_seq, zernike_nm_der(_seq), the three Clenshaw derivative sums (j=2), '
                  'compute_z_zprime_Qbfs/_Qcon/_Q2d, the five conic helpers, Q2d_and_der; one parameter setting each) x coordinate sizes {2^k+1, 2^k+2^(k-1)+3 : k=7..16} (1-D), '
                  f'2-D shapes {LG_2D} and {LG_BIG} (> 2^20 points' + (f'; quick tier: only for the {len(LG_GRID)} routines that are evaluated on whole surface / pupil grids' if q else '') + '; Q2d_and_der, which grids vector x, y, gets the 1-D sizes as (1, N) arrays): '
                  'the routines are point-wise in the coordinates, so the result for an 11-point generic '
                  'coordinate set tiled cyclically (odd period, C order) to the large shape must equal the tiled 11-point result on EVERY element (1000 eps relative to the row maximum); the 11-point '
                  'configurations are inside the scopes judged against the differentiated value routines by the other units.  This unit is a finite threshold alphabet, not closed over the data dimension', reset=reset_all, chunk=1),
    ]
