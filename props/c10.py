"""C10 -- fast modal sums equal explicit sums; least-squares fit inverts synthesis.

Reference model
---------------
* fast sums (``sum_of_2d_modes``, ``jacobi_sum_clenshaw``, ``clenshaw_qbfs``, ``compute_z_zprime_Qbfs/Qcon/Q2d``):
  the explicit loop ``sum_k c_k * mode_k`` where ``mode_k`` is the library's one-order-at-a-time value
  function (``jacobi``, ``Qbfs``, ``Qcon``, ``Q2d``) -- that relation is what the property states -- or
  the given mode arrays themselves (``sum_of_2d_modes``).  Only the surface value (first output) of the
  ``compute_z_zprime_*`` routines is judged here; their derivative outputs belong to C09.
* ``Q2d_nm_c_to_a_b``: an independent dictionary-based re-packer written from the docstring (dense
  zero-filled list per azimuthal order 1..max|m|, empty list for an absent order/family).
* ``lstsq``: data are synthesised as ``B c`` (and ``B c + r`` with ``r`` orthogonal to the basis on the
  valid samples, so that the least-squares answer is still exactly ``c`` *only if* exactly the valid
  samples are used); rank and condition number come from numpy SVD of the valid rows of the basis.

Tolerances: ``k * eps * cond`` with cond = sum_k |c_k| max(1, max|mode_k|) for the sums (k = 1e3; the
pinned tree's honest error is below 1 in those units everywhere in the scope) and
``k * eps * (cond(B)|c| + cond(B)^2 |r| / smax)`` for lstsq.
"""
import itertools

import numpy as np

from mc import ScopeUnit, HistoryUnit, Recorder, FAILED
from mc.state import reset_all
from mc.linalg import dense

from prysm import polynomials as P
from prysm.polynomials import qpoly as Q
from prysm.conf import config

ID = 'C10'
ASSUMPTIONS = [
    'the one-order-at-a-time value functions jacobi / Qbfs / Qcon / Q2d are the definition of "mode" (their own correctness is C07)',
    'numpy.linalg.svd / matrix_rank / qr are trusted to decide rank and conditioning of the valid-sample basis in the lstsq oracle',
    'only the surface value (first return) of compute_z_zprime_* is judged; the derivative returns are C09',
]

EPS = float(np.finfo(float).eps)
KTOL = 1e3


# ---------------------------------------------------------------------------------------------
# helpers

def lenclass(n):
    return 'empty' if n == 0 else 'len1' if n == 1 else 'len2' if n == 2 else 'len>2'


def coef_sets(L, seed, salt, ints=True, dense_first=False, scaled=False):
    """(label, list) coefficient vectors: every unit vector (float, and int-valued), one seeded dense."""
    out = []
    for k in range(L):
        e = [0.0] * L
        e[k] = 1.0
        out.append((f'unit{k}', e))
    if ints:
        for k in range(L):
            e = [0] * L
            e[k] = 1
            out.append((f'iunit{k}', e))
    d = dense((L,), seed, salt, complex_=False)
    d = ('dense', [float(v) for v in d])
    # magnitude of the coefficients (nm vs m, waves vs mm): the sums are linear, so the same vector scaled by 1e-9 / 1e-12 / 1e9 must give
    # the scaled answer (every tolerance is relative to the coefficient scale); and a vector whose entries alternate between O(1) and 1e-9
    sc = [(f'dense*{f:g}', [v * f for v in d[1]]) for f in (1e-9, 1e-12, 1e9)] + [('dense-mixed', [v * (1.0 if k % 2 == 0 else 1e-9) for k, v in enumerate(d[1])])]
    return ([d] + out if dense_first else out + [d]) + (sc if scaled else [])


# coefficient containers: how a caller may hold one coefficient vector
CONTAINERS = ['list', 'f64', 'row2d', 'f32', 'int']


def container(c, kind):
    """The coefficient vector c (list of Python numbers) held in the given kind of container."""
    if kind == 'list':
        return list(c)
    if kind == 'f64':
        return np.array(c, dtype=np.float64)
    if kind == 'f32':
        return np.array(c, dtype=np.float32)
    if kind == 'int':
        return np.array(c, dtype=np.int64)
    A = np.full((3, len(c)), 0.125)      # row2d: a row (view) of a caller-owned 2-D table of coefficients
    A[1] = c
    return A[1]


def sets_for(kind, L, seed, salt):
    """Coefficient sets appropriate to a container kind: int containers hold the int-valued unit vectors only."""
    if kind == 'int':
        return [(n, c) for n, c in coef_sets(L, seed, salt, ints=True) if n.startswith('iunit')]
    return coef_sets(L, seed, salt, ints=(kind == 'list'), dense_first=True, scaled=kind in ('list', 'f64'))


def values_of(cont):
    """Exact Python-float values held by a (possibly float32) container."""
    return [float(v) for v in cont]


def eps_of(kind):
    return float(np.finfo(np.float32).eps) if kind == 'f32' else EPS


def freeze(x):
    """Hashable deep snapshot of nested lists / arrays of coefficients (type, dtype, shape and bytes)."""
    if isinstance(x, np.ndarray):
        return ('nd', str(x.dtype), x.shape, np.ascontiguousarray(x).tobytes())
    if isinstance(x, (list, tuple)):
        return (type(x).__name__, tuple(freeze(v) for v in x))
    return ('v', type(x).__name__, repr(x))


def twice(R, f, args, pick, ref, tol, sig, fn, kind, what, held):
    """Evaluate f(*args) twice with the SAME argument objects: both results must equal the reference and the
    coefficient containers ``held`` must be left exactly as they were."""
    before = freeze(held)
    ok = True
    for nth in ('first', 'second'):
        out = R.call(f, *args, sig=sig + ':exception')
        s = sig if (nth == 'first' or not ok) else f'{fn}:second-use:{kind}'    # a wrong first result keeps its own signature
        ok = R.expect_close(pick(out, s), ref, tol, s, what + (' [second evaluation with the same coefficient objects]' if nth == 'second' else '')) and ok
    R.expect(freeze(held) == before, f'{fn}:coefs-mutated:{kind}', what + ': the caller\'s coefficient container was modified')
    return ok


def layout(a, kind):
    """Same values, different memory layout: C, Fortran copy, transposed view of the transposed data, strided slice."""
    a = np.asarray(a)
    if kind == 'C':
        return np.ascontiguousarray(a)
    if kind == 'F':
        return np.asfortranarray(a)
    if kind == 'tview':
        return np.ascontiguousarray(np.swapaxes(a, -1, -2)).swapaxes(-1, -2)
    big = np.full((*a.shape[:-2], 2 * a.shape[-2] + 1, 2 * a.shape[-1] + 1), 7.5, dtype=a.dtype)
    view = big[..., 1::2, 0:-1:2]
    view[...] = a
    return view


LAYOUTS = ['C', 'F', 'tview', 'slice']


def explicit_sum(coefs, modes):
    """sum_k c_k mode_k, and the conditioning scale sum_k |c_k| max(1, max|mode_k|)."""
    total = 0.0
    cond = 0.0
    for c, m in zip(coefs, modes):
        m = np.asarray(m, dtype=float)
        total = total + float(c) * m
        cond += abs(float(c)) * max(1.0, float(np.max(np.abs(m))) if m.size else 1.0)
    return np.asarray(total, dtype=float), cond


def first_of(out, n, R, sig, what):
    """Validate that ``out`` is a tuple of n and return its first element (or FAILED)."""
    if out is FAILED:
        return FAILED
    if not isinstance(out, (tuple, list)) or len(out) != n:
        R.violation(sig, f'{what}: expected a {n}-tuple, got {type(out).__name__}')
        return FAILED
    return out[0]


def x_jacobi(form):
    if form == 'pyfloat':
        return 0.3
    if form == 'np0d':
        return np.float64(-0.45)
    if form == '1d':
        return np.linspace(-1, 1, 7)
    if form == 'wide':      # the end points and arguments beyond the interval of orthogonality (polynomials are defined there too)
        return np.array([-1.5, -1.0, -0.25, 0.0, 1.0, 1.0 + 2 ** -40, 1.25])
    return np.cos(np.arange(12) * 0.7 + 0.2).reshape(3, 4)


def ut_coords(form):
    if form == 'pyfloat':
        return 0.6, 0.7
    if form == 'np0d':
        return np.float64(0.35), np.float64(2.1)
    if form == '1d':
        return np.linspace(0, 1, 7), np.linspace(-3, 3, 7)
    if form == 'wide':      # a signed radial cut through the centre and radii beyond the normalisation radius (corners of a square grid)
        return np.array([-1.2, -1.0, -0.5, 0.0, 1.0, 1.0 + 2 ** -40, 1.02, 1.3, 2 ** 0.5]), np.linspace(-3, 3, 9)
    u = (0.05 + 0.9 * np.mod(np.arange(12) * 0.381966, 1.0)).reshape(3, 4)
    t = (np.arange(12) * 0.9 - 4.0).reshape(3, 4)
    return u, t


XFORMS = ['pyfloat', 'np0d', '1d', '2d', 'wide']


# ---------------------------------------------------------------------------------------------
# sum_of_2d_modes

def run_sum_modes(case, seed, R):
    K, (ny, nx), form, dt, lay = case['K'], case['shape'], case['modes_as'], case['dtype'], case['layout']
    dtype = np.dtype(dt)
    eps = float(np.finfo(dtype).eps)
    k, i, j = np.meshgrid(np.arange(K), np.arange(ny), np.arange(nx), indexing='ij')
    labelled = ((k + 1) * 100 + 10 * i + j).astype(dtype)
    generic = dense((K, ny, nx), seed, 1, complex_=False).astype(dtype)
    sq = 'square' if ny == nx else 'nonsquare'
    sig = f'sum_of_2d_modes:{sq}:{form}:{dt}:{lay}'
    pick = lambda out, s: out   # noqa
    for mname, modes in (('generic', generic), ('labelled', labelled)):
        arg = layout(modes, lay) if form == 'ndarray' else [layout(m, lay) for m in modes]
        for kind in (CONTAINERS if mname == 'generic' else CONTAINERS[:2]):
            for cname, c in sets_for(kind, K, seed, 2):
                w = container(c, kind)
                ref, cond = explicit_sum(values_of(w), modes.astype(float))
                tol = 64 * max(eps, eps_of(kind)) * cond
                twice(R, P.sum_of_2d_modes, (arg, w), pick, ref, tol, sig, 'sum_of_2d_modes', kind,
                      f'{mname} modes K={K} {ny}x{nx} layout {lay}, weights {cname} as {kind}', (arg, w))
    R.nontrivial()
    R.outcome(f'{sq}:{lay}')


# ---------------------------------------------------------------------------------------------
# Jacobi Clenshaw

def run_jacobi(case, seed, R):
    L, (a, b), form, kind = case['L'], case['ab'], case['x'], case['coefs_as']
    x = x_jacobi(form)
    modes = [P.jacobi(n, a, b, x) for n in range(L)]
    sig = f'jacobi_sum_clenshaw:{lenclass(L)}' + (':int-ndarray' if kind == 'int' else '')
    pick = lambda out, s: out   # noqa
    for cname, c in sets_for(kind, L, seed, 3):
        s = container(c, kind)
        ref, cond = explicit_sum(values_of(s), modes)
        # next to (not on) the line alpha+beta=0 the n=0 recurrence coefficient (a^2-b^2)/(a+b) is a removable singularity
        # evaluated with relative error eps/|a+b|: that conditioning belongs to the parameters, not to the routine
        kappa = 1.0 if a + b == 0 else max(1.0, 1.0 / abs(a + b))
        tol = KTOL * eps_of(kind) * cond * kappa
        what = f'L={L} (a,b)=({a},{b}) x {form} coefs {cname} as {kind}'
        twice(R, P.jacobi_sum_clenshaw, (s, a, b, x), pick, ref, tol, sig, 'jacobi_sum_clenshaw', kind, what, s)
        if form in ('1d', '2d') and cname in ('unit0', 'dense'):
            alphas = np.zeros((L, *x.shape))
            got = R.call(P.jacobi_sum_clenshaw, s, a, b, x, alphas=alphas, sig=sig + ':exception')
            if R.expect_close(got, ref, tol, sig + ':alphas', what + ', caller-supplied alphas'):
                R.expect_equal(alphas[0], got, sig + ':alphas', 'alphas[0] does not hold the returned sum')
    R.nontrivial()
    R.outcome(lenclass(L))


# ---------------------------------------------------------------------------------------------
# Qbfs / Qcon

def run_q1d(case, seed, R):
    fam, L, form, kind = case['family'], case['L'], case['x'], case['coefs_as']
    u, _ = ut_coords(form)
    usq = u * u
    valfun = Q.Qbfs if fam == 'Qbfs' else Q.Qcon
    modes = [valfun(n, u) for n in range(L)]
    tag = lenclass(L) + (':int-ndarray' if kind == 'int' else '')
    for cname, c in sets_for(kind, L, seed, 4):
        cs = container(c, kind)
        ref, cond = explicit_sum(values_of(cs), modes)
        tol = KTOL * eps_of(kind) * cond
        what = f'L={L} coefs {cname} as {kind}, x {form}'
        if fam == 'Qbfs':
            twice(R, Q.clenshaw_qbfs, (cs, usq), lambda out, s: out, ref, tol, f'clenshaw_qbfs:{tag}', 'clenshaw_qbfs', kind, what, cs)
            twice(R, Q.compute_z_zprime_Qbfs, (cs, u, usq), lambda out, s: first_of(out, 2, R, s, what), ref, tol,
                  f'compute_z_zprime_Qbfs:{tag}', 'compute_z_zprime_Qbfs', kind, what, cs)
        else:
            twice(R, Q.compute_z_zprime_Qcon, (cs, u, usq), lambda out, s: first_of(out, 2, R, s, what), ref, tol,
                  f'compute_z_zprime_Qcon:{tag}', 'compute_z_zprime_Qcon', kind, what, cs)
    R.nontrivial()
    R.outcome(f'{fam}:{lenclass(L)}')


# ---------------------------------------------------------------------------------------------
# 2D-Q: packer and evaluator

POOL = [[0, 0], [2, 0], [1, 1], [3, 1], [0, -1], [2, -2], [1, 3], [0, -3]]


def ref_pack(nms, coefs):
    fam = {'c': {}, 'a': {}, 'b': {}}
    for (n, m), c in zip(nms, coefs):
        key = 'c' if m == 0 else 'a' if m > 0 else 'b'
        fam[key].setdefault(abs(m), {})[n] = c

    def dense_list(d):
        if not d:
            return []
        return [d.get(i, 0) for i in range(max(d) + 1)]

    M = max([*fam['a'].keys(), *fam['b'].keys()], default=0)
    return (dense_list(fam['c'].get(0, {})),
            [dense_list(fam['a'].get(m, {})) for m in range(1, M + 1)],
            [dense_list(fam['b'].get(m, {})) for m in range(1, M + 1)])


def same_pack(got, want):
    """Structural + value equality of (cms, ams, bms); returns (ok, reason)."""
    try:
        if not isinstance(got, (tuple, list)) or len(got) != 3:
            return False, 'not a 3-tuple'
        g0 = [float(v) for v in got[0]]
        if g0 != [float(v) for v in want[0]]:
            return False, f'm=0 list {list(got[0])} != {want[0]}'
        for name, g, w in (('cosine', got[1], want[1]), ('sine', got[2], want[2])):
            g = list(g)
            if len(g) != len(w):
                return False, f'{name} family spans {len(g)} azimuthal orders, expected {len(w)}'
            for m, (gl, wl) in enumerate(zip(g, w), start=1):
                if [float(v) for v in gl] != [float(v) for v in wl]:
                    return False, f'{name} m={m}: {list(gl)} != {wl}'
        return True, ''
    except Exception as e:   # noqa -- malformed output is a wrong output
        return False, f'malformed packer output ({type(e).__name__}: {e})'


def pack_features(cm0, ams, bms):
    f = []
    if len(cm0):
        f.append('m0')
    if any(len(a) and len(b) for a, b in zip(ams, bms)):
        f.append('cos&sin')
    if any(len(b) and not len(a) for a, b in zip(ams, bms)):
        f.append('sin-without-cos')
    if any(len(a) and not len(b) for a, b in zip(ams, bms)):
        f.append('cos-without-sin')
    if any(not len(a) and not len(b) for a, b in zip(ams, bms)):
        f.append('gap')
    return '+'.join(f)


def part_sig(m, La, Lb):
    return f'compute_z_zprime_Q2d:m={m}:cos={lenclass(La)},sin={lenclass(Lb)}'


def q2d_reference(nms, coefs, u, t):
    return explicit_sum(coefs, [Q.Q2d(n, m, u, t) for n, m in nms])


def eval_q2d(R, cm0, ams, bms, u, t, ref, cond, sig, what, kind='lists'):
    """The evaluator called twice with the same coefficient objects, judged against the explicit sum; True when right."""
    return twice(R, Q.compute_z_zprime_Q2d, (cm0, ams, bms, u, t), lambda out, s: first_of(out, 3, R, s, what), ref,
                 KTOL * eps_of(kind) * cond, sig, 'compute_z_zprime_Q2d', kind, what, (cm0, ams, bms))


Q2D_CONTAINERS = ['lists', 'f64', 'rows2d', 'arr2d', 'f32', 'int']


def q2d_containers(kind, m, a, b, cm0):
    """(cm0, ams, bms) for one azimuthal order m holding cosine coefficients a and sine coefficients b."""
    if kind == 'lists':
        return cm0, [[] for _ in range(m - 1)] + [list(a)], [[] for _ in range(m - 1)] + [list(b)]
    if kind in ('f64', 'f32', 'int'):
        dt = {'f64': np.float64, 'f32': np.float32, 'int': np.int64}[kind]
        conv = lambda v: np.array(v, dtype=dt) if len(v) else []     # noqa -- an absent family stays an empty list
        return conv(cm0), [[] for _ in range(m - 1)] + [conv(a)], [[] for _ in range(m - 1)] + [conv(b)]
    # caller-owned 2-D tables, one row per azimuthal order (lower orders present with zero coefficients)
    A = np.zeros((m, len(a)))
    A[m - 1] = a
    B = np.zeros((m, len(b)))
    B[m - 1] = b
    C = np.full((2, len(cm0)), 0.125)
    C[0] = cm0
    if kind == 'arr2d':
        return C[0], A, B
    return C[0], [A[i] for i in range(m)], [B[i] for i in range(m)]


def run_q2d_subsets(case, seed, R):
    nms = [tuple(nm) for nm in case['terms']]
    form = case['x']
    u, t = ut_coords(form)
    n = len(nms)
    has_cos, has_sin = any(m > 0 for _, m in nms), any(m < 0 for _, m in nms)
    psig = 'Q2d_nm_c_to_a_b:' + ('both-families' if has_cos and has_sin else 'empty-family')
    sets = [('dense', [float(v) for v in dense((n,), seed, 5 + case['index'], complex_=False)])]
    sets += [(f'dense*{f:g}', [v * f for v in sets[0][1]]) for f in (1e-9, 1e9)] + [('dense-mixed', [v * (1.0 if abs(nms[k][1]) % 2 == 0 else 1e-9) for k, v in enumerate(sets[0][1])])]
    if n > 1:
        for k in range(n):
            e = [0.0] * n
            e[k] = 1.0
            sets.append((f'unit{k}', e))
    feats = None
    probe = Recorder()      # one per case, so that the call-hygiene variants run once per call signature
    for cname, c in sets:
        want = ref_pack(nms, c)
        feats = pack_features(*want)
        got = R.call(Q.Q2d_nm_c_to_a_b, nms, c, sig=psig + ':exception')
        if got is not FAILED:
            ok, why = same_pack(got, want)
            R.expect(ok, psig, f'terms {nms} coefs {cname}: {why}')
        if cname == 'dense':
            # argument forms of the (n, m) sequence and of the coefficients: tuple, int ndarray of pairs, and the one-shot iterables
            # a user builds the pairs with (zip of two lists, generator, iterator) -- each may be traversed once only
            ns_, ms_ = [nm[0] for nm in nms], [nm[1] for nm in nms]
            for fname, mk, mkc in (('tuple', lambda: tuple(nms), lambda: tuple(c)), ('ndarray', lambda: np.array(nms, dtype=int).reshape(-1, 2), lambda: np.array(c)),
                                   ('zip', lambda: zip(ns_, ms_), lambda: list(c)), ('generator', lambda: ((a, b) for a, b in nms), lambda: list(c)),
                                   ('iter', lambda: iter(list(nms)), lambda: iter(list(c)))):
                g2 = R.call(Q.Q2d_nm_c_to_a_b, mk(), mkc(), sig=psig + f':form-{fname}:exception')
                if g2 is not FAILED:
                    ok, why = same_pack(g2, want)
                    R.expect(ok, psig + f':form-{fname}', f'terms {nms} given as {fname}: {why}')
        # the evaluator is driven with the documented packing (identical to the packer's output whenever the packer is right)
        cm0, ams, bms = want
        ref, cond = q2d_reference(nms, c, u, t)
        what = f'terms {nms} coefs {cname} x {form}'
        nv, ne, nc = len(probe.violations), probe.evals, probe.checks
        ok = eval_q2d(probe, cm0, ams, bms, u, t, ref, cond, 'compute_z_zprime_Q2d:combination', what)
        R.tick(probe.evals - ne)
        R.checks += probe.checks - nc
        ok = ok and len(probe.violations) == nv
        if not ok:
            # localise: the surface is additive over azimuthal orders, so judge every order on its own;
            # the signature is that of the smallest failing part
            before = len(R.violations)
            if len(cm0):
                sub = [(nm, v) for nm, v in zip(nms, c) if nm[1] == 0]
                pref, pcond = q2d_reference([nm for nm, _ in sub], [v for _, v in sub], u, t)
                eval_q2d(R, cm0, [], [], u, t, pref, pcond, f'compute_z_zprime_Q2d:m0:{lenclass(len(cm0))}', what + ' [m=0 part alone]')
            for m, (a, b) in enumerate(zip(ams, bms), start=1):
                if not len(a) and not len(b):
                    continue
                sub = [(nm, v) for nm, v in zip(nms, c) if abs(nm[1]) == m]
                pref, pcond = q2d_reference([nm for nm, _ in sub], [v for _, v in sub], u, t)
                pa = [[] for _ in range(m - 1)] + [a]
                pb = [[] for _ in range(m - 1)] + [b]
                eval_q2d(R, [], pa, pb, u, t, pref, pcond, part_sig(m, len(a), len(b)), what + f' [|m|={m} part alone: a={a} b={b}]')
            if len(R.violations) == before:
                R.violations.extend(probe.violations[nv:])
        R.nontrivial(bool(np.any(ref != 0)))
    R.outcome(feats)


def run_q2d_single_m(case, seed, R):
    m, La, Lb, cm0kind, form, kind = case['m'], case['La'], case['Lb'], case['cm0'], case['x'], case['coefs_as']
    u, t = ut_coords(form)
    cm0 = None if cm0kind == 'none' else [] if cm0kind == 'empty' else ([1, 0, 2] if kind == 'int' else [0.5, -1.25, 2.0])
    for cname, c in sets_for('int' if kind == 'int' else 'f64', La + Lb, seed, 6):
        cm0c, ams, bms = q2d_containers(kind, m, c[:La], c[La:], cm0)
        a, b = values_of(ams[m - 1]), values_of(bms[m - 1])
        terms = [((n, 0), v) for n, v in enumerate(values_of(cm0c if cm0c is not None else []))]
        terms += [((n, m), v) for n, v in enumerate(a)] + [((n, -m), v) for n, v in enumerate(b)]
        ref, cond = q2d_reference([nm for nm, _ in terms], [v for _, v in terms], u, t)
        sig = 'compute_z_zprime_Q2d:int-ndarray' if kind == 'int' else part_sig(m, La, Lb)
        eval_q2d(R, cm0c, ams, bms, u, t, ref, cond, sig, f'm={m} a={a} b={b} cm0={cm0} as {kind}, x {form} coefs {cname}', kind)
    R.nontrivial()
    R.outcome(f'cos={lenclass(La)},sin={lenclass(Lb)}:{kind}')


# ---------------------------------------------------------------------------------------------
# lstsq

def basis_modes(name, ny, nx):
    x = np.linspace(-1, 1, nx)
    y = np.linspace(-1, 1, ny)
    X, Y = np.meshgrid(x, y)
    if name == 'zernike':      # Noll 1..10, unnormalised
        r = np.hypot(X, Y)
        t = np.arctan2(Y, X)
        R3 = 3 * r ** 3 - 2 * r
        modes = [np.ones_like(r), r * np.cos(t), r * np.sin(t), 2 * r * r - 1,
                 r * r * np.sin(2 * t), r * r * np.cos(2 * t), R3 * np.sin(t), R3 * np.cos(t),
                 r ** 3 * np.sin(3 * t), r ** 3 * np.cos(3 * t)]
    elif name == 'legendre':   # P_i(x) P_j(y), i + j <= 2
        leg = [lambda v: np.ones_like(v), lambda v: v, lambda v: 1.5 * v * v - 0.5]
        modes = [leg[i](X) * leg[j](Y) for i in range(3) for j in range(3) if i + j <= 2]
    else:                      # monomials x^i y^j, i + j <= 2
        modes = [X ** i * Y ** j for i in range(3) for j in range(3) if i + j <= 2]
    return np.asarray(modes, dtype=float)


def invalid_mask(mask, ny, nx):
    inv = np.zeros((ny, nx), dtype=bool)
    kind = mask['kind']
    if kind == 'sample':
        inv[mask['i'], mask['j']] = True
    elif kind == 'row':
        inv[mask['i'], :] = True
    elif kind == 'col':
        inv[:, mask['j']] = True
    elif kind == 'circle':
        X, Y = np.meshgrid(np.linspace(-1, 1, nx), np.linspace(-1, 1, ny))
        inv = np.hypot(X, Y) > 1.0 + 1e-9
    elif kind == 'band':           # only the three central columns survive (too few for cubic terms)
        inv[:, :] = True
        inv[:, nx // 2 - 1:nx // 2 + 2] = False
    elif kind == 'ragged':
        for i in range(ny):
            cut = (i * 2) % 3          # 0, 2, 1, 0, 2, ... samples missing at the right edge
            if cut:
                inv[i, nx - cut:] = True
        inv[0, 0] = True
    return inv


def fill_values(fill, n):
    if fill == 'nan':
        return np.full(n, np.nan)
    if fill == '+inf':
        return np.full(n, np.inf)
    if fill == '-inf':
        return np.full(n, -np.inf)
    return np.asarray([(np.nan, np.inf, -np.inf)[k % 3] for k in range(n)])   # mixed; first masked sample is NaN, second +inf ...


def modes_sharing_invalid(modes, inv, how):
    """The same modes, but at the samples the data marks invalid they are NaN / +-inf (a basis evaluated on blanked
    coordinates) or finite and huge; a fit that ignores exactly those samples cannot tell."""
    m = np.array(modes, dtype=float, copy=True)
    n = int(inv.sum())
    if how == 'nan':
        m[:, inv] = np.nan
    elif how == 'inf':
        m[:, inv] = np.asarray([(np.inf, -np.inf, np.nan)[k % 3] for k in range(n)])
    else:
        m[:, inv] = np.asarray([(1e200, -1e200)[k % 2] for k in range(n)])
    return m


MODES_AT_IGNORED = ['nan', 'inf', 'huge']


def run_lstsq(case, seed, R):
    name, ny, nx, mask, fill = case['basis'], case['ny'], case['nx'], case['mask'], case['fill']
    modes = basis_modes(name, ny, nx)
    K = modes.shape[0]
    inv = invalid_mask(mask, ny, nx)
    valid = ~inv
    B = modes.reshape(K, -1).T
    Bv = B[valid.ravel()]
    nvalid = Bv.shape[0]
    if nvalid < K or np.linalg.matrix_rank(Bv) < K:
        R.outcome('rank-deficient-skipped')
        return
    s = np.linalg.svd(Bv, compute_uv=False)
    cond = float(s[0] / s[-1])
    # a residual orthogonal to the basis on exactly the valid samples
    w = dense((nvalid,), seed, 7, complex_=False)
    Qm, _ = np.linalg.qr(Bv)
    r = w - Qm @ (Qm.T @ w)
    r = r - Qm @ (Qm.T @ r)
    rn = float(np.linalg.norm(r))
    have_resid = nvalid > K and rn > 1e-6
    if have_resid:
        r = r / rn
    sq = 'square' if ny == nx else 'nonsquare'
    fv = fill_values(fill, int(inv.sum()))
    for cname, c in coef_sets(K, seed, 8, ints=False, dense_first=True):
        c = np.asarray(c)
        cn = float(np.linalg.norm(c))
        for resid in ((False, True) if have_resid else (False,)):
            dv = Bv @ c + (r if resid else 0.0)
            data = np.empty((ny, nx))
            data[valid] = dv
            data[inv] = fv
            sig = f'lstsq:{sq}:{mask["kind"]}:{fill}' + (':resid' if resid else '')
            tol = KTOL * EPS * (cond * cn + (cond ** 2 / float(s[0]) if resid else 0.0))
            what = f'{name} {ny}x{nx} mask={mask} fill={fill} coefs {cname} (cond {cond:.1f}, {nvalid} valid samples)'
            for mform in (('ndarray', 'list') if cname in ('unit0', 'dense') else ('ndarray',)):
                arg = modes.copy() if mform == 'ndarray' else [m.copy() for m in modes]
                got = R.call(P.lstsq, arg, data.copy(), sig=sig + ':exception')
                R.expect_close(got, c, tol, sig, what + f' modes as {mform}')
            if cname == 'dense' and resid == have_resid and inv.any():
                # the modes share the data's invalid samples (NaN / inf there), or are huge there: those samples are ignored
                for how in MODES_AT_IGNORED:
                    for mform in ('ndarray', 'list'):
                        mm = modes_sharing_invalid(modes, inv, how)
                        mm = mm if mform == 'ndarray' else [m for m in mm]
                        msig = f'lstsq:modes-at-ignored={how}'
                        got = R.call(P.lstsq, mm, data.copy(), sig=msig + ':exception')
                        R.expect_close(got, c, tol, msig, what + f' modes {how} at the ignored samples, as {mform}')
            if cname == 'dense' and resid == have_resid and mask['kind'] != 'sample':
                # memory layouts of the data and of the modes (same values): the fit is a function of the values only
                for lay in LAYOUTS[1:]:
                    for which in ('data', 'modes', 'mode-list'):
                        d = layout(data, lay) if which == 'data' else data.copy()
                        mm = layout(modes, lay) if which == 'modes' else [layout(m, lay) for m in modes] if which == 'mode-list' else modes.copy()
                        lsig = f'lstsq:layout:{which}={lay}'
                        got = R.call(P.lstsq, mm, d, sig=lsig + ':exception')
                        R.expect_close(got, c, tol, lsig, what + f' {which} in layout {lay}')
    R.nontrivial()
    R.outcome(f'fit:{mask["kind"]}:{fill}' + (':resid' if have_resid else ''))


# ---------------------------------------------------------------------------------------------
# lstsq on independent but strongly correlated modes (conditioning alphabet)

def zernike10(X, Y):
    r = np.hypot(X, Y)
    t = np.arctan2(Y, X)
    R3 = 3 * r ** 3 - 2 * r
    return np.asarray([np.ones_like(r), r * np.cos(t), r * np.sin(t), 2 * r * r - 1,
                       r * r * np.sin(2 * t), r * r * np.cos(2 * t), R3 * np.sin(t), R3 * np.cos(t),
                       r ** 3 * np.sin(3 * t), r ** 3 * np.cos(3 * t)], dtype=float)


def cond_problem(case):
    """(modes (K,ny,nx), invalid mask) of one member of the conditioning alphabet."""
    fam, p = case['family'], case['param']
    if fam == 'mono':            # monomials of total degree <= p on [0.5, 1]^2
        X, Y = np.meshgrid(np.linspace(0.5, 1, 16), np.linspace(0.5, 1, 20))
        modes = np.asarray([X ** i * Y ** j for i in range(p + 1) for j in range(p + 1) if i + j <= p])
        inv = invalid_mask({'kind': case['mask']}, 20, 16)
    elif fam == 'zernike-subaperture':    # Zernike 1..10 of the unit disk sampled on an off-centre disk of radius p
        X, Y = np.meshgrid(0.3 + p * np.linspace(-1, 1, 20), 0.2 + p * np.linspace(-1, 1, 24))
        modes = zernike10(X, Y)
        inv = np.hypot(X - 0.3, Y - 0.2) > p * (1 + 1e-9)
    elif fam == 'zernike-nanmask':        # unit-square grid, everything outside an off-centre disk of radius p invalid
        X, Y = np.meshgrid(np.linspace(-1, 1, 36), np.linspace(-1, 1, 40))
        modes = zernike10(X, Y)
        inv = np.hypot(X - 0.3, Y - 0.2) > p
    else:                        # near-duplicate: Legendre products plus a copy of the x mode perturbed by p * x^3
        X, Y = np.meshgrid(np.linspace(-1, 1, 9), np.linspace(-1, 1, 7))
        base = [np.ones_like(X), X, Y, 1.5 * X * X - 0.5, X * Y, 1.5 * Y * Y - 0.5]
        modes = np.asarray(base[:2] + [X + p * X ** 3] + base[2:])
        inv = invalid_mask({'kind': case['mask']}, 7, 9)
    return modes, inv


def run_lstsq_cond(case, seed, R):
    modes, inv = cond_problem(case)
    K, ny, nx = modes.shape
    valid = ~inv
    Bv = modes.reshape(K, -1).T[valid.ravel()]
    if Bv.shape[0] < K or np.linalg.matrix_rank(Bv) < K:
        R.outcome('rank-deficient-skipped')
        return
    s = np.linalg.svd(Bv, compute_uv=False)
    cond = float(s[0] / s[-1])
    if KTOL * EPS * cond > 1e-2:
        R.outcome('too-ill-conditioned-skipped')
        return
    decade = int(round(np.log10(cond)))
    fv = fill_values(case['fill'], int(inv.sum()))
    sig = f'lstsq:cond~1e{decade}:{case["family"]}'
    for cname, c in coef_sets(K, seed, 9, ints=False, dense_first=True):
        c = np.asarray(c)
        data = np.empty((ny, nx))
        data[valid] = Bv @ c
        data[inv] = fv
        got = R.call(P.lstsq, modes.copy(), data, sig=sig + ':exception')
        R.expect_close(got, c, KTOL * EPS * cond * float(np.linalg.norm(c)), sig,
                       f'{case} coefs {cname}: cond(design matrix)={cond:.2e}, {Bv.shape[0]} valid samples, {K} modes')
        if cname == 'dense' and inv.any():
            for how in MODES_AT_IGNORED:
                msig = f'lstsq:modes-at-ignored={how}'
                got = R.call(P.lstsq, modes_sharing_invalid(modes, inv, how), data.copy(), sig=msig + ':exception')
                R.expect_close(got, c, KTOL * EPS * cond * float(np.linalg.norm(c)), msig,
                               f'{case} coefs {cname}, modes {how} at the ignored samples: cond={cond:.2e}')
    R.nontrivial()
    R.outcome(f'cond~1e{decade}')


# ---------------------------------------------------------------------------------------------
# dtype alphabets

def kind_of(dt):
    k = np.dtype(dt).kind
    return {'f': 'float', 'i': 'int', 'u': 'int', 'b': 'bool'}[k]


def cast_values(v, dt, seed_scale=3.0):
    """Generic values held in dtype dt: non-integer for floats, small integers for ints, a threshold for bool."""
    dt = np.dtype(dt)
    if dt.kind == 'f':
        return np.asarray(v).astype(dt)
    if dt.kind == 'b':
        return np.asarray(v) > 0
    q = np.round(np.asarray(v) * seed_scale)
    if dt.kind == 'u':
        q = np.abs(q)
    return q.astype(dt)


def run_sum_modes_dtypes(case, seed, R):
    K, (ny, nx), md, wd = case['K'], case['shape'], case['modes'], case['weights']
    modes = cast_values(dense((K, ny, nx), seed, 11, complex_=False), md)
    sets = [('dense', cast_values(dense((K,), seed, 12, complex_=False), wd, 2.0))]
    for k in range(K):
        e = np.zeros(K, dtype=wd)
        e[k] = 1
        sets.append((f'unit{k}', e))
    eps = max(float(np.finfo(d).eps) for d in (md, wd, 'float64') if np.dtype(d).kind == 'f')
    sig = f'sum_of_2d_modes:dtype:modes={kind_of(md)},weights={kind_of(wd)}'
    for cname, w in sets:
        ref, cond = explicit_sum([float(v) for v in w], modes.astype(float))
        for mform in ('ndarray', 'list'):
            arg = modes.copy() if mform == 'ndarray' else [m.copy() for m in modes]
            twice(R, P.sum_of_2d_modes, (arg, w), lambda out, s_: out, ref, 64 * eps * cond, sig, 'sum_of_2d_modes', f'{wd}',
                  f'K={K} {ny}x{nx} modes {md} as {mform}, weights {cname} {wd} = {w.tolist()}', (arg, w))
    R.nontrivial()
    R.outcome(f'modes={md},weights={wd}')


def quantise(v, dt):
    """Measurement-like data of dtype dt made from the real-valued surface v (counts / quantised heights / a threshold map)."""
    dt = np.dtype(dt)
    if dt.kind == 'f':
        return v.astype(dt)
    span = float(np.max(np.abs(v))) or 1.0
    if dt.kind == 'b':
        return v > float(np.median(v))
    if dt.kind == 'u':
        return np.round(1000.0 + 900.0 * v / span).astype(dt)
    return np.round(100.0 * v / span).astype(dt)


def run_lstsq_dtypes(case, seed, R):
    name, ny, nx, dd, md, mask = case['basis'], case['ny'], case['nx'], case['data'], case['modes'], case['mask']
    modes = basis_modes(name, ny, nx).astype(md)          # not integer valued (normalised coordinates)
    K = modes.shape[0]
    inv = invalid_mask(mask, ny, nx)
    valid = ~inv
    Bv = modes.astype(float).reshape(K, -1).T[valid.ravel()]
    if Bv.shape[0] < K or np.linalg.matrix_rank(Bv) < K:
        R.outcome('rank-deficient-skipped')
        return
    sv = np.linalg.svd(Bv, compute_uv=False)
    cond = float(sv[0] / sv[-1])
    eps = max(float(np.finfo(d).eps) for d in (dd, md, 'float64') if np.dtype(d).kind == 'f')
    sig = f'lstsq:dtype:data={dd},modes={md}'
    B = modes.astype(float).reshape(K, -1).T
    for cname, c in coef_sets(K, seed, 13, ints=False, dense_first=True):
        data = quantise((B @ np.asarray(c)).reshape(ny, nx), dd)
        if inv.any():
            data = data.copy()
            data[inv] = np.nan                 # float dtypes only (see plan)
        dv = data.astype(float)[valid]
        cref = np.linalg.lstsq(Bv, dv, rcond=None)[0]      # float64 least squares on the exact values held by data and modes
        res = float(np.linalg.norm(Bv @ cref - dv))
        tol = KTOL * eps * (cond * float(np.linalg.norm(cref)) + cond ** 2 * res / float(sv[0]))
        for mform in (('ndarray', 'list') if cname == 'dense' else ('ndarray',)):
            arg = modes.copy() if mform == 'ndarray' else [m.copy() for m in modes]
            got = R.call(P.lstsq, arg, data, sig=sig + ':exception')
            R.expect_close(got, cref, tol, sig, f'{name} {ny}x{nx} mask={mask} data {dd} modes {md} as {mform} coefs {cname} (cond {cond:.1f}, residual {res:.2e})')
    R.nontrivial()
    R.outcome(f'data={dd},modes={md}')


# ---------------------------------------------------------------------------------------------
# value-kind alphabet: complex modes / weights / data

def explicit_sum_c(coefs, modes):
    """Complex-safe explicit sum and its conditioning scale."""
    total = 0.0
    cond = 0.0
    for c, m in zip(coefs, modes):
        m = np.asarray(m).astype(complex)
        total = total + complex(c) * m
        cond += abs(complex(c)) * max(1.0, float(np.max(np.abs(m))) if m.size else 1.0)
    return np.asarray(total), cond


def run_sum_modes_complex(case, seed, R):
    K, (ny, nx), md, wk = case['K'], case['shape'], case['modes'], case['weights']
    re = dense((K, ny, nx), seed, 21, complex_=False)
    im = dense((K, ny, nx), seed, 22, complex_=False)
    modes = (re + 1j * im).astype(md) if np.dtype(md).kind == 'c' else re.astype(md)
    wr = dense((K,), seed, 23, complex_=False)
    wi = dense((K,), seed, 24, complex_=False)
    sets = [('dense', wr + 1j * wi if wk == 'complex' else wr)]
    for k in range(K):
        e = np.zeros(K, dtype=complex if wk == 'complex' else float)
        e[k] = 1j if wk == 'complex' else 1.0
        sets.append((f'unit{k}', e))
    eps = float(np.finfo(np.dtype(md)).eps)
    sig = f'sum_of_2d_modes:values:modes={np.dtype(md).name},weights={wk}'
    for cname, w in sets:
        ref, cond = explicit_sum_c(w, modes)
        if np.dtype(md).kind != 'c' and wk != 'complex':
            ref = ref.real
        for wform in ('ndarray', 'list'):
            wa = w if wform == 'ndarray' else [complex(v) if wk == 'complex' else float(v) for v in w]
            for mform in ('ndarray', 'list'):
                arg = modes.copy() if mform == 'ndarray' else [m.copy() for m in modes]
                twice(R, P.sum_of_2d_modes, (arg, wa), lambda out, s_: out, ref, 64 * eps * cond, sig, 'sum_of_2d_modes', f'{wk}',
                      f'K={K} {ny}x{nx} modes {md} as {mform}, weights {cname} {wk} as {wform}', (arg, wa))
    R.nontrivial()
    R.outcome(f'modes={md},weights={wk}')


def value_modes(kind, k, ny, nx):
    """k modes on an ny x nx grid: real Legendre products or complex azimuthal harmonics R(r) exp(i m t)."""
    X, Y = np.meshgrid(np.linspace(-1, 1, nx), np.linspace(-1, 1, ny))
    if kind == 'real':
        full = [np.ones_like(X), X, Y, 1.5 * X * X - 0.5, X * Y, 1.5 * Y * Y - 0.5]
        return np.asarray(full[:k], dtype=float)
    r = np.hypot(X, Y)
    t = np.arctan2(Y, X)
    full = [np.ones_like(r) + 0j, r * np.exp(1j * t), r * np.exp(-1j * t), (2 * r * r - 1) + 0j, r * r * np.exp(2j * t), r * r * np.exp(-2j * t)]
    return np.asarray(full[:k], dtype=complex)


def run_lstsq_values(case, seed, R):
    mk, ck, dform, k, (ny, nx), N, nlabel = case['modes'], case['coefs'], case['data'], case['k'], case['shape'], case['N'], case['Nlabel']
    modes = value_modes(mk, k, ny, nx)
    total = ny * nx
    order = np.random.default_rng(20260927).permutation(total)     # one fixed scattered enumeration of the samples (not seed dependent; points in general position)
    valid = np.zeros(total, dtype=bool)
    valid[order[:N]] = True
    valid = valid.reshape(ny, nx)
    inv = ~valid
    B = modes.reshape(k, -1).T
    Bv = B[valid.ravel()]
    if np.linalg.matrix_rank(Bv) < k:
        R.outcome('rank-deficient-skipped')
        return
    U, sv, Vh = np.linalg.svd(Bv, full_matrices=False)
    cond = float(sv[0] / sv[-1])
    sig = f'lstsq:values:modes={mk},data={dform}:N={nlabel}'
    sets = []
    d1 = dense((k,), seed, 25, complex_=False)
    d2 = dense((k,), seed, 26, complex_=False)
    sets.append(('dense', d1 + 1j * d2 if ck == 'complex' else d1))
    for j in range(k):
        e = np.zeros(k, dtype=complex if ck == 'complex' else float)
        e[j] = 1j if ck == 'complex' else 1.0
        sets.append((f'unit{j}', e))
    ninv = int(inv.sum())
    for cname, c in sets:
        syn = B @ c
        if dform == 'real':
            full = np.real(syn).astype(float)                 # real data (the real part of a complex synthesis is generally NOT in the span)
            fills = [(np.nan, np.inf, -np.inf)[i % 3] for i in range(ninv)]
        else:
            full = syn.astype(complex)
            fills = [(complex(np.nan, 0), complex(np.nan, np.nan), complex(np.inf, 0), complex(0, -np.inf), complex(1, np.nan))[i % 5] for i in range(ninv)]
        data = full.reshape(ny, nx).copy()
        data[inv] = fills
        dv = data[valid]
        # float64 complex reference solve: pseudo-inverse from the SVD with the explicit Hermitian transposes
        cref = Vh.conj().T @ ((U.conj().T @ dv) / sv)
        if np.iscomplexobj(cref) and mk == 'real' and dform == 'real':
            cref = cref.real
        res = float(np.linalg.norm(Bv @ cref - dv))
        tol = KTOL * EPS * (cond * float(np.linalg.norm(cref)) + cond ** 2 * res / float(sv[0]))
        what = f'{k} {mk} modes, {ck} coefs {cname}, {dform} data, {ny}x{nx} grid with {N} valid samples (cond {cond:.1f}, residual {res:.1e})'
        if dform == 'complex' or not np.iscomplexobj(syn):     # the data ARE the synthesis: the reference must invert it
            R.expect(float(np.max(np.abs(cref - c))) <= tol, 'c10:harness:reference', what + ': reference solve does not return the synthesising coefficients')
        for mform in (('ndarray', 'list') if cname == 'dense' else ('ndarray',)):
            arg = modes.copy() if mform == 'ndarray' else [m.copy() for m in modes]
            got = R.call(P.lstsq, arg, data.copy(), sig=sig + ':exception')
            R.expect_close(got, cref, tol, sig, what + f', modes as {mform}')
    R.nontrivial()
    R.outcome(f'modes={mk},coefs={ck},data={dform},N={nlabel}')


# ---------------------------------------------------------------------------------------------

# ---------------------------------------------------------------------------------------------
# size thresholds: frames / coordinate arrays just above 2^k samples (work split in blocks, tail dropped or mis-addressed)

def run_large(case, seed, R):
    kind, shape = case['kind'], tuple(case['shape'])
    n = int(np.prod(shape))
    hy = n <= 70000
    if kind == 'modes':
        K = 3
        base = np.arange(n, dtype=float).reshape(shape)
        modes = np.stack([np.cos(0.001 * base + k) + 0.25 * k for k in range(K)])
        w = [1.5, -0.75, 2.25]
        want = sum(wk * mk for wk, mk in zip(w, modes))
        cond = sum(abs(wk) * (np.abs(mk) + 1.0) for wk, mk in zip(w, modes))
        for form, arg in (('ndarray', modes), ('list', [m for m in modes])):
            got = R.call(P.sum_of_2d_modes, arg, np.array(w), sig='sum_of_2d_modes:large:exception', hygiene=hy)
            R.expect_close(got, want, 64 * EPS * cond, 'sum_of_2d_modes:large', f'{K} modes of shape {shape} ({form}) vs the explicit sum, every sample judged')
    else:
        # point-wise routines: f(tile(x)) == tile(f(x)) -- a period-11 tiling of 11 reference points, so the answer for EVERY element
        # of the large array is known from the 11-point call (itself judged against the explicit sum)
        per = 11
        idx = np.arange(n) % per
        if kind == 'jacobi':
            x0 = np.linspace(-1, 1, per)
            c = [1.0, -2.0, 0.5, 3.0]
            f = lambda x: P.jacobi_sum_clenshaw(list(c), 0.5, -0.5, x)      # noqa
            ref, cond = explicit_sum(c, [P.jacobi(k, 0.5, -0.5, x0) for k in range(4)])
        elif kind == 'qbfs':
            x0 = np.linspace(0.02, 0.98, per)
            c = [1.0, -2.0, 0.5, 3.0]
            f = lambda u: Q.compute_z_zprime_Qbfs(list(c), u, u * u)[0]   # noqa
            ref, cond = explicit_sum(c, [Q.Qbfs(k, x0) for k in range(4)])
        elif kind == 'qcon':
            x0 = np.linspace(0.02, 0.98, per)
            c = [1.0, -2.0, 0.5, 3.0]
            f = lambda u: Q.compute_z_zprime_Qcon(list(c), u, u * u)[0]   # noqa
            ref, cond = explicit_sum(c, [Q.Qcon(k, x0) for k in range(4)])
        elif kind == 'clenshaw_qbfs':
            x0 = np.linspace(0.02, 0.98, per)
            c = [1.0, -2.0, 0.5, 3.0]
            f = lambda u: Q.clenshaw_qbfs(list(c), u * u)                 # noqa
            ref, cond = explicit_sum(c, [Q.Qbfs(k, x0) for k in range(4)])
        else:
            x0 = np.linspace(0.02, 0.98, per)
            t0 = np.linspace(-3, 3, per)
            cm0, ams, bms = ref_pack(H_NMS, H_C2D)
            f = None
            ref, cond = q2d_reference(H_NMS, H_C2D, x0, t0)
        if kind == 'q2d':
            small = R.call(lambda u, t: Q.compute_z_zprime_Q2d(list(cm0), [list(a) for a in ams], [list(b) for b in bms], u, t)[0], x0.copy(), t0.copy(), sig='compute_z_zprime_Q2d:large:exception', hygiene=False)
            big = R.call(lambda u, t: Q.compute_z_zprime_Q2d(list(cm0), [list(a) for a in ams], [list(b) for b in bms], u, t)[0], x0[idx].reshape(shape), t0[idx].reshape(shape), sig='compute_z_zprime_Q2d:large:exception', hygiene=hy)
        else:
            small = R.call(f, x0.copy(), sig=f'{kind}:large:exception', hygiene=False)
            big = R.call(f, x0[idx].reshape(shape), sig=f'{kind}:large:exception', hygiene=hy)
        R.expect_close(small, ref, KTOL * EPS * cond, f'{kind}:large:reference-points', 'the 11 reference points vs the explicit sum')
        if small is not FAILED and big is not FAILED:
            R.expect_close(big, np.asarray(small)[idx].reshape(shape), 8 * EPS * cond, f'{kind}:large',
                           f'fast sum on a {shape} coordinate array (period-11 tiling of 11 points) vs the tiling of its answer on the 11 points, every element judged')
    R.nontrivial()
    R.outcome(f'large:{kind}')


# ---------------------------------------------------------------------------------------------
# call / precision history of the fast sums (explicit-state BFS over module-level state: config.precision and whatever the
# routines memoise between calls)

H_X = np.linspace(-1, 1, 7)
H_U = np.linspace(0.05, 0.95, 7)
H_T = np.linspace(-3, 3, 7)
H_NMS = [(0, 0), (2, 0), (1, 1), (0, -1), (1, -2)]
H_C = [1.0, -2.0, 0.5, 3.0]
H_C2D = [0.7, -1.1, 0.4, 2.0, -0.3]
H_REFS = {}


def _h_modes():
    k, i, j = np.meshgrid(np.arange(3), np.arange(3), np.arange(4), indexing='ij')
    return ((k + 1) * 1.5 + 0.25 * i - 0.125 * j).astype(float)


def h_calls():
    cm0, ams, bms = ref_pack(H_NMS, H_C2D)
    return {
        'jsc(0,0)': (lambda: P.jacobi_sum_clenshaw(list(H_C), 0.0, 0.0, H_X.copy()), lambda: explicit_sum(H_C, [P.jacobi(n, 0.0, 0.0, H_X) for n in range(4)])),
        'jsc(.5,-.5)': (lambda: P.jacobi_sum_clenshaw(list(H_C), 0.5, -0.5, H_X.copy()), lambda: explicit_sum(H_C, [P.jacobi(n, 0.5, -0.5, H_X) for n in range(4)])),
        'jsc(0,4)': (lambda: P.jacobi_sum_clenshaw(list(H_C), 0.0, 4.0, H_X.copy()), lambda: explicit_sum(H_C, [P.jacobi(n, 0.0, 4.0, H_X) for n in range(4)])),
        'jsc3(0,0)': (lambda: P.jacobi_sum_clenshaw(list(H_C[:3]), 0.0, 0.0, H_X.copy()), lambda: explicit_sum(H_C[:3], [P.jacobi(n, 0.0, 0.0, H_X) for n in range(3)])),
        'qbfs': (lambda: Q.clenshaw_qbfs(list(H_C), H_U * H_U), lambda: explicit_sum(H_C, [Q.Qbfs(n, H_U) for n in range(4)])),
        'zqbfs': (lambda: Q.compute_z_zprime_Qbfs(list(H_C), H_U.copy(), H_U * H_U)[0], lambda: explicit_sum(H_C, [Q.Qbfs(n, H_U) for n in range(4)])),
        'zqcon': (lambda: Q.compute_z_zprime_Qcon(list(H_C), H_U.copy(), H_U * H_U)[0], lambda: explicit_sum(H_C, [Q.Qcon(n, H_U) for n in range(4)])),
        'zq2d': (lambda: Q.compute_z_zprime_Q2d(list(cm0), [list(a) for a in ams], [list(b) for b in bms], H_U.copy(), H_T.copy())[0],
                 lambda: q2d_reference(H_NMS, H_C2D, H_U, H_T)),
        'modes': (lambda: P.sum_of_2d_modes(_h_modes(), np.array([1.0, -0.5, 2.0])), lambda: explicit_sum([1.0, -0.5, 2.0], _h_modes())),
    }


H_EVENTS = ['clear'] + [f'{c}@{p}' for c in h_calls() for p in (64, 32)]


class HState:
    __slots__ = ('last', 'dead', 'hist')

    def __init__(self):
        self.last, self.dead, self.hist = None, False, []


def h_fresh(init, seed):
    if not H_REFS:
        # references: explicit sums of the one-order value functions, computed under precision 64; the caches they warmed are dropped again
        reset_all()
        for name, (_, ref) in h_calls().items():
            H_REFS[name] = ref()
        reset_all()
    return HState()


def h_events(init, history, st):
    return [] if st.dead else [e for e in H_EVENTS if not (history and history[-1] == e == 'clear')]


def h_apply(st, ev, R):
    st.last = None
    st.hist.append(ev)
    if ev == 'clear':
        from mc.state import reset_poly_caches
        reset_poly_caches()
    else:
        name, prec = ev.rsplit('@', 1)
        config.precision = int(prec)          # the precision switch is part of the event: "call X under precision p"
        out = R.call(h_calls()[name][0], sig=f'history:{name}:exception', hygiene=False)
        st.last = (name, out, int(prec))
        if out is FAILED:
            st.dead = True
    return st


def h_check(st, init, history, R):
    if st.last is None:
        R.outcome('state-event')
        return
    ev, out, prec = st.last
    if out is FAILED:
        R.outcome('exception')
        return
    ref, cond = H_REFS[ev]
    eps = float(np.finfo(np.float32 if prec == 32 else np.float64).eps)
    before = [h for h in history[:-1]]
    R.expect_close(out, ref, KTOL * eps * cond, f'history:{ev.split("(")[0].rstrip("3")}:depends-on-prior-calls:prec{prec}',
                   f'{ev} under config.precision={prec} after the history {before} vs the explicit sum (tolerance {KTOL:g} eps({prec}) cond)')
    R.nontrivial(len(history) >= 2)
    R.outcome(f'call:prec{prec}')


def h_canon(st):
    # no merging: the state is the history (the space is tiny) -- a memo anywhere in the library may depend on every earlier call
    return tuple(st.hist)


def plan(tier, seed):
    quick = tier == 'quick'
    LMAX = 8
    sm_shapes = [[1, 1], [3, 4], [4, 3], [1, 5], [5, 1], [4, 4]] + ([] if quick else [[2, 7], [7, 2], [6, 6]])
    sm_cases = [{'K': K, 'shape': s, 'modes_as': f, 'dtype': dt, 'layout': lay}
                for K in range(1, LMAX + 1) for s in sm_shapes for f in ('ndarray', 'list') for dt in ('float64', 'float32')
                for lay in LAYOUTS if lay == 'C' or (s[0] > 1 and s[0] != s[1] and dt == 'float64')]

    abs_ = [[0, 0], [0, 4], [-0.5, 0.5], [-0.5, -0.5], [1, 2], [2.5, 0.5]] + ([] if quick else [[0.5, -0.5], [3, 0], [0, 1.5], [4, 4]])
    # the lines alpha+beta = 0 and alpha+beta = -1, on which denominators of the three-term recurrence vanish at n = 0
    # (alpha != beta as well as alpha == beta), pairs next to those lines, and other lines for contrast; all with alpha, beta > -1
    abs_lines = [[0.5, -0.5], [0.3, -0.3], [-0.3, 0.3], [-0.9, 0.9],
                 [-0.25, -0.75], [-0.75, -0.25], [-0.1, -0.9], [-0.125, -0.875],
                 [0.3, -0.3 + 1e-6], [0.3, -0.3 - 1e-4], [-0.25, -0.75 + 1e-6], [-0.25, -0.75 - 1e-9], [-0.5, -0.5 + 1e-8],
                 [0.25, 0.75], [-0.25, -0.25], [0.5, 0.5], [-0.9, -0.05]]
    abs_lines = [ab for ab in abs_lines if ab not in abs_]
    jac_cases = [{'L': L, 'ab': ab, 'x': f, 'coefs_as': cf}
                 for L in range(1, LMAX + 1) for ab in abs_ for f in XFORMS for cf in CONTAINERS]
    jac_cases += [{'L': L, 'ab': ab, 'x': f, 'coefs_as': cf}
                  for L in range(1, LMAX + 1) for ab in abs_lines for f in (['pyfloat', '2d'] if quick else XFORMS) for cf in CONTAINERS[:2]]

    LQ = LMAX if quick else 12
    q1_cases = [{'family': fam, 'L': L, 'x': f, 'coefs_as': cf}
                for L in range(1, LQ + 1) for fam in ('Qbfs', 'Qcon') for f in XFORMS for cf in CONTAINERS]

    subsets = []
    idx = 0
    for size in range(1, len(POOL) + 1):
        for comb in itertools.combinations(range(len(POOL)), size):
            for order in ('asc', 'desc'):
                if size == 1 and order == 'desc':
                    continue
                terms = [POOL[i] for i in comb]
                if order == 'desc':
                    terms = terms[::-1]
                idx += 1
                for f in (['pyfloat', '1d', '2d'] if quick else XFORMS):
                    subsets.append({'terms': terms, 'order': order, 'x': f, 'index': idx})

    MM = 5 if quick else 7
    LS = 5 if quick else 8
    single = [{'m': m, 'La': La, 'Lb': Lb, 'cm0': ck, 'x': f, 'coefs_as': kind}
              for La in range(0, LS + 1) for Lb in range(0, LS + 1) if La + Lb > 0
              for m in range(1, MM + 1) for kind in Q2D_CONTAINERS for ck in (('none', 'empty', 'len3') if kind == 'lists' else ('len3',))
              if kind not in ('rows2d', 'arr2d') or (La > 0 and Lb > 0)
              for f in (['pyfloat', '2d'] if quick else XFORMS)]

    grids = [[5, 5], [5, 6], [6, 5], [7, 7], [9, 7]] + ([] if quick else [[7, 9], [6, 9], [8, 8], [9, 9]])
    fills = ['nan', '+inf', '-inf', 'mixed']
    ls_cases = []
    for ny, nx in grids:
        masks = [{'kind': 'none'}]
        masks += [{'kind': 'sample', 'i': i, 'j': j} for i in range(ny) for j in range(nx)]
        masks += [{'kind': 'row', 'i': i} for i in range(ny)]
        masks += [{'kind': 'col', 'j': j} for j in range(nx)]
        masks += [{'kind': 'circle'}, {'kind': 'ragged'}, {'kind': 'band'}]
        for b in ('legendre', 'xy', 'zernike'):
            for mk in masks:
                for fl in (fills if mk['kind'] != 'none' else ['nan']):
                    ls_cases.append({'basis': b, 'ny': ny, 'nx': nx, 'mask': mk, 'fill': fl})

    cc = []
    for fl in ('nan', 'mixed'):
        cc += [{'family': 'mono', 'param': d, 'mask': mk, 'fill': fl} for d in range(2, 9) for mk in ('none', 'ragged') if mk != 'none' or fl == 'nan']
        cc += [{'family': 'zernike-subaperture', 'param': p, 'fill': fl} for p in (1, 0.5, 0.25, 0.1, 0.05, 0.02, 0.01, 0.005, 0.002, 0.001)]
        cc += [{'family': 'zernike-nanmask', 'param': p, 'fill': fl} for p in (0.9, 0.7, 0.5, 0.4, 0.3, 0.2, 0.15)]
        cc += [{'family': 'near-duplicate', 'param': p, 'mask': mk, 'fill': fl}
               for p in (1e-1, 1e-2, 1e-3, 1e-4, 1e-5, 1e-6, 1e-7, 1e-8, 1e-9, 1e-10) for mk in ('none', 'ragged') if mk != 'none' or fl == 'nan']

    MD = ['float64', 'float32', 'int32', 'int16', 'uint8', 'bool']
    WD = ['float64', 'float32', 'int32', 'int8', 'uint16', 'bool']
    smd_cases = [{'K': K, 'shape': sh, 'modes': md, 'weights': wd}
                 for K in (1, 2, 3, 5) for sh in ([3, 4], [4, 3]) for md in MD for wd in WD if not (md == 'bool' and wd == 'bool')]
    DD = ['int8', 'int16', 'int32', 'int64', 'uint8', 'uint16', 'bool', 'float32', 'float64']
    lsd_cases = [{'basis': b, 'ny': ny, 'nx': nx, 'data': dd, 'modes': md, 'mask': mk}
                 for b in ('legendre', 'xy', 'zernike') for ny, nx in ([5, 6], [7, 5], [9, 7]) for dd in DD for md in ('float64', 'float32')
                 for mk in ([{'kind': 'none'}] + ([{'kind': 'row', 'i': 1}, {'kind': 'circle'}, {'kind': 'ragged'}] if dd.startswith('float') else []))
                 if not (dd == 'float64' and md == 'float64')]

    smc_cases = [{'K': K, 'shape': sh, 'modes': md, 'weights': wk}
                 for K in (1, 3, 5) for sh in ([3, 4], [4, 3]) for md in ('float64', 'float32', 'complex128', 'complex64') for wk in ('real', 'complex')]
    lsv_cases = []
    for k, shape in ((6, [15, 20]), (3, [10, 15])):
        for nlabel, N in (('k', k), ('2k', 2 * k), ('4k', 4 * k), ('4k+1', 4 * k + 1), ('10k', 10 * k), ('50k', 50 * k)):
            for mk in ('real', 'complex'):
                for ck in ('real', 'complex'):
                    for dform in ('real', 'complex'):
                        lsv_cases.append({'modes': mk, 'coefs': ck, 'data': dform, 'k': k, 'shape': shape, 'N': N, 'Nlabel': nlabel})

    hdepth = 3 if tier == 'quick' else 4
    hist_unit = HistoryUnit('call_history', [{}], h_fresh, h_events, h_apply, h_check, h_canon, hdepth,
                            f'BFS to depth {hdepth} over every sequence of the events {H_EVENTS} (clear empties every lru cache of the polynomial modules; X@p sets config.precision = p and calls the fast '
                            'sum X on fixed 7-point float64 inputs with fresh argument objects: jacobi_sum_clenshaw at three (alpha, beta) and two lengths, clenshaw_qbfs, compute_z_zprime_Qbfs / Qcon / Q2d, sum_of_2d_modes); '
                            'no state merging (the state is the history); invariant after every call: the result equals the explicit sum to 1e3 eps(configured precision) cond, whatever ran before',
                            reset=reset_all)
    lg_shapes = [[4099], [65539], [513, 512], [480, 640], [300, 1001]] + ([] if quick else [[262147], [1030, 1031], [2, 3, 44001]])
    lg_cases = [{'kind': k, 'shape': sh} for sh in lg_shapes for k in ('modes', 'jacobi', 'clenshaw_qbfs', 'qbfs', 'qcon', 'q2d') if not (k == 'modes' and len(sh) != 2)]
    return [
        hist_unit,
        ScopeUnit('large', lg_cases, run_large,
                  f'size-threshold alphabet {lg_shapes} (element counts just above 2^12, 2^16, 2^18 and not a multiple of them): sum_of_2d_modes of 3 modes (ndarray and list) against the explicit sum on every sample; '
                  'the point-wise fast sums jacobi_sum_clenshaw, clenshaw_qbfs, compute_z_zprime_Qbfs / Qcon / Q2d on a period-11 tiling of 11 reference points, every element against the 11-point answer '
                  '(itself against the explicit sum); not closed over sizes', reset=reset_all),
        ScopeUnit('sum_of_2d_modes', sm_cases, run_sum_modes,
                  f'every mode count K in 1..{LMAX} x shapes {sm_shapes} x modes given as 3-D array / list of 2-D arrays x float64/float32; '
                  f'x memory layout of the modes {LAYOUTS} (C / Fortran copy / transposed view of transposed data / strided slice; non-C layouts for float64 non-square 2-D shapes); '
                  f'one seeded dense stack (all weight containers) and integer-labelled modes (list / float64 weights); weights = every unit vector (float and int valued) + one seeded dense, held as {CONTAINERS} '
                  '(list / float64 array / row of a 2-D float64 table / float32 array / int64 array); every evaluation is made TWICE with the same coefficient objects (second result = first = reference; containers must be left unchanged); oracle: explicit loop over modes', reset=reset_all),
        ScopeUnit('jacobi_sum_clenshaw', jac_cases, run_jacobi,
                  f'every length L in 1..{LMAX} x (alpha,beta) in {abs_} x coordinate form {XFORMS} x coefficient container {CONTAINERS}, plus (list / float64 coefficients) the parameter pairs {abs_lines} '
                  'on and next to the lines alpha+beta=0 and alpha+beta=-1 where recurrence denominators vanish at n=0 (tolerance scaled by 1/|alpha+beta| off the line); '
                  'every unit vector (float and int valued) + one seeded dense; every evaluation is made TWICE with the same coefficient objects (second result = first = reference; containers must be left unchanged); with and without caller-supplied alphas; oracle sum_n s_n jacobi(n,a,b,x)', reset=reset_all),
        ScopeUnit('qbfs_qcon', q1_cases, run_q1d,
                  f'clenshaw_qbfs, compute_z_zprime_Qbfs, compute_z_zprime_Qcon: every length L in 1..{LQ} x coordinate form {XFORMS} x coefficient container {CONTAINERS} '
                  '(int-valued unit vectors included, as int list and int64 array); every unit vector + one seeded dense; every evaluation is made TWICE with the same coefficient objects (second result = first = reference; containers must be left unchanged); oracle sum_n c_n Qbfs(n,u) / Qcon(n,u)', reset=reset_all),
        ScopeUnit('q2d_subsets', subsets, run_q2d_subsets,
                  f'EVERY non-empty subset of the pool {POOL} of (n,m) terms (255 sparsity patterns: m=0-only, cosine-only, sine-only, unequal radial lengths per m, gaps in m), '
                  'in ascending and descending term order, x coordinate forms; per pattern one seeded dense vector and every unit vector inside the pattern; '
                  'Q2d_nm_c_to_a_b against an independent re-packer, compute_z_zprime_Q2d (fed the documented packing, evaluated twice) against sum c Q2d(n,m,u,t); '
                  'non-trivial when the reference surface is not identically zero', reset=reset_all),
        ScopeUnit('q2d_single_m', single, run_q2d_single_m,
                  f'compute_z_zprime_Q2d called directly: azimuthal order m in 1..{MM} x cosine list length 0..{LS} x sine list length 0..{LS} (not both empty) x '
                  f'm=0 part None / [] / 3 terms x coordinate forms x coefficient containers {Q2D_CONTAINERS} (lists of lists, lists of float64 / float32 / int64 arrays, rows of one 2-D float64 table, the 2-D table itself); '
                  'every unit vector over the concatenated (a,b) + one seeded dense; every evaluation is made TWICE with the same coefficient objects (second result = first = reference; containers must be left unchanged)', reset=reset_all),
        ScopeUnit('lstsq', ls_cases, run_lstsq,
                  f'bases Legendre(x)Legendre(y) 6 terms, XY monomials 6 terms, Zernike Noll 1..10 on grids {grids}; invalid-sample masks: none, EVERY single sample, '
                  'every single row, every single column, circular aperture, ragged edge, three-column band; invalid samples filled with NaN / +inf / -inf / a mixture; coefficient unit vectors + one '
                  'seeded dense; data = B c and B c + r (r orthogonal to the basis on exactly the valid samples, so any other sample selection changes the answer); '
                  f'modes as array and as list; for the dense vector and every non-empty mask the modes additionally NaN / +-inf / finite-but-1e200 (its square overflows) at exactly the samples the data marks invalid {MODES_AT_IGNORED} (the reference fits the valid samples only); for the dense vector and every mask other than the single-sample ones additionally data / mode stack / mode list in memory layouts {LAYOUTS[1:]}; masks leaving the basis rank-deficient on the valid samples (numpy matrix_rank) are counted under outcome '
                  '"rank-deficient-skipped" and not judged', reset=reset_all),
        ScopeUnit('sum_of_2d_modes_dtypes', smd_cases, run_sum_modes_dtypes,
                  f'dtype alphabet: modes held as {MD} (non-integer values for the float types, small integers / indicator maps otherwise) x weights held as {WD} '
                  '(bool x bool excluded: not a plausible call), K in {1,2,3,5}, 3x4 and 4x3, modes as array and list; dense weights + every unit vector, each evaluated twice; '
                  'reference: explicit float64 sum of the exact values held; tolerance at the coarsest floating type involved', reset=reset_all),
        ScopeUnit('lstsq_dtypes', lsd_cases, run_lstsq_dtypes,
                  f'dtype alphabet: data held as {DD} (rounded counts / quantised heights / a threshold map; the float types also with NaN masks) x modes float64 / float32 '
                  '(normalised coordinates, never integer valued) x 3 bases x grids 5x6, 7x5, 9x7; dense + every unit synthesis vector; reference: float64 least squares '
                  '(numpy SVD) on the exact values held by data and modes, tolerance k eps (cond |c| + cond^2 |residual| / smax) at the coarsest floating type involved', reset=reset_all),
        ScopeUnit('sum_of_2d_modes_values', smc_cases, run_sum_modes_complex,
                  'value-kind alphabet: modes float64 / float32 / complex128 / complex64 x weights real / complex (dense + every unit vector, the complex units are i e_k), '
                  'K in {1,3,5}, 3x4 and 4x3, modes and weights as array and as list, each evaluated twice; reference: explicit complex sum', reset=reset_all),
        ScopeUnit('lstsq_values', lsv_cases, run_lstsq_values,
                  'value-kind alphabet: modes real (Legendre products) / complex (R(r) exp(i m t) harmonics) x synthesising coefficients real / complex x data kept real (real part of the '
                  'synthesis: generally outside the span) / complex; k = 6 modes on 15x20 and k = 3 on 10x15 with exactly N = k, 2k, 4k, 4k+1, 10k, 50k valid samples (the rest NaN / inf, '
                  'also in only one of the real / imaginary parts); reference: float64 complex pseudo-inverse from numpy SVD with explicit Hermitian transposes, which must itself '
                  'return the synthesising coefficients whenever the data are in the span', reset=reset_all),
        ScopeUnit('lstsq_conditioning', cc, run_lstsq_cond,
                  'conditioning alphabet: independent but strongly correlated modes -- monomials of total degree 2..8 on [0.5,1]^2 (cond 2e2..1e9), Zernike 1..10 on shrinking '
                  'off-centre sub-apertures (cond 1e1..2e9) and under off-centre circular NaN masks of a full grid, a near-duplicate mode x + p x^3 next to x (cond ~ 1/p, p = 1e-1..1e-10); '
                  'with / without a ragged mask, NaN / mixed fills; dense vector + every unit vector (dense also with modes NaN / inf / 1e200 at the ignored samples); judged at k eps cond(design matrix) |c| with cond from numpy SVD of the valid rows; '
                  'members with k eps cond > 1e-2 (cond > 4.5e10) are counted as "too-ill-conditioned-skipped" and not judged', reset=reset_all),
    ]
