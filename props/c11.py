"""C11 -- Zernike (Noll, Fringe, ANSI) and XY single-index conventions are bijections onto the valid orders.

Direct exhaustive enumeration: EVERY index j from the first one up to the end of the row that contains J (J = 1e5 quick,
2e6 thorough) goes through the real forward map.  The index range is cut into cases along *complete rows* of each convention
(ANSI / Noll: radial order n, n+1 terms; Fringe: n+|m| = 2g, 2g+1 terms starting at g^2+1; XY: total degree d, d+1 terms), so that
every case can decide bijectivity literally: the image of the block must be pairwise distinct (injective) and equal to the set of
all valid orders of those rows (surjective); the target sets of different blocks are disjoint, hence the whole map is a bijection.

Reference model (exact integers, written here, independent of prysm): brute-force enumeration of the valid two-index orders in
the published order of each convention (Noll 1976; Fringe / University of Arizona set; ANSI Z80.28 / OSA; Code V XY table with the
piston term first, as documented in the library).  mc/ref_poly.py holds independently written closed forms; its selftest checks the
two against each other.

Checked per index: types (integers), validity (n >= |m|, n-|m| even; exponents >= 0), equality with the published order, Noll parity
rule (m > 0 <-> even j, m < 0 <-> odd j) and non-decreasing n, ANSI closed form 2j = n(n+2)+m in exact integers, inverse maps
(nm_to_fringe, nm_to_ansi_j) both on the reference order and on the implementation's own forward output.
A second unit pushes every valid (n,m) with n <= 400 / 1500 through nm_to_* and back.
History units: every ordered pair of calls over an index alphabet and full ascending / descending / scattered sweeps in one process
(the maps must not depend on earlier calls).
Argument-form units: the index (and n, m of the inverse maps) spelled in every numpy scalar type and as 0-d arrays, on exactly the
(map, form, index range) cells the pinned tree answers correctly (table DOMAIN below); 0-d index objects must come back unchanged and
convert the same a second time.  Cross-form history units: an earlier call in ANY spelling (also one outside the domain, whose own answer
is not judged), then the plain-int call, on a freshly executed copy of the map's module.
"""
import functools
import importlib.util
import inspect
import sys

import numpy as np

from mc import ScopeUnit, FAILED

from prysm import polynomials as pp

# the maps take and return plain integers: the ndarray call-hygiene layer of Recorder.call has nothing to look at and is switched off
# (hygiene=False) for speed, except where the index is handed over as a 0-d array (forms_forward); statefulness between calls is the
# job of the history units below
ID = 'C11'
ASSUMPTIONS = [
    'published orders: Noll 1976 (rows n, |m| ascending, even j <-> cosine); Fringe (groups n+|m|, |m| descending, cosine first); '
    'ANSI Z80.28 (j = (n(n+2)+m)/2); XY in the Code V order documented in prysm/polynomials/xy.py with piston as j=1',
    'indices are python ints (numpy int64 additionally on the first block); other spellings of an index belong to the domain exactly on the cells '
    'measured on the tree (DOMAIN in props/c11.py): since the fix "ansi_j_to_nm and noll_to_nm convert the index to a Python int" every numpy integer '
    'type is in the domain of those two maps over its whole range (before it, narrow / unsigned types wrapped inside them: recorded as fixed findings)',
]


# ---------------------------------------------------------------------------------------------
# brute-force published orders, by complete rows [a, b)

def first_index(conv, a):
    if conv == 'ansi':
        return a * (a + 1) // 2
    if conv == 'fringe':
        return a * a + 1
    return a * (a + 1) // 2 + 1          # noll, xy


def row_count(conv, a):
    return 2 * a + 1 if conv == 'fringe' else a + 1


def table(conv, a, b):
    out = []
    j = first_index(conv, a)
    for row in range(a, b):
        if conv == 'ansi':
            for m in range(-row, row + 1, 2):
                out.append((row, m))
        elif conv == 'xy':
            for k in range(row + 1):
                out.append((row - k, k))
        elif conv == 'fringe':
            for am in range(row, -1, -1):
                n = 2 * row - am
                out.append((n, am))
                if am:
                    out.append((n, -am))
        else:   # noll
            for am in range(row % 2, row + 1, 2):
                if am == 0:
                    out.append((row, 0))
                    j += 1
                else:
                    for jj in (j, j + 1):
                        out.append((row, am if jj % 2 == 0 else -am))
                    j += 2
    return out


def valid_set(conv, a, b):
    s = set()
    for row in range(a, b):
        if conv in ('ansi', 'noll'):
            s.update((row, m) for m in range(-row, row + 1) if (row - abs(m)) % 2 == 0)
        elif conv == 'fringe':
            for am in range(row + 1):
                s.add((2 * row - am, am))
                s.add((2 * row - am, -am))
        else:
            s.update((row - k, k) for k in range(row + 1))
    return s


def is_valid(conv, n, m):
    if conv == 'xy':
        return n >= 0 and m >= 0
    return n >= 0 and abs(m) <= n and (n - abs(m)) % 2 == 0


def as_pair(out):
    """(ok, a, b) -- a two-tuple of genuine integers."""
    if out is FAILED:
        return False, None, None
    try:
        if len(out) != 2:
            return False, None, None
        a, b = out
        for v in (a, b):
            if isinstance(v, (bool, np.bool_)) or not isinstance(v, (int, np.integer)):
                return False, None, None
        return True, int(a), int(b)
    except Exception:   # noqa
        return False, None, None


def as_int(out):
    if out is FAILED or isinstance(out, (bool, np.bool_)) or not isinstance(out, (int, np.integer)):
        return None
    return int(out)


FWD = {'noll': 'noll_to_nm', 'fringe': 'fringe_to_nm', 'ansi': 'ansi_j_to_nm', 'xy': 'xy_j_to_mn'}
INV = {'fringe': 'nm_to_fringe', 'ansi': 'nm_to_ansi_j'}


class Notes:
    """At most one recorded violation per signature per case (one defect must not produce thousands)."""

    def __init__(self, R):
        self.R, self.seen = R, set()

    def check(self, cond, sig, msg):
        self.R.checks += 1
        if not cond and sig not in self.seen:
            self.seen.add(sig)
            self.R.violation(sig, msg() if callable(msg) else msg)
        return bool(cond)


def run_block(case, seed, R):
    conv, a, b = case['conv'], case['row0'], case['row1']
    fn = FWD[conv]
    f = getattr(pp, fn)
    inv = getattr(pp, INV[conv]) if conv in INV else None
    want = table(conv, a, b)
    j0 = first_index(conv, a)
    N = Notes(R)
    got = []
    prev_n = None
    if conv == 'noll' and j0 > 1:
        ok, pn, _ = as_pair(R.call(f, j0 - 1, hygiene=False, sig=f'{fn}:exception'))
        prev_n = pn if ok else None
    for i, w in enumerate(want):
        j = j0 + i
        out = R.call(f, j, hygiene=False, sig=f'{fn}:exception')
        if out is FAILED:
            continue
        ok, n, m = as_pair(out)
        if not N.check(ok, f'{fn}:type', lambda: f'{fn}({j}) returned {out!r}, not a pair of integers'):
            continue
        got.append((n, m))
        N.check(is_valid(conv, n, m), f'{fn}:invalid-order', lambda: f'{fn}({j}) = {(n, m)} is not a valid order')
        if (n, m) != w:
            if conv == 'xy':
                cls = 'degree' if n + m != w[0] + w[1] else 'position'
            else:
                cls = 'n' if n != w[0] else ('m-sign' if abs(m) == abs(w[1]) else 'm')
            N.check(False, f'{fn}:value:{cls}', lambda: f'{fn}({j}) = {(n, m)}, published order has {w}')
        else:
            R.checks += 1
        if conv == 'noll':
            N.check(m == 0 or (m > 0) == (j % 2 == 0), f'{fn}:parity-rule', lambda: f'noll_to_nm({j}) = {(n, m)}: even index <-> cosine (m>0) violated')
            N.check(prev_n is None or n >= prev_n, f'{fn}:n-decreases', lambda: f'noll_to_nm({j}) has n={n} after n={prev_n} at {j - 1}')
            prev_n = n
        if conv == 'ansi':
            N.check(2 * j == n * (n + 2) + m, f'{fn}:closed-form', lambda: f'ansi_j_to_nm({j}) = {(n, m)} but (n(n+2)+m)/2 = {(n * (n + 2) + m) / 2}')
        if inv is not None:
            # inverse on the published order (independent of the forward map) and round trip on the forward output
            jj = as_int(R.call(inv, w[0], w[1], hygiene=False, sig=f'{INV[conv]}:exception'))
            N.check(jj == j, f'{INV[conv]}:value', lambda: f'{INV[conv]}{w} = {jj!r}, expected {j}')
            if (n, m) != w:
                jr = as_int(R.call(inv, n, m, hygiene=False, sig=f'{INV[conv]}:exception'))
                N.check(jr == j, f'{INV[conv]}:roundtrip', lambda: f'{INV[conv]}(*{fn}({j})) = {jr!r}')
        if a == 0:
            # numpy integer spelling of the same index
            ok2, n2, m2 = as_pair(R.call(f, np.int64(j), hygiene=False, sig=f'{fn}:int64:exception'))
            N.check(ok2 and (n2, m2) == (n, m), f'{fn}:int64', lambda: f'{fn}(np.int64({j})) = {(n2, m2)} but {fn}({j}) = {(n, m)}')
    if len(got) == len(want):
        img = set(got)
        N.check(len(img) == len(got), f'{fn}:not-injective', lambda: f'{fn} maps two indices of [{j0}, {j0 + len(want)}) to the same order')
        vs = valid_set(conv, a, b)
        N.check(img == vs, f'{fn}:not-surjective',
                lambda: f'image of [{j0}, {j0 + len(want)}) is not the set of valid orders of rows [{a}, {b}): missing {sorted(vs - img)[:5]}, extra {sorted(img - vs)[:5]}')
    R.nontrivial(b > 1)
    R.outcome(conv)


def run_rows(case, seed, R):
    """every valid (n,m) of the radial orders [a, b) through nm_to_fringe / nm_to_ansi_j and back."""
    a, b = case['n0'], case['n1']
    N = Notes(R)
    for n in range(a, b):
        for m in range(-n, n + 1, 2):
            am = abs(m)
            g = (n + am) // 2
            jf = g * g + 1 + 2 * (g - am) + (1 if m < 0 else 0)
            ja = (n * (n + 2) + m) // 2
            for name, back, jw in (('nm_to_fringe', 'fringe_to_nm', jf), ('nm_to_ansi_j', 'ansi_j_to_nm', ja)):
                out = R.call(getattr(pp, name), n, m, hygiene=False, sig=f'{name}:exception')
                j = as_int(out)
                if out is FAILED or not N.check(j is not None, f'{name}:type', lambda: f'{name}({n},{m}) returned {out!r}, not an integer'):
                    continue
                N.check(j == jw, f'{name}:value', lambda: f'{name}({n},{m}) = {j}, expected {jw}')
                ok, n2, m2 = as_pair(R.call(getattr(pp, back), j, hygiene=False, sig=f'{back}:exception'))
                N.check(ok and (n2, m2) == (n, m), f'{back}:roundtrip', lambda: f'{back}({name}({n},{m}) = {j}) = {(n2, m2)}')
    R.nontrivial(b > 1)
    R.outcome('rows')


# ---------------------------------------------------------------------------------------------
# call histories: the maps must be functions of their argument only (no memo tables / hints left by earlier calls)

HIST_SMALL = 120
HIST_LARGE = [500, 5051, 50177]


@functools.lru_cache(None)
def _ref_table(conv, jmax):
    """dict j -> published order for every index up to jmax, by brute-force enumeration."""
    rows = 1
    while first_index(conv, rows) <= jmax:
        rows += 1
    return dict(enumerate(table(conv, 0, rows), start=first_index(conv, 0)))


def _hist_alphabet(conv):
    j0 = first_index(conv, 0)
    return list(range(j0, HIST_SMALL + 1)) + HIST_LARGE


def _prime(f, conv, jmax):
    """Unjudged fixed prefix of every history case: the largest index, then the first one.  Whatever state a map keeps between calls
    (grow-only memo tables, a hint left by the last call) is thereby the same at the start of every execution of the case, so that a
    case replays identically (the explorer's determinism gate) even on a stateful implementation."""
    try:
        f(jmax)
        f(first_index(conv, 0))
    except Exception:   # noqa -- judged inside the case proper
        pass


def run_history_pairs(case, seed, R):
    """one first index j1, EVERY second index j2 of the alphabet: f(j1); f(j2) -- in this process, nothing reloaded or cleared."""
    conv, j1 = case['conv'], case['first']
    fn = FWD[conv]
    f = getattr(pp, fn)
    ref = _ref_table(conv, max(HIST_LARGE))
    N = Notes(R)

    def rel(a, b):
        return 'after-higher' if a > b else ('after-lower' if a < b else 'after-same')
    _prime(f, conv, max(HIST_LARGE))
    prev = first_index(conv, 0)
    for j2 in _hist_alphabet(conv):
        for j, before in ((j1, prev), (j2, j1)):
            out = R.call(f, j, hygiene=False, sig=f'{fn}:exception')
            if out is FAILED:
                continue
            ok, n, m = as_pair(out)
            N.check(ok and (n, m) == ref[j], f'{fn}:history:{rel(before, j)}',
                    lambda: f'{fn}({j}) called right after {fn}({before}) returned {out!r}; the published order has {ref[j]}')
        prev = j2
    R.nontrivial()
    R.outcome('pairs:' + conv)


def run_history_sweep(case, seed, R):
    """ascending, then descending, then ascending again over every index up to J, in this process."""
    conv, J = case['conv'], case['J']
    fn = FWD[conv]
    f = getattr(pp, fn)
    ref = _ref_table(conv, J)
    j0 = first_index(conv, 0)
    N = Notes(R)
    _prime(f, conv, J)
    for name, seq in (('ascending', range(j0, J + 1)), ('descending', range(J, j0 - 1, -1)), ('ascending-again', range(j0, J + 1)),
                      ('stride-7-wrap', [j0 + (k * 7919) % (J - j0 + 1) for k in range(J - j0 + 1)])):
        for j in seq:
            out = R.call(f, j, hygiene=False, sig=f'{fn}:exception')
            if out is FAILED:
                continue
            ok, n, m = as_pair(out)
            N.check(ok and (n, m) == ref[j], f'{fn}:history:sweep:{name}', lambda: f'{fn}({j}) in the {name} sweep returned {out!r}; the published order has {ref[j]}')
    R.nontrivial()
    R.outcome('sweep:' + conv)


# ---------------------------------------------------------------------------------------------
# argument forms.  A form is a spelling of an integer: python int / float, every numpy integer and floating scalar type (signed,
# UNSIGNED, narrow) and the 0-d array of each (what np.asarray(j), arr.max(), a column of a file header hand around).
# A (map, form, index range) cell belongs to the domain iff the pinned tree answers it correctly; the cells were measured on the pinned
# tree (every index up to 200000 for ansi / fringe, every index up to 5000 then stride 37 up to 200000 and the dtype limits for noll /
# xy) and are written down here as the LARGEST index B such that every index first..B is answered correctly in that form:
#   * ansi_j_to_nm / noll_to_nm: on the pinned tree they computed 9 + 8*idx, 2*idx - n(n+2), idx - nseries - 1 in the index's own type
#     (int8 wrapped above 14 / 15, int16 above 4094 / 4095, every unsigned type at j = 1 / 2, float16 rounded above 1034, noll refused
#     floats): genuine defect, repaired by "fix: ansi_j_to_nm and noll_to_nm convert the index to a Python int" -- since then every
#     integer type over its whole range, float16 up to 2048 (exactly representable integers), float32 / float64 up to the bound;
#   * fringe_to_nm promotes to float64 first: every integer type over its whole range; float16 up to 1024 (sqrt rounding);
#   * xy_j_to_mn compares / subtracts python ints: correct up to the last triangular number the type can hold
#     (int8: 120, uint8: 253, int16: 32640, uint16: 65341).
# Indices outside a cell are never judged in that form (they appear only as UNJUDGED earlier calls in the history_forms unit).
WIDE = 200_000          # the bound up to which the wide types were measured
NP_TYPES = ('int8', 'int16', 'int32', 'int64', 'uint8', 'uint16', 'uint32', 'uint64', 'float16', 'float32', 'float64')
DOMAIN = {
    'ansi': {'int8': 127, 'int16': 32767, 'int32': WIDE, 'int64': WIDE, 'uint8': 255, 'uint16': 65535, 'uint32': WIDE, 'uint64': WIDE,
             'float16': 2048, 'float32': WIDE, 'float64': WIDE},
    'fringe': {'int8': 127, 'int16': 32767, 'int32': WIDE, 'int64': WIDE, 'uint8': 255, 'uint16': 65535, 'uint32': WIDE, 'uint64': WIDE,
               'float16': 1024, 'float32': WIDE, 'float64': WIDE},
    'noll': {'int8': 127, 'int16': 32767, 'int32': WIDE, 'int64': WIDE, 'uint8': 255, 'uint16': 65535, 'uint32': WIDE, 'uint64': WIDE,
             'float16': 2048, 'float32': WIDE, 'float64': WIDE},
    'xy': {'int8': 120, 'int16': 32640, 'int32': WIDE, 'int64': WIDE, 'uint8': 253, 'uint16': 65341, 'uint32': WIDE, 'uint64': WIDE,
           'float16': 2048, 'float32': WIDE, 'float64': WIDE},
}
PY_FORMS = {'int': int, 'float': float}
PY_DOMAIN = {'ansi': ('int', 'float'), 'fringe': ('int', 'float'), 'xy': ('int', 'float'), 'noll': ('int', 'float')}

# forms of the inverse maps' (n, m) arguments: only types wide enough for n(n+2) (the narrow ones overflow on the pinned tree from n = 10)
FORMS = {'int': int, 'int32': np.int32, 'int64': np.int64, 'float': float, 'float64': np.float64,
         'uint32': np.uint32, 'uint64': np.uint64, 'float32': np.float32,
         '0d:int64': lambda v: np.array(v, dtype=np.int64), '0d:uint32': lambda v: np.array(v, dtype=np.uint32),
         '0d:float64': lambda v: np.array(v, dtype=np.float64)}
INT_FORMS = ('int', 'int32', 'int64', 'uint32', 'uint64', '0d:int64', '0d:uint32')
UNSIGNED_FORMS = ('uint32', 'uint64', '0d:uint32')


def form_bound(conv, form):
    """largest index of the domain cell of (map, form); -1 if the form is not in the map's domain at all."""
    if form in PY_FORMS:
        return WIDE if form in PY_DOMAIN[conv] else -1
    return DOMAIN[conv].get(form.split(':')[1], -1)


def form_make(form, v):
    """the value v spelled in the given form, or None if the form cannot hold it exactly."""
    if form in PY_FORMS:
        return PY_FORMS[form](v)
    kind, dt = form.split(':')
    d = np.dtype(dt)
    if d.kind in 'iu':
        ii = np.iinfo(d)
        if not ii.min <= v <= ii.max:
            return None
    elif abs(v) > 2 ** (np.finfo(d).nmant + 1):
        return None
    x = np.array(v, dtype=d) if kind.startswith('0d') else d.type(v)
    if kind == '0d-ro':
        x.flags.writeable = False
    return x


def forward_forms(conv):
    """every form with a non-empty domain cell for this map"""
    out = [f for f in PY_FORMS if form_bound(conv, f) >= 0]
    out += [f'sc:{dt}' for dt in NP_TYPES if dt in DOMAIN[conv]]
    out += [f'0d:{dt}' for dt in NP_TYPES if dt in DOMAIN[conv]]
    out += ['0d-ro:int64']
    return out


POW2 = {2 ** p + d for p in range(7, 18) for d in (-2, -1, 0, 1)}


def _probe_indices():
    """where float sqrt / ceil and fixed-width integer arithmetic go wrong: around perfect squares, triangular numbers, powers of two"""
    s = set(POW2)
    for k in range(45, 448):
        for d in (-1, 0, 1, 2):
            s.add(k * k + d)
            s.add(k * (k + 1) // 2 + d)
    return s


PROBES = _probe_indices()


PM_XY_0D = 20_000
JF_XY_0D = 500


def form_indices(conv, form, JF, PM):
    """every index <= JF, the probe indices up to PM, and the last 40 indices of a cell that ends below PM -- all inside the cell.
    (xy_j_to_mn walks ~sqrt(2j) steps of 0-d array arithmetic per call: its 0-d forms take every index <= 500 and the square / triangular probes up to 20000.)"""
    j0 = first_index(conv, 0)
    B = form_bound(conv, form)
    top = min(B, PM)
    if conv == 'xy' and form.startswith('0d'):
        JF = min(JF, JF_XY_0D)
        s = set(range(j0, min(JF, top) + 1))
        s.update(v for v in PROBES if JF < v <= min(top, PM_XY_0D))
        s.update(v for v in POW2 if JF < v <= top)
    else:
        s = set(range(j0, min(JF, top) + 1))
        s.update(v for v in PROBES if JF < v <= top)
    if B < PM:
        s.update(range(max(j0, B - 40), B + 1))
    return sorted(s)


def as_pair_value(out):
    """(ok, a, b) -- a pair of integer-VALUED real numbers (float forms may hand floats through), compared by value."""
    if out is FAILED:
        return False, None, None
    try:
        if len(out) != 2:
            return False, None, None
        vals = []
        for v in out:
            if isinstance(v, (bool, np.bool_)) or not isinstance(v, (int, float, np.integer, np.floating)) or v != int(v):
                return False, None, None
            vals.append(int(v))
        return True, vals[0], vals[1]
    except Exception:   # noqa
        return False, None, None


def as_int_value(out):
    if out is FAILED or isinstance(out, (bool, np.bool_)) or not isinstance(out, (int, float, np.integer, np.floating)):
        return None
    try:
        return int(out) if out == int(out) else None
    except Exception:   # noqa
        return None


def fam(form):
    """signature class of a form: container kind x type family (one defect must not produce a signature per dtype)"""
    if ':' not in form:
        return form
    kind, dt = form.split(':')
    return kind + ':' + {'i': 'signed', 'u': 'unsigned', 'f': 'float'}[np.dtype(dt).kind]


def _is_int_form(form):
    return form == 'int' or (':' in form and np.dtype(form.split(':')[1]).kind in 'iu')


def _holds(x, form, j):
    """the 0-d index object still is what the caller made it"""
    try:
        return isinstance(x, np.ndarray) and x.shape == () and x.dtype == np.dtype(form.split(':')[1]) and int(x) == j
    except Exception:   # noqa
        return False


def run_forms_forward(case, seed, R):
    conv, form = case['conv'], case['form']
    fn = FWD[conv]
    f = getattr(pp, fn)
    ref = _ref_table(conv, case['PM'] + 10)
    pair = as_pair if _is_int_form(form) else as_pair_value
    zero_d = form.startswith('0d')
    fm = fam(form)
    N = Notes(R)
    buf = None
    if form.startswith('0d:'):
        buf = np.zeros((), dtype=form.split(':')[1])
    for j in form_indices(conv, form, case['JF'], case['PM'])[case['part']::case['parts']]:
        x = form_make(form, j)
        if x is None:
            continue
        # 0-d arrays go through the call-hygiene layer (argument snapshot); scalars are immutable
        out = R.call(f, x, hygiene=zero_d, sig=f'{fn}:{fm}:exception')
        if out is not FAILED:
            ok, n, m = pair(out)
            N.check(ok and (n, m) == ref[j], f'{fn}:{fm}', lambda: f'{fn}({form}({j})) returned {out!r}; the published order has {ref[j]}')
        if not zero_d:
            continue
        # the caller's index object: unchanged by the call, and converted a second time it gives the same order
        N.check(_holds(x, form, j), f'{fn}:{fm}:argument-modified', lambda: f'after {fn}(x) with x = {form}({j}) the caller\'s x is {x!r}')
        x = form_make(form, j) if not _holds(x, form, j) else x
        out = R.call(f, x, hygiene=False, sig=f'{fn}:{fm}:exception')
        if out is not FAILED:
            ok, n, m = pair(out)
            N.check(ok and (n, m) == ref[j], f'{fn}:{fm}:second-call-same-object',
                    lambda: f'{fn}(x) called a second time with the same x = {form}({j}) returned {out!r}; the published order has {ref[j]}')
        N.check(_holds(x, form, j), f'{fn}:{fm}:argument-modified', lambda: f'after the second {fn}(x) with x = {form}({j}) the caller\'s x is {x!r}')
        if buf is not None:
            # one index object reused for every index (buf[...] = j): an identity-keyed memo would answer for the old content
            try:
                buf[...] = j
            except Exception:   # noqa -- someone froze the caller's buffer
                buf = np.zeros((), dtype=form.split(':')[1])
                buf[...] = j
            out = R.call(f, buf, hygiene=False, sig=f'{fn}:{fm}:exception')
            if out is not FAILED:
                ok, n, m = pair(out)
                N.check(ok and (n, m) == ref[j], f'{fn}:{fm}:reused-object',
                        lambda: f'{fn}(buf) after buf[...] = {j} (one 0-d {form} object reused for every index) returned {out!r}; the published order has {ref[j]}')
            if not N.check(_holds(buf, form, j), f'{fn}:{fm}:argument-modified', lambda: f'after {fn}(buf) with buf[...] = {j} the caller\'s buf is {buf!r}'):
                buf = np.zeros((), dtype=form.split(':')[1])
    R.nontrivial()
    R.outcome('forms:' + conv)


def run_forms_inverse(case, seed, R):
    fn_, fm_, a, b = case['form_n'], case['form_m'], case['n0'], case['n1']
    cn, cm = FORMS[fn_], FORMS[fm_]
    both_int = fn_ in INT_FORMS and fm_ in INT_FORMS
    N = Notes(R)

    def intact(x, v):
        try:
            return not isinstance(x, np.ndarray) or (x.shape == () and x == v)
        except Exception:   # noqa
            return False
    for n in range(a, b):
        for m in range(-n, n + 1, 2):
            if m < 0 and fm_ in UNSIGNED_FORMS:
                continue            # an unsigned type cannot spell a negative m
            am = abs(m)
            g = (n + am) // 2
            want = {'nm_to_fringe': g * g + 1 + 2 * (g - am) + (1 if m < 0 else 0), 'nm_to_ansi_j': (n * (n + 2) + m) // 2}
            for name, jw in want.items():
                if name == 'nm_to_ansi_j' and m < 0 and fn_ in UNSIGNED_FORMS and fm_ == 'int':
                    continue        # numpy refuses unsigned + negative python int (OverflowError) on the pinned tree: not in the domain
                xn, xm = cn(n), cm(m)
                out = R.call(getattr(pp, name), xn, xm, hygiene=False, sig=f'{name}:{fn_},{fm_}:exception')
                N.check(intact(xn, n) and intact(xm, m), f'{name}:{fn_},{fm_}:argument-modified', lambda: f'after {name}({fn_}({n}), {fm_}({m})) the caller\'s arguments are {xn!r}, {xm!r}')
                if out is FAILED:
                    continue
                j = as_int(out) if both_int else as_int_value(out)
                N.check(j == jw, f'{name}:{fn_},{fm_}', lambda: f'{name}({fn_}({n}), {fm_}({m})) returned {out!r}, expected {jw}')
            # nm_to_name is a pure index function too: its answer must not depend on the integer type of its arguments
            # (the names themselves are not part of C11; only form-invariance is judged)
            if (fn_, fm_) != ('int', 'int') and fm_ in INT_FORMS:
                base = R.call(pp.nm_to_name, n, m, hygiene=False, sig='nm_to_name:int,int:exception')
                out = R.call(pp.nm_to_name, cn(n), cm(m), hygiene=False, sig=f'nm_to_name:{fn_},{fm_}:exception')
                if base is not FAILED and out is not FAILED:
                    N.check(isinstance(out, str) and out == base, f'nm_to_name:{fn_},{fm_}', lambda: f'nm_to_name({fn_}({n}), {fm_}({m})) = {out!r} but {base!r} for python ints')
    R.nontrivial(b > 1)
    R.outcome('forms:inverse')


def run_forms_zero(case, seed, R):
    """m = 0 spelled as a signed floating zero (what -abs(m) gives for float orders): still the m = 0 term."""
    fn_, a, b = case['form_n'], case['n0'], case['n1']
    cn = FORMS[fn_]
    zeros = {'-0.0': -0.0, '+0.0': 0.0, 'float64(-0.0)': np.float64(-0.0), '-abs(0.0)': -abs(0.0), '-np.abs(float64(0))': -np.abs(np.float64(0.0)),
             '-abs(float32(0))': -abs(np.float32(0.0))}
    N = Notes(R)
    for n in range(a + (a % 2), b, 2):
        g = n // 2
        want = {'nm_to_fringe': g * g + 1 + 2 * g, 'nm_to_ansi_j': (n * (n + 2)) // 2}
        for zn, z in zeros.items():
            for name, jw in want.items():
                out = R.call(getattr(pp, name), cn(n), z, hygiene=False, sig=f'{name}:signed-zero:exception')
                if out is FAILED:
                    continue
                N.check(as_int_value(out) == jw, f'{name}:signed-zero', lambda: f'{name}({fn_}({n}), {zn}) returned {out!r}; (n, 0) has index {jw}')
            base = R.call(pp.nm_to_name, n, 0, hygiene=False, sig='nm_to_name:int,int:exception')
            out = R.call(pp.nm_to_name, cn(n), z, hygiene=False, sig='nm_to_name:signed-zero:exception')
            if base is not FAILED and out is not FAILED:
                N.check(isinstance(out, str) and out == base, 'nm_to_name:signed-zero', lambda: f'nm_to_name({fn_}({n}), {zn}) = {out!r} but {base!r} for m = 0')
    R.nontrivial()
    R.outcome('forms:zero')


# ---------------------------------------------------------------------------------------------
# call histories whose EARLIER call uses another spelling of an index -- including spellings outside the map's domain, whose own
# answer (garbage, an exception) is not judged: the later plain-int call must be right whatever happened before.

_CODE = {}


def fresh_map(conv):
    """The forward map of a newly executed copy of its defining module: module-level state (memo tables, hints, grown lists) as in
    a fresh process, whatever earlier cases did in this worker.  Falls back to the imported function if the copy cannot be made."""
    f = getattr(pp, FWD[conv])
    try:
        g = inspect.unwrap(f)
        src = sys.modules[g.__module__]
        if src.__file__ not in _CODE:
            with open(src.__file__, 'rb') as fh:
                _CODE[src.__file__] = compile(fh.read(), src.__file__, 'exec')
        spec = importlib.util.spec_from_file_location(g.__module__ + '_c11fresh', src.__file__)
        mod = importlib.util.module_from_spec(spec)
        exec(_CODE[src.__file__], mod.__dict__)
        return getattr(mod, g.__name__)
    except Exception:   # noqa
        _prime(f, conv, max(HIST_LARGE))
        return f


EARLIER_EXTRA = ('float', 'half', 'neg')     # python float, the non-integer j + 0.5, the negative -j
TYPE_EDGES = [14, 15, 16, 120, 121, 127, 128, 253, 254, 255, 256, 1024, 1025, 1034, 1035, 2048, 4094, 4095, 4096,
              32640, 32641, 32767, 32768, 65341, 65342, 65535, 65536]


def earlier_forms(conv):
    """EVERY numpy scalar type and its 0-d array (in the map's domain or not), python float, and two values no index can have.
    j + 0.5 is left out for xy_j_to_mn: its walking loops do not terminate for a non-integer on the pinned tree."""
    out = [f'sc:{dt}' for dt in NP_TYPES] + [f'0d:{dt}' for dt in NP_TYPES] + list(EARLIER_EXTRA)
    if conv == 'xy':
        out.remove('half')
    return out


def earlier_make(form, j):
    if form == 'half':
        return j + 0.5
    if form == 'neg':
        return -j
    return form_make(form, j)


def _earlier_call(g, conv, form, j, ref, N, R, fn):
    """the earlier call: judged iff (map, form, j) is a domain cell, otherwise only made"""
    x = earlier_make(form, j)
    if x is None:
        return False
    R.tick(1)
    try:
        with np.errstate(all='ignore'):      # wrapped arithmetic on narrow types only warns; the warning is not what is judged
            out = g(x)
    except Exception as e:   # noqa
        out = FAILED
        if form not in ('half', 'neg') and j <= form_bound(conv, form):
            N.check(False, f'{fn}:{fam(form)}:exception', f'{fn}({form}({j})) raised {type(e).__name__}: {e}')
    if out is not FAILED and form not in ('half', 'neg') and j <= form_bound(conv, form):
        ok, n, m = as_pair_value(out)
        N.check(ok and (n, m) == ref[j], f'{fn}:{fam(form)}', lambda: f'{fn}({form}({j})) returned {out!r}; the published order has {ref[j]}')
    return True


def run_history_forms_pairs(case, seed, R):
    """g(form(j1)) -- not judged outside the domain -- then g(j2) with a python int, judged; for every j1, j2 of the alphabets, every
    pair on a fresh copy of the module."""
    conv, form = case['conv'], case['form']
    fn = FWD[conv]
    ref = _ref_table(conv, max(HIST_LARGE + TYPE_EDGES) + 10)
    j0 = first_index(conv, 0)
    N = Notes(R)
    firsts = [j for j in list(range(j0, 41)) + TYPE_EDGES + HIST_LARGE]
    base2 = list(range(j0, 41)) + HIST_LARGE
    for j1 in firsts:
        if earlier_make(form, j1) is None:
            continue
        g = fresh_map(conv)
        seconds = sorted({j for j in (j1 - 1, j1, j1 + 1) if j >= j0} | set(base2))
        # the same value first: a table keyed on the VALUE of the index answers the int call with what the other spelling left
        for j2 in [j1] + [j for j in seconds if j != j1]:
            _earlier_call(g, conv, form, j1, ref, N, R, fn)
            for spell, x2 in (('int', j2), ('int64', np.int64(j2))):
                out = R.call(g, x2, hygiene=False, sig=f'{fn}:exception')
                if out is FAILED:
                    continue
                ok, n, m = as_pair(out)
                N.check(ok and (n, m) == ref[j2], f'{fn}:history:after-form:{fam(form)}',
                        lambda: f'{fn}({spell}({j2})) called after {fn}({form}({j1})) [whose own answer is not judged] returned {out!r}; the published order has {ref[j2]}')
    R.nontrivial()
    R.outcome('formpairs:' + conv)


def run_history_forms_sweep(case, seed, R):
    """on one fresh copy of the module: every index <= J in the other spelling first (judged only inside the domain cell), then every
    index as a python int and as np.int64 (judged), then the other spelling again (judged inside the cell: int first must not hurt either)."""
    conv, form, J = case['conv'], case['form'], case['J']
    fn = FWD[conv]
    ref = _ref_table(conv, J + 10)
    j0 = first_index(conv, 0)
    N = Notes(R)
    g = fresh_map(conv)
    made = 0
    for j in range(j0, J + 1):
        made += _earlier_call(g, conv, form, j, ref, N, R, fn)
    for spell, cast in (('int', int), ('int64', np.int64)):
        for j in range(j0, J + 1):
            out = R.call(g, cast(j), hygiene=False, sig=f'{fn}:exception')
            if out is FAILED:
                continue
            ok, n, m = as_pair(out)
            N.check(ok and (n, m) == ref[j], f'{fn}:history:sweep-after-form:{fam(form)}',
                    lambda: f'{fn}({spell}({j})) after a sweep of {made} calls {fn}({form}(.)) [not judged] returned {out!r}; the published order has {ref[j]}')
    for j in range(j0, J + 1):
        _earlier_call(g, conv, form, j, ref, N, R, fn)
    R.nontrivial()
    R.outcome('formsweep:' + conv)


# ---------------------------------------------------------------------------------------------
# call forms: the index (or n, m) handed over BY KEYWORD, positional and keyword calls interleaved -- a wrapper (memo, validator) that
# forwards **kwargs may key or validate on the positional tuple only

KW = {'noll': 'idx', 'ansi': 'idx', 'fringe': 'idx', 'xy': 'j'}


def run_keyword(case, seed, R):
    import prysm.polynomials as PP
    conv, J = case['conv'], case['J']
    f = getattr(PP, FWD[conv], None)
    if not R.expect(callable(f), f'{FWD[conv]}:missing', f'{FWD[conv]} not exported'):
        return
    ref = _ref_table(conv, J)
    j0 = first_index(conv, 0)
    order = list(range(j0, J + 1)) + list(range(J, j0 - 1, -7)) + [j0, J, j0 + 1]
    for k, j in enumerate(order):
        for mode in (('kw',) if k % 3 else ('kw', 'pos', 'kw')):
            out = R.call(f, **{KW[conv]: j}, sig=f'{FWD[conv]}:keyword:exception', hygiene=False) if mode == 'kw' else R.call(f, j, sig=f'{FWD[conv]}:exception', hygiene=False)
            ok_, n_, m_ = as_pair_value(out)
            got = (n_, m_) if ok_ else out
            if not R.expect(ok_ and got == tuple(ref[j]), f'{FWD[conv]}:call-form:{"keyword" if mode == "kw" else "positional-after-keyword"}',
                            f'{FWD[conv]}({KW[conv]}={j}) -> {got!r}, published order {tuple(ref[j])} (call {k} of an interleaved positional / keyword sequence)'):
                return
    if conv in INV:
        g = getattr(PP, INV[conv], None)
        if callable(g):
            for j in order:
                n, m = ref[j]
                for kw in ({'n': n, 'm': m}, {'m': m, 'n': n}):
                    out = R.call(g, **kw, sig=f'{INV[conv]}:keyword:exception', hygiene=False)
                    if not R.expect(as_int_value(out) == j, f'{INV[conv]}:call-form:keyword', f'{INV[conv]}(n={n}, m={m}) by keyword -> {out!r}, want {j}'):
                        return
    R.nontrivial()
    R.outcome(f'keyword:{conv}')


def blocks(conv, J, size):
    """Row-aligned blocks covering every index up to the end of the row containing J."""
    out = []
    a = 0
    last = J if conv != 'ansi' else J     # ansi is 0-based; covering j <= J as well
    while first_index(conv, a) <= last:
        b = a
        cnt = 0
        while cnt < size and first_index(conv, b) <= last:
            cnt += row_count(conv, b)
            b += 1
        out.append({'conv': conv, 'row0': a, 'row1': b})
        a = b
    return out


def plan(tier, seed):
    J = 100_000 if tier == 'quick' else 2_000_000
    NR = 400 if tier == 'quick' else 1500
    size = 2000 if tier == 'quick' else 4000
    cases = []
    per = {}
    for conv in ('ansi', 'fringe', 'noll', 'xy'):
        bl = blocks(conv, J, size)
        per[conv] = (first_index(conv, bl[-1]['row1']) - 1, bl[-1]['row1'] - 1)
        cases += bl
    # interleave the expensive conventions (noll, xy cost ~ sqrt(j) per call) evenly over the workers
    cases.sort(key=lambda c: (c['row0'] * (2 if c['conv'] == 'fringe' else 1), c['conv']))
    row_cases = []
    a = 0
    while a <= NR:
        b = a
        cnt = 0
        while cnt < size and b <= NR:
            cnt += b + 1
            b += 1
        row_cases.append({'n0': a, 'n1': b})
        a = b
    hp_cases = [{'conv': c, 'first': j} for j in range(0, HIST_SMALL + 1) for c in FWD if j >= first_index(c, 0)] + \
        [{'conv': c, 'first': j} for j in HIST_LARGE for c in FWD]
    JS = 10_000 if tier == 'quick' else 100_000
    hs_cases = [{'conv': c, 'J': JS} for c in ('ansi', 'fringe', 'noll', 'xy')]
    JF = 2000 if tier == 'quick' else 20000
    PM = 100_000 if tier == 'quick' else WIDE
    NF = 60 if tier == 'quick' else 150
    ff_cases = []
    for c in ('ansi', 'fringe', 'noll', 'xy'):
        for fm in forward_forms(c):
            cnt = len(form_indices(c, fm, JF, PM))
            parts = max(1, -(-cnt // (600 if c in ('noll', 'xy') else 1500)))
            ff_cases += [{'conv': c, 'form': fm, 'JF': JF, 'PM': PM, 'part': i, 'parts': parts} for i in range(parts)]
    ff_cases.sort(key=lambda c: (c['part'], c['conv'], c['form']))
    fz_cases = [{'form_n': f1, 'n0': 0, 'n1': NF + 1} for f1 in FORMS]
    fi_cases = [{'form_n': f1, 'form_m': f2, 'n0': a, 'n1': min(a + 30, NF + 1)} for f1 in FORMS for f2 in FORMS for a in range(0, NF + 1, 30)]
    hfp_cases = [{'conv': c, 'form': fm} for c in ('ansi', 'fringe', 'noll', 'xy') for fm in earlier_forms(c)]
    JH = 2000 if tier == 'quick' else 20000
    hfs_cases = [{'conv': c, 'form': fm, 'J': JH} for c in ('ansi', 'fringe', 'noll', 'xy') for fm in earlier_forms(c)]
    cells = '; '.join(f"{FWD[c]}: " + ', '.join(f"{dt} <= {b}" if b < WIDE else dt for dt, b in DOMAIN[c].items()) for c in DOMAIN)
    cover = ', '.join(f'{c}: j <= {per[c][0]} (rows <= {per[c][1]})' for c in per)
    kw_cases = [{'conv': c, 'J': 300 if tier == 'quick' else 3000} for c in ('noll', 'fringe', 'ansi', 'xy')]
    return [
        ScopeUnit('call_forms', kw_cases, run_keyword,
                  'every index up to 300 (thorough 3000) of the four forward maps handed over BY KEYWORD (idx= / j=), ascending then descending in steps of 7, with positional calls of the same and of other '
                  'indices interleaved; nm_to_fringe / nm_to_ansi_j with n=, m= in both keyword orders; every answer against the brute-force published order'),
        ScopeUnit('index_blocks', cases, run_block,
                  f'EVERY single index of Noll, Fringe, ANSI (from 0) and XY up to the end of the row containing {J} [{cover}], cut into row-aligned blocks of ~{size} '
                  'indices; per index: integer types, validity, equality with the brute-force published order, Noll parity and monotone n, ANSI closed form, '
                  'inverse maps; per block: injective and onto the complete set of valid orders of its rows; non-trivial beyond the first row'),
        ScopeUnit('history_pairs', hp_cases, run_history_pairs,
                  f'depth-2 call histories over the index alphabet [first..{HIST_SMALL}] + {HIST_LARGE} for each of the four forward maps: EVERY ordered pair (j1, j2), f(j1) then f(j2) in one '
                  'process without reloading or clearing anything; both answers must equal the brute-force published order (a map that keeps memo tables / search hints between calls fails here)'),
        ScopeUnit('history_sweeps', hs_cases, run_history_sweep,
                  f'per map, in one process: every index up to {JS} ascending, then descending, then ascending again, then in a scattered (stride 7919 mod J) order; every answer against the published order', chunk=1),
        ScopeUnit('forms_forward', ff_cases, run_forms_forward,
                  f'argument forms of the forward maps: python int / float, EVERY numpy scalar type (int8..int64, uint8..uint64, float16/32/64) and the 0-d array of each '
                  f'(plus a read-only 0-d int64), on exactly the (map, form, index range) cells the pinned tree answers correctly [largest index per cell; no entry = form not in the '
                  f'domain; bare name = up to the measured bound {WIDE}: {cells}; python float as float64, noll_to_nm refuses float types]; inside a cell EVERY index <= {JF}, the '
                  f'probe indices k^2+d, k(k+1)/2+d (k = 45..447, d = -1..2), 2^p+d (p = 7..17) up to {PM}, and the last 40 indices of a cell that ends earlier (0-d forms of xy_j_to_mn: every index <= {JF_XY_0D}, square / triangular probes up to {PM_XY_0D}); the answer, by value, '
                  'must be the published order; an exception is a violation.  0-d arrays additionally: the caller\'s index object is unchanged by the call (also seen by the call-hygiene '
                  'layer), a second conversion of the SAME object gives the same order, and one 0-d object reused for every index (buf[...] = j) is answered for its current content'),
        ScopeUnit('history_forms', hfp_cases, run_history_forms_pairs,
                  f'depth-2 histories across argument forms, each pair on a fresh copy of the map\'s module (fresh process state): g(form(j1)) then g(int(j2)) and g(np.int64(j2)); form over EVERY '
                  f'numpy scalar type and its 0-d array -- in the domain cell or not -- python float, the non-integer j1+0.5 (not xy_j_to_mn: does not terminate on the pinned tree) and the negative '
                  f'-j1; j1 over [first..40] + dtype edges {TYPE_EDGES} + {HIST_LARGE} (where the form can hold it), j2 over j1-1, j1, j1+1, [first..40] + {HIST_LARGE}, j2 = j1 first.  The earlier '
                  'call is judged only inside its domain cell (outside it may return garbage or raise: not judged); the later plain-int call must equal the published order'),
        ScopeUnit('history_forms_sweeps', hfs_cases, run_history_forms_sweep,
                  f'per (map, earlier form) on one fresh copy of the module: every index <= {JH} in the earlier form (judged only inside its domain cell), then every index as python int and as '
                  'np.int64 (judged against the published order), then the earlier form again (judged inside the cell)'),
        ScopeUnit('forms_inverse', fi_cases, run_forms_inverse,
                  f'argument forms: every valid (n,m) with n <= {NF} through nm_to_fringe and nm_to_ansi_j with n and m independently given as python int, np.int32, np.int64, np.uint32, np.uint64 '
                  '(m >= 0 only), python float, np.float32, np.float64, 0-d int64 / uint32 / float64 arrays (all 121 combinations; negative float m is exactly what -abs(m) yields for float '
                  'orders; left out: narrow integer types, which overflow n(n+2) on the pinned tree from n = 10, and nm_to_ansi_j(unsigned n, negative python int m), refused by numpy) against '
                  'exact integer closed forms, by value; 0-d arguments must be unchanged afterwards; nm_to_name (a pure index function) must return the same string as for python ints for every '
                  'form with an integer-typed m (float-typed m is refused by the pinned tree and left out)'),
        ScopeUnit('forms_zero', fz_cases, run_forms_zero,
                  f'm = 0 spelled as a signed floating zero (-0.0, +0.0, np.float64(-0.0), -abs(0.0), -np.abs(np.float64(0)), -abs(np.float32(0))) for every even n <= {NF} in every form of n: '
                  'nm_to_fringe / nm_to_ansi_j must return the index of (n, 0), nm_to_name the name of (n, 0)'),
        ScopeUnit('nm_rows', row_cases, run_rows,
                  f'every valid (n,m) with n <= {NR}: nm_to_fringe and nm_to_ansi_j against exact integer closed forms, and fringe_to_nm / ansi_j_to_nm of the result returns (n,m)'),
    ]
