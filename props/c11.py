"""C11 -- Zernike (Noll, Fringe, ANSI) and XY single-index conventions are bijections onto the valid orders.

Direct exhaustive enumeration: EVERY index j from the first one up to the end of the row that contains J (J = 1e5 quick,
2e6 thorough) goes through the real forward map.  The index range is cut into cases along *complete rows* of each convention
(ANSI / Noll: radial order n, n+1 terms; Fringe: n+|m| = 2g, 2g+1 terms starting at g^2+1; XY: total degree d, d+1 terms), so that
every case can decide bijectivity literally: the image of the block must be pairwise distinct (injective) and equal to the set of
all valid orders of those rows (surjective); the target sets of different blocks are disjoint, hence the whole map is a bijection.

Reference model (exact integers, written here, independent of prysm): brute-force enumeration of the valid two-index orders in
the published order of each convention (Noll 1976; Fringe / University of Arizona set; ANSI Z80.28 / OSA; Code V XY table with the
piston term first, as documented in the library).  mc/ref_poly.py holds independently written closed forms; its selftest checks the
two against each other.

Checked per index: types (integers), validity (n >= |m|, n-|m| even; exponents >= 0), equality with the published order, Noll parity
rule (m > 0 <-> even j, m < 0 <-> odd j) and non-decreasing n, ANSI closed form 2j = n(n+2)+m in exact integers, inverse maps
(nm_to_fringe, nm_to_ansi_j) both on the reference order and on the implementation's own forward output.
A second unit pushes every valid (n,m) with n <= 400 / 1500 through nm_to_* and back.
History units: every ordered pair of calls over an index alphabet and full ascending / descending / scattered sweeps in one process
(the maps must not depend on earlier calls).
"""
import functools

import numpy as np

from mc import ScopeUnit, FAILED

from prysm import polynomials as pp

# the maps take and return plain integers: the ndarray call-hygiene layer of Recorder.call has nothing to look at and is switched off
# (hygiene=False) for speed; statefulness between calls is the job of the history units below
ID = 'C11'
ASSUMPTIONS = [
    'published orders: Noll 1976 (rows n, |m| ascending, even j <-> cosine); Fringe (groups n+|m|, |m| descending, cosine first); '
    'ANSI Z80.28 (j = (n(n+2)+m)/2); XY in the Code V order documented in prysm/polynomials/xy.py with piston as j=1',
    'indices are python ints (numpy int64 additionally on the first block)',
]


# ---------------------------------------------------------------------------------------------
# brute-force published orders, by complete rows [a, b)

def first_index(conv, a):
    if conv == 'ansi':
        return a * (a + 1) // 2
    if conv == 'fringe':
        return a * a + 1
    return a * (a + 1) // 2 + 1          # noll, xy


def row_count(conv, a):
    return 2 * a + 1 if conv == 'fringe' else a + 1


def table(conv, a, b):
    out = []
    j = first_index(conv, a)
    for row in range(a, b):
        if conv == 'ansi':
            for m in range(-row, row + 1, 2):
                out.append((row, m))
        elif conv == 'xy':
            for k in range(row + 1):
                out.append((row - k, k))
        elif conv == 'fringe':
            for am in range(row, -1, -1):
                n = 2 * row - am
                out.append((n, am))
                if am:
                    out.append((n, -am))
        else:   # noll
            for am in range(row % 2, row + 1, 2):
                if am == 0:
                    out.append((row, 0))
                    j += 1
                else:
                    for jj in (j, j + 1):
                        out.append((row, am if jj % 2 == 0 else -am))
                    j += 2
    return out


def valid_set(conv, a, b):
    s = set()
    for row in range(a, b):
        if conv in ('ansi', 'noll'):
            s.update((row, m) for m in range(-row, row + 1) if (row - abs(m)) % 2 == 0)
        elif conv == 'fringe':
            for am in range(row + 1):
                s.add((2 * row - am, am))
                s.add((2 * row - am, -am))
        else:
            s.update((row - k, k) for k in range(row + 1))
    return s


def is_valid(conv, n, m):
    if conv == 'xy':
        return n >= 0 and m >= 0
    return n >= 0 and abs(m) <= n and (n - abs(m)) % 2 == 0


def as_pair(out):
    """(ok, a, b) -- a two-tuple of genuine integers."""
    if out is FAILED:
        return False, None, None
    try:
        if len(out) != 2:
            return False, None, None
        a, b = out
        for v in (a, b):
            if isinstance(v, (bool, np.bool_)) or not isinstance(v, (int, np.integer)):
                return False, None, None
        return True, int(a), int(b)
    except Exception:   # noqa
        return False, None, None


def as_int(out):
    if out is FAILED or isinstance(out, (bool, np.bool_)) or not isinstance(out, (int, np.integer)):
        return None
    return int(out)


FWD = {'noll': 'noll_to_nm', 'fringe': 'fringe_to_nm', 'ansi': 'ansi_j_to_nm', 'xy': 'xy_j_to_mn'}
INV = {'fringe': 'nm_to_fringe', 'ansi': 'nm_to_ansi_j'}


class Notes:
    """At most one recorded violation per signature per case (one defect must not produce thousands)."""

    def __init__(self, R):
        self.R, self.seen = R, set()

    def check(self, cond, sig, msg):
        self.R.checks += 1
        if not cond and sig not in self.seen:
            self.seen.add(sig)
            self.R.violation(sig, msg() if callable(msg) else msg)
        return bool(cond)


def run_block(case, seed, R):
    conv, a, b = case['conv'], case['row0'], case['row1']
    fn = FWD[conv]
    f = getattr(pp, fn)
    inv = getattr(pp, INV[conv]) if conv in INV else None
    want = table(conv, a, b)
    j0 = first_index(conv, a)
    N = Notes(R)
    got = []
    prev_n = None
    if conv == 'noll' and j0 > 1:
        ok, pn, _ = as_pair(R.call(f, j0 - 1, hygiene=False, sig=f'{fn}:exception'))
        prev_n = pn if ok else None
    for i, w in enumerate(want):
        j = j0 + i
        out = R.call(f, j, hygiene=False, sig=f'{fn}:exception')
        if out is FAILED:
            continue
        ok, n, m = as_pair(out)
        if not N.check(ok, f'{fn}:type', lambda: f'{fn}({j}) returned {out!r}, not a pair of integers'):
            continue
        got.append((n, m))
        N.check(is_valid(conv, n, m), f'{fn}:invalid-order', lambda: f'{fn}({j}) = {(n, m)} is not a valid order')
        if (n, m) != w:
            if conv == 'xy':
                cls = 'degree' if n + m != w[0] + w[1] else 'position'
            else:
                cls = 'n' if n != w[0] else ('m-sign' if abs(m) == abs(w[1]) else 'm')
            N.check(False, f'{fn}:value:{cls}', lambda: f'{fn}({j}) = {(n, m)}, published order has {w}')
        else:
            R.checks += 1
        if conv == 'noll':
            N.check(m == 0 or (m > 0) == (j % 2 == 0), f'{fn}:parity-rule', lambda: f'noll_to_nm({j}) = {(n, m)}: even index <-> cosine (m>0) violated')
            N.check(prev_n is None or n >= prev_n, f'{fn}:n-decreases', lambda: f'noll_to_nm({j}) has n={n} after n={prev_n} at {j - 1}')
            prev_n = n
        if conv == 'ansi':
            N.check(2 * j == n * (n + 2) + m, f'{fn}:closed-form', lambda: f'ansi_j_to_nm({j}) = {(n, m)} but (n(n+2)+m)/2 = {(n * (n + 2) + m) / 2}')
        if inv is not None:
            # inverse on the published order (independent of the forward map) and round trip on the forward output
            jj = as_int(R.call(inv, w[0], w[1], hygiene=False, sig=f'{INV[conv]}:exception'))
            N.check(jj == j, f'{INV[conv]}:value', lambda: f'{INV[conv]}{w} = {jj!r}, expected {j}')
            if (n, m) != w:
                jr = as_int(R.call(inv, n, m, hygiene=False, sig=f'{INV[conv]}:exception'))
                N.check(jr == j, f'{INV[conv]}:roundtrip', lambda: f'{INV[conv]}(*{fn}({j})) = {jr!r}')
        if a == 0:
            # numpy integer spelling of the same index
            ok2, n2, m2 = as_pair(R.call(f, np.int64(j), hygiene=False, sig=f'{fn}:int64:exception'))
            N.check(ok2 and (n2, m2) == (n, m), f'{fn}:int64', lambda: f'{fn}(np.int64({j})) = {(n2, m2)} but {fn}({j}) = {(n, m)}')
    if len(got) == len(want):
        img = set(got)
        N.check(len(img) == len(got), f'{fn}:not-injective', lambda: f'{fn} maps two indices of [{j0}, {j0 + len(want)}) to the same order')
        vs = valid_set(conv, a, b)
        N.check(img == vs, f'{fn}:not-surjective',
                lambda: f'image of [{j0}, {j0 + len(want)}) is not the set of valid orders of rows [{a}, {b}): missing {sorted(vs - img)[:5]}, extra {sorted(img - vs)[:5]}')
    R.nontrivial(b > 1)
    R.outcome(conv)


def run_rows(case, seed, R):
    """every valid (n,m) of the radial orders [a, b) through nm_to_fringe / nm_to_ansi_j and back."""
    a, b = case['n0'], case['n1']
    N = Notes(R)
    for n in range(a, b):
        for m in range(-n, n + 1, 2):
            am = abs(m)
            g = (n + am) // 2
            jf = g * g + 1 + 2 * (g - am) + (1 if m < 0 else 0)
            ja = (n * (n + 2) + m) // 2
            for name, back, jw in (('nm_to_fringe', 'fringe_to_nm', jf), ('nm_to_ansi_j', 'ansi_j_to_nm', ja)):
                out = R.call(getattr(pp, name), n, m, hygiene=False, sig=f'{name}:exception')
                j = as_int(out)
                if out is FAILED or not N.check(j is not None, f'{name}:type', lambda: f'{name}({n},{m}) returned {out!r}, not an integer'):
                    continue
                N.check(j == jw, f'{name}:value', lambda: f'{name}({n},{m}) = {j}, expected {jw}')
                ok, n2, m2 = as_pair(R.call(getattr(pp, back), j, hygiene=False, sig=f'{back}:exception'))
                N.check(ok and (n2, m2) == (n, m), f'{back}:roundtrip', lambda: f'{back}({name}({n},{m}) = {j}) = {(n2, m2)}')
    R.nontrivial(b > 1)
    R.outcome('rows')


# ---------------------------------------------------------------------------------------------
# call histories: the maps must be functions of their argument only (no memo tables / hints left by earlier calls)

HIST_SMALL = 120
HIST_LARGE = [500, 5051, 50177]


@functools.lru_cache(None)
def _ref_table(conv, jmax):
    """dict j -> published order for every index up to jmax, by brute-force enumeration."""
    rows = 1
    while first_index(conv, rows) <= jmax:
        rows += 1
    return dict(enumerate(table(conv, 0, rows), start=first_index(conv, 0)))


def _hist_alphabet(conv):
    j0 = first_index(conv, 0)
    return list(range(j0, HIST_SMALL + 1)) + HIST_LARGE


def _prime(f, conv, jmax):
    """Unjudged fixed prefix of every history case: the largest index, then the first one.  Whatever state a map keeps between calls
    (grow-only memo tables, a hint left by the last call) is thereby the same at the start of every execution of the case, so that a
    case replays identically (the explorer's determinism gate) even on a stateful implementation."""
    try:
        f(jmax)
        f(first_index(conv, 0))
    except Exception:   # noqa -- judged inside the case proper
        pass


def run_history_pairs(case, seed, R):
    """one first index j1, EVERY second index j2 of the alphabet: f(j1); f(j2) -- in this process, nothing reloaded or cleared."""
    conv, j1 = case['conv'], case['first']
    fn = FWD[conv]
    f = getattr(pp, fn)
    ref = _ref_table(conv, max(HIST_LARGE))
    N = Notes(R)

    def rel(a, b):
        return 'after-higher' if a > b else ('after-lower' if a < b else 'after-same')
    _prime(f, conv, max(HIST_LARGE))
    prev = first_index(conv, 0)
    for j2 in _hist_alphabet(conv):
        for j, before in ((j1, prev), (j2, j1)):
            out = R.call(f, j, hygiene=False, sig=f'{fn}:exception')
            if out is FAILED:
                continue
            ok, n, m = as_pair(out)
            N.check(ok and (n, m) == ref[j], f'{fn}:history:{rel(before, j)}',
                    lambda: f'{fn}({j}) called right after {fn}({before}) returned {out!r}; the published order has {ref[j]}')
        prev = j2
    R.nontrivial()
    R.outcome('pairs:' + conv)


def run_history_sweep(case, seed, R):
    """ascending, then descending, then ascending again over every index up to J, in this process."""
    conv, J = case['conv'], case['J']
    fn = FWD[conv]
    f = getattr(pp, fn)
    ref = _ref_table(conv, J)
    j0 = first_index(conv, 0)
    N = Notes(R)
    _prime(f, conv, J)
    for name, seq in (('ascending', range(j0, J + 1)), ('descending', range(J, j0 - 1, -1)), ('ascending-again', range(j0, J + 1)),
                      ('stride-7-wrap', [j0 + (k * 7919) % (J - j0 + 1) for k in range(J - j0 + 1)])):
        for j in seq:
            out = R.call(f, j, hygiene=False, sig=f'{fn}:exception')
            if out is FAILED:
                continue
            ok, n, m = as_pair(out)
            N.check(ok and (n, m) == ref[j], f'{fn}:history:sweep:{name}', lambda: f'{fn}({j}) in the {name} sweep returned {out!r}; the published order has {ref[j]}')
    R.nontrivial()
    R.outcome('sweep:' + conv)


# ---------------------------------------------------------------------------------------------
# argument forms: python int, numpy int32, numpy int64 (indices routinely come out of np.arange / array shapes)

FORMS = {'int': int, 'int32': np.int32, 'int64': np.int64, 'float': float, 'float64': np.float64}
INT_FORMS = ('int', 'int32', 'int64')
# Integer-valued floats are accepted by every map of the pinned tree except noll_to_nm (bitwise parity test on the index) and the m
# argument of nm_to_name (same parity helper); refusing a non-integer *type* for an index is what Python itself does, the property
# quantifies over integers -- those two combinations are left out of the alphabet (stated in the rule), all others must keep working.
FWD_FORMS = {'ansi': tuple(FORMS), 'fringe': tuple(FORMS), 'xy': tuple(FORMS), 'noll': INT_FORMS}


def as_pair_value(out):
    """(ok, a, b) -- a pair of integer-VALUED real numbers (float forms may hand floats through), compared by value."""
    if out is FAILED:
        return False, None, None
    try:
        if len(out) != 2:
            return False, None, None
        vals = []
        for v in out:
            if isinstance(v, (bool, np.bool_)) or not isinstance(v, (int, float, np.integer, np.floating)) or v != int(v):
                return False, None, None
            vals.append(int(v))
        return True, vals[0], vals[1]
    except Exception:   # noqa
        return False, None, None


def as_int_value(out):
    if out is FAILED or isinstance(out, (bool, np.bool_)) or not isinstance(out, (int, float, np.integer, np.floating)):
        return None
    try:
        return int(out) if out == int(out) else None
    except Exception:   # noqa
        return None



def run_forms_forward(case, seed, R):
    conv, form, j0, j1 = case['conv'], case['form'], case['j0'], case['j1']
    fn = FWD[conv]
    f = getattr(pp, fn)
    cast = FORMS[form]
    ref = _ref_table(conv, 2 * j1 + 10)
    N = Notes(R)
    for j in range(max(j0, first_index(conv, 0)), j1):
        out = R.call(f, cast(j), hygiene=False, sig=f'{fn}:{form}:exception')
        if out is FAILED:
            continue
        ok, n, m = as_pair(out) if form in INT_FORMS else as_pair_value(out)
        N.check(ok and (n, m) == ref[j], f'{fn}:{form}', lambda: f'{fn}({form}({j})) returned {out!r}; the published order has {ref[j]}')
    R.nontrivial()
    R.outcome('forms:' + conv)


def run_forms_inverse(case, seed, R):
    fn_, fm_, a, b = case['form_n'], case['form_m'], case['n0'], case['n1']
    cn, cm = FORMS[fn_], FORMS[fm_]
    N = Notes(R)
    for n in range(a, b):
        for m in range(-n, n + 1, 2):
            am = abs(m)
            g = (n + am) // 2
            want = {'nm_to_fringe': g * g + 1 + 2 * (g - am) + (1 if m < 0 else 0), 'nm_to_ansi_j': (n * (n + 2) + m) // 2}
            for name, jw in want.items():
                out = R.call(getattr(pp, name), cn(n), cm(m), hygiene=False, sig=f'{name}:{fn_},{fm_}:exception')
                if out is FAILED:
                    continue
                j = as_int(out) if (fn_ in INT_FORMS and fm_ in INT_FORMS) else as_int_value(out)
                N.check(j == jw, f'{name}:{fn_},{fm_}', lambda: f'{name}({fn_}({n}), {fm_}({m})) returned {out!r}, expected {jw}')
            # nm_to_name is a pure index function too: its answer must not depend on the integer type of its arguments
            # (the names themselves are not part of C11; only form-invariance is judged)
            if (fn_, fm_) != ('int', 'int') and fm_ in INT_FORMS:
                base = R.call(pp.nm_to_name, n, m, hygiene=False, sig='nm_to_name:int,int:exception')
                out = R.call(pp.nm_to_name, cn(n), cm(m), hygiene=False, sig=f'nm_to_name:{fn_},{fm_}:exception')
                if base is not FAILED and out is not FAILED:
                    N.check(isinstance(out, str) and out == base, f'nm_to_name:{fn_},{fm_}', lambda: f'nm_to_name({fn_}({n}), {fm_}({m})) = {out!r} but {base!r} for python ints')
    R.nontrivial(b > 1)
    R.outcome('forms:inverse')


def run_forms_zero(case, seed, R):
    """m = 0 spelled as a signed floating zero (what -abs(m) gives for float orders): still the m = 0 term."""
    fn_, a, b = case['form_n'], case['n0'], case['n1']
    cn = FORMS[fn_]
    zeros = {'-0.0': -0.0, '+0.0': 0.0, 'float64(-0.0)': np.float64(-0.0), '-abs(0.0)': -abs(0.0), '-np.abs(float64(0))': -np.abs(np.float64(0.0)),
             '-abs(float32(0))': -abs(np.float32(0.0))}
    N = Notes(R)
    for n in range(a + (a % 2), b, 2):
        g = n // 2
        want = {'nm_to_fringe': g * g + 1 + 2 * g, 'nm_to_ansi_j': (n * (n + 2)) // 2}
        for zn, z in zeros.items():
            for name, jw in want.items():
                out = R.call(getattr(pp, name), cn(n), z, hygiene=False, sig=f'{name}:signed-zero:exception')
                if out is FAILED:
                    continue
                N.check(as_int_value(out) == jw, f'{name}:signed-zero', lambda: f'{name}({fn_}({n}), {zn}) returned {out!r}; (n, 0) has index {jw}')
            base = R.call(pp.nm_to_name, n, 0, hygiene=False, sig='nm_to_name:int,int:exception')
            out = R.call(pp.nm_to_name, cn(n), z, hygiene=False, sig='nm_to_name:signed-zero:exception')
            if base is not FAILED and out is not FAILED:
                N.check(isinstance(out, str) and out == base, 'nm_to_name:signed-zero', lambda: f'nm_to_name({fn_}({n}), {zn}) = {out!r} but {base!r} for m = 0')
    R.nontrivial()
    R.outcome('forms:zero')


def blocks(conv, J, size):
    """Row-aligned blocks covering every index up to the end of the row containing J."""
    out = []
    a = 0
    last = J if conv != 'ansi' else J     # ansi is 0-based; covering j <= J as well
    while first_index(conv, a) <= last:
        b = a
        cnt = 0
        while cnt < size and first_index(conv, b) <= last:
            cnt += row_count(conv, b)
            b += 1
        out.append({'conv': conv, 'row0': a, 'row1': b})
        a = b
    return out


def plan(tier, seed):
    J = 100_000 if tier == 'quick' else 2_000_000
    NR = 400 if tier == 'quick' else 1500
    size = 2000 if tier == 'quick' else 4000
    cases = []
    per = {}
    for conv in ('ansi', 'fringe', 'noll', 'xy'):
        bl = blocks(conv, J, size)
        per[conv] = (first_index(conv, bl[-1]['row1']) - 1, bl[-1]['row1'] - 1)
        cases += bl
    # interleave the expensive conventions (noll, xy cost ~ sqrt(j) per call) evenly over the workers
    cases.sort(key=lambda c: (c['row0'] * (2 if c['conv'] == 'fringe' else 1), c['conv']))
    row_cases = []
    a = 0
    while a <= NR:
        b = a
        cnt = 0
        while cnt < size and b <= NR:
            cnt += b + 1
            b += 1
        row_cases.append({'n0': a, 'n1': b})
        a = b
    hp_cases = [{'conv': c, 'first': j} for j in range(0, HIST_SMALL + 1) for c in FWD if j >= first_index(c, 0)] + \
        [{'conv': c, 'first': j} for j in HIST_LARGE for c in FWD]
    JS = 10_000 if tier == 'quick' else 100_000
    hs_cases = [{'conv': c, 'J': JS} for c in ('ansi', 'fringe', 'noll', 'xy')]
    JF = 2000 if tier == 'quick' else 20000
    NF = 60 if tier == 'quick' else 150
    ff_cases = [{'conv': c, 'form': fm, 'j0': j, 'j1': min(j + 500, JF + 1)} for c in ('ansi', 'fringe', 'noll', 'xy') for fm in FWD_FORMS[c] for j in range(0, JF + 1, 500)]
    fz_cases = [{'form_n': f1, 'n0': 0, 'n1': NF + 1} for f1 in FORMS]
    fi_cases = [{'form_n': f1, 'form_m': f2, 'n0': a, 'n1': min(a + 20, NF + 1)} for f1 in FORMS for f2 in FORMS for a in range(0, NF + 1, 20)]
    cover = ', '.join(f'{c}: j <= {per[c][0]} (rows <= {per[c][1]})' for c in per)
    return [
        ScopeUnit('index_blocks', cases, run_block,
                  f'EVERY single index of Noll, Fringe, ANSI (from 0) and XY up to the end of the row containing {J} [{cover}], cut into row-aligned blocks of ~{size} '
                  'indices; per index: integer types, validity, equality with the brute-force published order, Noll parity and monotone n, ANSI closed form, '
                  'inverse maps; per block: injective and onto the complete set of valid orders of its rows; non-trivial beyond the first row'),
        ScopeUnit('history_pairs', hp_cases, run_history_pairs,
                  f'depth-2 call histories over the index alphabet [first..{HIST_SMALL}] + {HIST_LARGE} for each of the four forward maps: EVERY ordered pair (j1, j2), f(j1) then f(j2) in one '
                  'process without reloading or clearing anything; both answers must equal the brute-force published order (a map that keeps memo tables / search hints between calls fails here)'),
        ScopeUnit('history_sweeps', hs_cases, run_history_sweep,
                  f'per map, in one process: every index up to {JS} ascending, then descending, then ascending again, then in a scattered (stride 7919 mod J) order; every answer against the published order', chunk=1),
        ScopeUnit('forms_forward', ff_cases, run_forms_forward,
                  f'argument forms: every index j <= {JF} of the forward maps given as python int, np.int32, np.int64, integer-valued python float and np.float64 (noll_to_nm: the three '
                  'integer types only -- it refuses float-typed indices on the pinned tree, as Python indexing does; not part of the alphabet); the answer, compared by value, must be the '
                  'published order; an exception is a violation'),
        ScopeUnit('forms_inverse', fi_cases, run_forms_inverse,
                  f'argument forms: every valid (n,m) with n <= {NF} through nm_to_fringe and nm_to_ansi_j with n and m independently given as python int, np.int32, np.int64, python float, '
                  'np.float64 (all 25 combinations; negative float m is exactly what -abs(m) yields for float orders) against exact integer closed forms, by value; nm_to_name (a pure index '
                  'function) must return the same string as for python ints for every form with an integer-typed m (float-typed m is refused by the pinned tree and left out)'),
        ScopeUnit('forms_zero', fz_cases, run_forms_zero,
                  f'm = 0 spelled as a signed floating zero (-0.0, +0.0, np.float64(-0.0), -abs(0.0), -np.abs(np.float64(0)), -abs(np.float32(0))) for every even n <= {NF} in every form of n: '
                  'nm_to_fringe / nm_to_ansi_j must return the index of (n, 0), nm_to_name the name of (n, 0)'),
        ScopeUnit('nm_rows', row_cases, run_rows,
                  f'every valid (n,m) with n <= {NR}: nm_to_fringe and nm_to_ansi_j against exact integer closed forms, and fringe_to_nm / ansi_j_to_nm of the result returns (n,m)'),
    ]
