"""C12 -- Interferogram data, mask and coordinates stay coherent over any history.

Explicit-state exploration: breadth-first search over sequences of real public ``Interferogram``
methods on real objects.  A state is the event history that reaches it (replayed on a fresh
object); states are merged by ``canon``.  After EVERY event

* ``check``      judges the state:  x, y, r, t (as a user would read them *now*) have the data's shape,
                 x / y step by the current dx along their own axis and are constant along the other,
                 (r, t) are hypot / arctan2 of the current (x, y); every reported statistic equals the
                 plain-numpy value on the valid samples, rms^2 = std^2 + mean^2, Sa <= std <= PV;
* ``step_check`` judges the transition against the reference model of that event (validity set,
                 data relation, piston / tilt / power / crop laws), using ``summary`` taken just before.

Observer effect: reading x / y / r / t populates lazy caches, i.e. *is* an event (read_x ... read_t
are in the alphabet).  The oracle therefore never reads a public coordinate of the explored object:
populated caches are inspected privately (``_x`` ...), unpopulated ones are read on a deepcopy.

A state whose coordinates are incoherent is an error state: it is reported at the transition that
produced it and is not expanded further (standard for explicit-state checkers; everything reachable
only through an error state is the same defect again).  So every signature names the event that broke
the state: ``coords:<what>:<event>``.

Units: ``histories`` (all 24 initial states, depth 3 quick / 4 thorough) and ``histories_deep`` (four of the
initial states, one level deeper: depth 4 quick / 5 thorough).

The origin of the coordinates after ``crop`` is path dependent in the code (sliced if cached,
re-centred if regenerated later); the property does not constrain it and neither does this oracle.
"""
import copy
import hashlib

import numpy as np

from mc import HistoryUnit, FAILED
from mc.linalg import dense
from mc.state import reset_executors

from prysm.interferogram import Interferogram
from prysm import util as putil

ID = 'C12'
ASSUMPTIONS = [
    'the "power" term of remove_power is the one the method documents: rho^2 on the per-axis normalised grid '
    'linspace(-1, 1, n), fitted together with a constant; the "tilt" term of remove_tiptilt is span{x, y} of the '
    'object\'s own current coordinates, without a constant',
    'an interferogram without any valid sample has no defined statistics (the statistics oracle is skipped there); '
    'filter() is only defined for calibrated (dx > 0), fully valid data',
    'wavelength, intensity, meta and the interpolator caches are constants of the exploration (no event in the '
    'alphabet touches them), so they are not part of the canonical state',
]

EPS = float(np.finfo(float).eps)
READS = ('read_x', 'read_y', 'read_r', 'read_t')


# ---------------------------------------------------------------------------------------------
# alphabet

EVENTS = ['read_x', 'read_y', 'read_r', 'read_t', 'crop', ['pad', 1], ['pad', [1, 2]],
          ['mask', 'circle'], ['mask', 'half'], ['fill', 0.0], ['spike_clip', 1.5],
          'remove_piston', 'remove_tiptilt', 'remove_power', 'recenter', ['latcal', 2.0], 'strip_latcal',
          ['filter', 0.5]]
# read-only queries ("reading between steps"): they may populate the lazy caches exactly like read_r / read_t do, and must
# change nothing else -- data, validity, dx and every coordinate a user would read stay bit-for-bit what they were
QUERIES = ['pvr', ['pvr_r', 0.8], 'psd', 'bandlimited_rms', ['tis', 0.6328], 'slope', 'str', 'slices']
EVENTS = EVENTS + QUERIES
QUERY_NAMES = tuple(q if isinstance(q, str) else q[0] for q in QUERIES)
EXTRA_THOROUGH = [['pad0', 1]]      # pad(0.0, samples=1): a *valid* border
# second-object dimension (unit ``forks``): ``fork`` takes other = ifg.copy() and goes on with the original,
# ``fork_swap`` goes on with the copy and keeps the original as the frozen one; once per history, at any position
FORKS = ['fork', 'fork_swap']
# before the fork: the events that decide what the caches look like when the copy is taken (unpopulated / x,y only /
# all four / views into larger arrays after crop / rebound by pad, latcal) and whether a later crop is off-centre
PRE_FORK = ['read_x', 'read_r', 'crop', ['mask', 'half'], ['pad', 1], 'recenter', ['latcal', 2.0]]
# after the fork: every mutator of the alphabet (one pad variant) plus one read
POST_FORK = ['crop', ['pad', 1], ['mask', 'circle'], ['mask', 'half'], ['fill', 0.0], ['spike_clip', 1.5],
             'remove_piston', 'remove_tiptilt', 'remove_power', 'recenter', ['latcal', 2.0], 'strip_latcal',
             ['filter', 0.5], 'read_r', 'pvr', ['pvr_r', 0.8], 'bandlimited_rms']


# restricted alphabet of the size-threshold unit ``large`` (every mutator whose cost or algorithm may depend on the sample count)
LARGE_EVENTS = ['remove_piston', 'remove_tiptilt', 'remove_power', 'crop', ['mask', 'circle'], ['spike_clip', 1.5], ['fill', 0.0],
                'read_r', ['pad', 1]]


def ev_name(ev):
    return ev if isinstance(ev, str) else ev[0]


def ev_arg(ev):
    return None if isinstance(ev, str) else ev[1]


def build_mask(kind, shape):
    """Keep-masks made from sample indices only (never from the object's coordinates)."""
    n0, n1 = shape
    I, J = np.indices((n0, n1))
    if kind == 'circle':
        rad = min(n0, n1) / 2 - 0.2
        return (I - n0 // 2) ** 2 + (J - n1 // 2) ** 2 <= rad * rad
    if kind == 'half':      # slanted half-plane: removes the columns >= n1//2 + 2 entirely (crop then moves the centre
        # sample for even and for 7-wide arrays) and the lower half of column n1//2 + 1 (a slanted, ragged edge)
        return (J - n1 // 2) + 0.25 * (I - n0 // 2) <= 0.9
    raise ValueError(kind)


# ---------------------------------------------------------------------------------------------
# initial states

_DATA = {}


def make_data(init, seed):
    key = (tuple(init['shape']), init['nan'], seed)
    if key not in _DATA:
        _DATA[key] = _make_data(init, seed)
    return _DATA[key].copy()


def _make_data(init, seed):
    n0, n1 = init['shape']
    I, J = np.indices((n0, n1)).astype(float)
    u = (J - n1 // 2 + 0.25) / 3.0
    v = (I - n0 // 2 - 0.4) / 3.0
    z = -0.3 + 0.4 * u - 0.3 * v + 0.6 * (u * u + v * v) + 0.25 * u * v
    z = z + 0.06 * dense((n0, n1), seed, salt=12, complex_=False)
    pat = init['nan']
    if pat == 'circle':
        z[~build_mask('circle', (n0, n1))] = np.nan
    elif pat == 'ragged':
        # first row and last two columns entirely invalid: the bounding box is off-centre for every parity, so
        # crop moves the centre sample (recenter after crop is not a no-op); plus a ragged rim
        z[0, :] = np.nan
        z[:, -2:] = np.nan
        z[::2, -3] = np.nan
        z[-1, 0] = np.nan
        z[1, :2] = np.nan
    elif pat == 'dropout':
        z[n0 // 2, n1 // 2] = np.nan
        z[1, 2] = np.nan
        z[n0 // 2 - 1, n1 // 2 + 1] = np.nan
    elif pat != 'none':
        raise ValueError(pat)
    return z


class St:
    __slots__ = ('ifg', 'dead', 'other', 'mode', 'snap', 'scale', 'qval')

    def __init__(self, ifg):
        self.ifg = ifg          # the primary object: every event is applied to it
        self.dead = False       # the last event raised: nothing more is defined for this object
        self.other = None       # second object after a fork: never touched again, judged in every state
        self.mode = None        # None | 'fork' (other = the copy) | 'fork_swap' (other = the original, primary = the copy)
        self.snap = None        # what ``other`` reported at the moment of the fork
        self.scale = 1.0        # magnitude of the initial data (the canonical state rounds data relative to it)
        self.qval = None        # what the last read-only query returned


def fresh(init, seed):
    z = make_data(init, seed) * float(init.get('scale', 1.0))
    lay = init.get('layout', 'C')
    if lay == 'F':          # column-major buffer, as a transposed map or a Fortran-ordered reader would hand over
        z = np.asfortranarray(z)
    elif lay == 'view':     # a window into a larger frame with a reversed row stride: non-contiguous, ravel() copies
        big = np.full((z.shape[0] + 2, 2 * z.shape[1] + 1), 7.0)
        big[1:-1, 1::2][::-1] = z
        z = big[1:-1, 1::2][::-1]
    st = St(Interferogram(z, dx=init['dx']))
    st.scale = float(init.get('scale', 1.0))
    return st


# ---------------------------------------------------------------------------------------------
# observing coordinates without disturbing the lazy caches

class _Err:
    def __init__(self, msg):
        self.msg = msg


def visible(ifg):
    """What a user reading .x .y .r .t *now* would get -- without populating anything on ``ifg``."""
    out = {}
    probe = None
    for k in 'xyrt':
        a = getattr(ifg, '_' + k, None)
        if a is None:
            try:
                if probe is None:
                    probe = copy.deepcopy(ifg)
                a = getattr(probe, k)
            except Exception as e:   # noqa -- a getter that raises is a wrong output, judged by the caller
                a = _Err(f'{type(e).__name__}: {e}')
        out[k] = a
    return out


def _isnum(v):
    return isinstance(v, (int, float, np.integer, np.floating)) and not isinstance(v, bool) and np.isfinite(v)


def coord_verdicts(ifg, vis=None):
    """[(key, ok, msg)] -- the coordinate clauses of the property for one state."""
    out = []
    data = ifg.data
    if not isinstance(data, np.ndarray) or data.ndim != 2:
        return [('data:type', False, f'data is not a 2-D ndarray: {type(data).__name__}')]
    shape = data.shape
    dx = ifg.dx
    if not _isnum(dx):
        return [('dx:type', False, f'dx is not a finite real number: {dx!r}')]
    dx = float(dx)
    vis = vis or visible(ifg)
    good = {}
    for k in 'xyrt':
        a = vis[k]
        if isinstance(a, _Err):
            out.append((f'{k}:exception', False, f'reading .{k} raised {a.msg}'))
        elif not isinstance(a, np.ndarray) or a.dtype.kind not in 'fiu':
            out.append((f'{k}:shape', False, f'.{k} is not a real ndarray: {type(a).__name__}'))
        else:
            good[k] = a
            out.append((f'{k}:shape', a.shape == shape, f'.{k} has shape {a.shape}, data has shape {shape}'))
    for k, ax in (('x', 1), ('y', 0)):
        a = good.get(k)
        if a is None or a.shape != shape or a.size == 0:
            continue
        tol = 8 * EPS * max(float(np.max(np.abs(a))), abs(dx))
        along = np.diff(a, axis=ax)
        across = np.diff(a, axis=1 - ax)
        ok = bool(np.all(np.isfinite(a))) and bool(np.all(np.abs(along - dx) <= tol)) and bool(np.all(np.abs(across) <= tol))
        msg = ''
        if not ok:
            step = along.ravel()[0] if along.size else None
            msg = (f'.{k} is not spaced by the current dx={dx} along axis {ax} / constant along axis {1 - ax}: '
                   f'first step {step}, max |step-dx| {float(np.max(np.abs(along - dx))) if along.size else 0:.3e}, '
                   f'max variation across {float(np.max(np.abs(across))) if across.size else 0:.3e}')
        out.append((f'{k}:spacing', ok, msg))
    if all(k in good for k in 'xyrt') and good['x'].shape == good['y'].shape:
        x, y, r, t = (good[k] for k in 'xyrt')
        rref, tref = np.hypot(x, y), np.arctan2(y, x)
        if r.shape != rref.shape or t.shape != rref.shape:
            ok, msg = False, f'r, t have shapes {r.shape}, {t.shape} but the current x, y have shape {rref.shape}'
        else:
            tolr = 8 * EPS * max(float(np.max(rref)) if rref.size else 0.0, 1e-300)
            dt = np.abs(np.angle(np.exp(1j * (t - tref))))
            er = np.abs(r - rref)
            ok = bool(np.all(er <= tolr)) and bool(np.all(dt <= 64 * EPS))
            msg = '' if ok else (f'(r, t) are not the polar coordinates of the current (x, y): max |r - hypot(x,y)| = '
                                 f'{float(np.nanmax(er)):.3e} (r[0,0]={r.ravel()[0]}, hypot={rref.ravel()[0]}), '
                                 f'max |t - arctan2(y,x)| = {float(np.nanmax(dt)):.3e}')
        out.append(('polar', ok, msg))
    return out


# ---------------------------------------------------------------------------------------------
# transitions

def apply(st, ev, R):
    if st.dead:
        return st
    ifg = st.ifg
    name, arg = ev_name(ev), ev_arg(ev)
    sig = f'{name}:exception'
    if name in READS:
        # hygiene off: recenter is documented to adjust x, y (in place), so "an array returned earlier changed" is no finding here
        out = R.call(getattr, ifg, name[-1], sig=sig, hygiene=False)
    elif name in FORKS:
        out = R.call(ifg.copy, sig=sig)
        if out is not FAILED:
            if not isinstance(out, Interferogram) or out is ifg:
                R.violation('fork:copy-type', f'copy() returned {type(out).__name__}{" (the object itself)" if out is ifg else ""}')
                out = FAILED
            else:
                st.mode = name
                if name == 'fork':
                    st.other = out
                else:
                    st.other, st.ifg = ifg, out
                st.snap = snapshot(st.other)
    elif name == 'crop':
        out = R.call(ifg.crop, sig=sig)
    elif name == 'pad':
        out = R.call(ifg.pad, samples=arg if isinstance(arg, int) else tuple(arg), sig=sig)
    elif name == 'pad0':
        out = R.call(ifg.pad, 0.0, samples=arg, sig=sig)
    elif name == 'mask':
        out = R.call(ifg.mask, build_mask(arg, np.shape(ifg.data)), sig=sig)
    elif name == 'fill':
        out = R.call(ifg.fill, arg, sig=sig)
    elif name == 'spike_clip':
        out = R.call(ifg.spike_clip, arg, sig=sig)
    elif name == 'latcal':
        out = R.call(ifg.latcal, arg, sig=sig)
    elif name == 'filter':
        out = R.call(ifg.filter, arg / (2 * ifg.dx), 'lowpass', sig=sig)     # arg = fraction of Nyquist
    elif name in ('remove_piston', 'remove_tiptilt', 'remove_power', 'recenter', 'strip_latcal'):
        out = R.call(getattr(ifg, name), sig=sig)
    elif name == 'pvr':
        out = R.call(ifg.pvr, sig=sig)
    elif name == 'pvr_r':
        # an ABSOLUTE radius (1.2 for the 0.5-spaced initial grids): the same number is asked again after latcal / crop / pad have
        # changed the grid, as a user comparing maps over one fixed aperture would
        out = R.call(ifg.pvr, arg * 1.5, sig=sig)
    elif name in ('psd', 'slope'):
        out = R.call(getattr(ifg, name), sig=sig)
    elif name == 'bandlimited_rms':
        out = R.call(ifg.bandlimited_rms, flow=0.1 / ifg.dx, fhigh=0.45 / ifg.dx, sig=sig)
    elif name == 'tis':
        out = R.call(ifg.total_integrated_scatter, arg, sig=sig)
    elif name == 'str':
        out = R.call(str, ifg, sig=sig, hygiene=False)
    elif name == 'slices':
        out = R.call(ifg.slices, sig=sig)
        if out is not FAILED:
            for k in ('x', 'y'):
                if R.call(getattr, out, k, sig=f'slices:{k}:exception', hygiene=False) is FAILED:
                    out = FAILED
    else:
        raise ValueError(f'unknown event {ev!r}')
    if out is FAILED:
        st.dead = True
    st.qval = out if name in QUERY_NAMES else None
    return st


def _query(obj, name, arg):
    if name == 'pvr':
        return obj.pvr()
    if name == 'pvr_r':
        return obj.pvr(arg * 1.5)
    if name == 'psd':
        return obj.psd()
    if name == 'bandlimited_rms':
        return obj.bandlimited_rms(flow=0.1 / obj.dx, fhigh=0.45 / obj.dx)
    if name == 'tis':
        return obj.total_integrated_scatter(arg)
    if name == 'slope':
        return obj.slope()
    if name == 'slices':
        return obj.slices()
    raise ValueError(name)


def _qflat(v):
    """the numbers a query reported, as a flat list of arrays"""
    if isinstance(v, (tuple, list)):
        return [a for w in v for a in _qflat(w)]
    if hasattr(v, 'data') and isinstance(getattr(v, 'data'), np.ndarray):
        return [np.asarray(v.data, dtype=float)]
    if hasattr(v, 'x') and hasattr(v, 'y') and not isinstance(v, np.ndarray):      # Slices
        return [np.asarray(v.x[1], dtype=float), np.asarray(v.y[1], dtype=float)]
    return [np.asarray(v, dtype=float)]


def _alphabet(tier):
    return EVENTS + (EXTRA_THOROUGH if tier == 'thorough' else [])


def make_events(tier, pre=None, post=None):
    """pre / post: alphabets before / after a fork (fork events are offered iff ``post`` is given)."""
    alphabet = _alphabet(tier) if pre is None else pre

    def events(init, history, st):
        if st.dead:
            return []
        ifg = st.ifg
        if any(not ok for _, ok, _ in coord_verdicts(ifg)):
            return []                       # error state: reported where it arose, not expanded
        if st.other is not None and any(not ok for _, ok, _ in other_verdicts(st)):
            return []
        data = ifg.data
        out = []
        for ev in (alphabet + FORKS if post is not None else alphabet) if st.mode is None else post:
            if ev_name(ev) == 'filter':
                # an FFT of NaN-bearing data has no defined validity semantics; frequency needs a calibration
                if np.isnan(data).any() or min(data.shape) < 4 or not ifg.dx > 0:
                    continue
            if ev_name(ev) in ('psd', 'bandlimited_rms', 'tis'):
                # spectral queries: defined for calibrated, fully valid data (same domain as filter)
                if np.isnan(data).any() or min(data.shape) < 4 or not ifg.dx > 0:
                    continue
            if ev_name(ev) in ('pvr', 'pvr_r'):
                # the Zernike fit needs a calibrated grid and some valid samples inside the normalisation radius; the default
                # radius is documented for square data only
                if not ifg.dx > 0 or min(data.shape) < 4 or int((~np.isnan(data)).sum()) < 4:
                    continue
                if ev_name(ev) == 'pvr' and data.shape[0] != data.shape[1]:
                    continue
            if ev_name(ev) in ('slope', 'slices') and min(data.shape) < 2:
                continue
            if ev_name(ev) == 'str' and not (~np.isnan(data)).any():
                continue        # __str__ prints statistics, which are undefined without a valid sample (ASSUMPTIONS)
            out.append(ev)
        return out
    return events


# ---------------------------------------------------------------------------------------------
# canonical state

KNOWN_ATTRS = {'data', 'dx', 'wavelength', '_x', '_y', '_r', '_t', '_latcaled', 'interpf_x', 'interpf_y', 'interpf_2d', 'intensity', 'meta'}


def _dig(h, a):
    if a is None:
        h.update(b'None;')
        return
    a = np.asarray(a, dtype=float)
    nan = np.isnan(a)
    h.update(str(a.shape).encode())
    h.update(np.packbits(nan).tobytes())
    h.update((np.round(np.where(nan, 0.0, a), 9) + 0.0).tobytes())      # + 0.0: -0.0 -> 0.0


def canon(st):
    """Everything a later transition or the oracle can read, and nothing else.

    * data values + NaN set + shape: read by every numerical event, by crop / spike_clip / the fits and the statistics.
      Values are rounded to 1e-9 (data are O(1)) so that re-applying an idempotent step merges with its predecessor;
      merging two states 1e-9 apart is harmless: every transition is still judged on its own real object with
      tolerances far below that, only the choice of the representative history that gets extended is affected.
    * dx: read by pad (-> latcal(self.dx)), filter, regenerated grids and the spacing invariant.
    * _latcaled: read by __str__ only; kept because it is cheap and part of the anchored calibration state.
    * which of _x/_y/_r/_t are populated, their shapes AND their values: crop / recenter / strip_latcal branch on
      populated-ness; remove_tiptilt fits span{x, y} WITHOUT a constant, so the (path dependent) origin of a cached,
      sliced grid changes its result; filter reads r; the invariants compare all four.
    * after a fork: which of the two objects is the frozen one (fork / fork_swap) and the same fields of the frozen
      object -- the oracle reads them in every later state, and an implementation that shares arrays between the two
      can make later transitions of the primary depend on them.
    Not included: wavelength, intensity, meta, interpf_* -- constants of the exploration.
    """
    if st.dead:
        return 'dead'
    h = hashlib.sha1()
    for obj in (st.ifg, st.other):
        if obj is None:
            h.update(b'no-fork')
            continue
        _dig(h, obj.data if st.scale == 1.0 else np.asarray(obj.data, dtype=float) / st.scale)
        h.update(repr((float(obj.dx) if _isnum(obj.dx) else repr(obj.dx), bool(obj._latcaled))).encode())
        for k in ('_x', '_y', '_r', '_t'):
            _dig(h, getattr(obj, k, None))
        # anything else an implementation hangs on the instance (a memo of a fit, of slices, of a window ...) can be read by a later
        # transition, so it is part of the state: on the pinned tree there is no such attribute and nothing changes in the merging
        for k in sorted(set(vars(obj)) - KNOWN_ATTRS):
            v = vars(obj)[k]
            h.update(k.encode())
            if isinstance(v, np.ndarray):
                h.update(str(v.shape).encode() + np.ascontiguousarray(v).tobytes())
            else:
                try:
                    h.update(repr(sorted(v.items()) if isinstance(v, dict) else v)[:2000].encode())
                except Exception:   # noqa
                    h.update(str(type(v)).encode())
    h.update(repr(st.mode).encode())
    return h.hexdigest()


# ---------------------------------------------------------------------------------------------
# reference model of one transition

def snapshot(ifg):
    vis = visible(ifg)
    return {'data': np.array(ifg.data, dtype=float, copy=True), 'dx': ifg.dx,
            'vis': {k: (np.array(a, copy=True) if isinstance(a, np.ndarray) else a) for k, a in vis.items()}}


def summary(st):
    return None if st.dead else snapshot(st.ifg)


def differences(obj, snap):
    """[(what, ok, msg)]: is everything ``obj`` reports bit-for-bit what the snapshot recorded?"""
    out = []
    d = obj.data
    ok = isinstance(d, np.ndarray) and d.shape == snap['data'].shape and np.array_equal(d, snap['data'], equal_nan=True)
    out.append(('data', bool(ok), 'data differ'))
    out.append(('dx', _isnum(obj.dx) and _isnum(snap['dx']) and float(obj.dx) == float(snap['dx']), f'dx {obj.dx!r} != {snap["dx"]!r}'))
    vis = visible(obj)
    for k in 'xyrt':
        a, b = vis[k], snap['vis'][k]
        if isinstance(a, _Err) or isinstance(b, _Err):
            out.append((k, isinstance(a, _Err) and isinstance(b, _Err), f'reading .{k} raised {getattr(a, "msg", "")}'))
            continue
        ok = isinstance(a, np.ndarray) and isinstance(b, np.ndarray) and a.shape == b.shape and np.array_equal(a, b, equal_nan=True)
        msg = ''
        if not ok:
            try:
                msg = f'.{k} differs: shape {np.shape(a)} vs {np.shape(b)}' if np.shape(a) != np.shape(b) else \
                    f'.{k} differs at {int(np.sum(a != b))} of {a.size} samples, max |change| {float(np.nanmax(np.abs(a - b))):.3e}'
            except Exception:   # noqa
                msg = f'.{k} differs'
        out.append((k, bool(ok), msg))
    return out


def other_verdicts(st):
    """The frozen object of a forked state: still coherent on its own, and bit-for-bit what it was at the fork."""
    o = st.other
    out = [(f'coords:{key}', ok, msg) for key, ok, msg in coord_verdicts(o)]
    if not any(k.startswith('coords:data') for k, _, _ in out):
        out += [(f'changed:{what}', ok, f'the {"copy" if st.mode == "fork" else "original"} was changed by an operation on the '
                                        f'{"original" if st.mode == "fork" else "copy"}: {msg}')
                for what, ok, msg in differences(o, st.snap)]
    return out


def _scale(v):
    v = v[np.isfinite(v)]
    return float(np.max(np.abs(v))) if v.size else 0.0


def _again(st, name, R):
    """Apply the same real method once more, on a copy (the explored object is not disturbed)."""
    twin = copy.deepcopy(st.ifg)
    out = R.call(getattr(twin, name), sig=f'{name}:exception:second-application')
    return None if out is FAILED else twin


def step_check(before, ev, st, R):
    if st.dead or before is None:
        return
    name, arg = ev_name(ev), ev_arg(ev)
    ifg = st.ifg
    if name in FORKS:
        # copy(): both objects report exactly what the one object reported before
        for tag, obj in (('primary', st.ifg), ('other', st.other)):
            for what, ok, msg in differences(obj, before):
                R.expect(ok, f'fork:copy:{what}', f'after copy() the {tag} object of {name}: {msg}')
        R.nontrivial()
        R.outcome(name)
        return
    if name in QUERY_NAMES:
        # a query changes nothing a user can observe (it may populate the lazy caches with the values a read would give)
        for what, ok, msg in differences(ifg, before):
            R.expect(ok, f'query:{name}:{what}', f'the read-only query {name} changed the object: {msg}')
        # ... and what it reports is a function of what the object holds NOW: the same query on a fresh object with the same data,
        # dx and Cartesian coordinates (their origin is path dependent after crop, so they are handed over) reports the same numbers
        if name != 'str' and st.qval is not None:
            bx, by = before['vis']['x'], before['vis']['y']
            if isinstance(bx, np.ndarray) and isinstance(by, np.ndarray):
                twin = Interferogram(before['data'].copy(), dx=before['dx'])
                twin.x, twin.y = bx.copy(), by.copy()
                want = R.call(_query, twin, name, arg, sig=f'query:{name}:fresh-object:exception', hygiene=False)
                if want is not FAILED:
                    try:
                        g, w = _qflat(st.qval), _qflat(want)
                        ok = len(g) == len(w) and all(a.shape == b.shape and np.allclose(a, b, rtol=1e-9, atol=1e-12 * max(_scale(before['data']), 1e-300), equal_nan=True) for a, b in zip(g, w))
                        msg = '' if ok else f'{name} reported {[a.ravel()[:3].tolist() for a in g][:2]}, a fresh object with the same data, dx and coordinates reports {[a.ravel()[:3].tolist() for a in w][:2]}'
                    except Exception as e:   # noqa
                        ok, msg = False, f'uncomparable query results: {type(e).__name__}: {e}'
                    R.expect(ok, f'query:{name}:depends-on-history', msg)
        R.nontrivial()
        R.outcome('query')
        return
    old = before['data']
    new = ifg.data
    if not isinstance(new, np.ndarray) or new.ndim != 2 or new.dtype.kind != 'f':
        R.violation(f'{name}:data-type', f'data after {name} is not a 2-D float ndarray')
        return
    oinv, ninv = np.isnan(old), np.isnan(new)
    osc = _scale(old)
    same_shape = new.shape == old.shape

    # -- dx ---------------------------------------------------------------------------------
    want_dx = {'latcal': arg, 'strip_latcal': 1.0}.get(name, before['dx'])
    R.expect(_isnum(ifg.dx) and float(ifg.dx) == float(want_dx), f'{name}:dx', f'dx after {name} is {ifg.dx!r}, reference model says {want_dx!r}')

    # -- events that must not touch the data at all -------------------------------------------
    if name in READS or name in ('recenter', 'latcal', 'strip_latcal'):
        R.expect_equal(new, old, f'{name}:data', f'{name} changed the data')
        R.outcome(name if name not in READS else 'read')
        return

    if name == 'crop':
        valid = ~oinv
        if not valid.any():
            want = old
        else:
            rows, cols = np.flatnonzero(valid.any(axis=1)), np.flatnonzero(valid.any(axis=0))
            want = old[rows[0]:rows[-1] + 1, cols[0]:cols[-1] + 1]
        R.expect_equal(new, want, 'crop:bbox', 'crop is not the bounding box of the valid samples (every valid sample kept, values untouched)')
        twin = _again(st, 'crop', R)
        if twin is not None:
            R.expect_equal(twin.data, new, 'crop:idempotent', 'crop(crop(.)) != crop(.)')
        R.nontrivial(want.shape != old.shape)
        R.outcome('crop:shrunk' if want.shape != old.shape else 'crop:noop')
        return

    if name in ('pad', 'pad0'):
        add = (arg, arg) if isinstance(arg, int) else tuple(arg)
        want_shape = (old.shape[0] + add[0], old.shape[1] + add[1])
        if not R.expect(new.shape == want_shape, f'{name}:shape', f'pad(samples={arg}) gave shape {new.shape}, want {want_shape}'):
            return
        fillv = np.nan if name == 'pad' else 0.0
        found = False
        for o0 in range(add[0] + 1):
            for o1 in range(add[1] + 1):
                blk = new[o0:o0 + old.shape[0], o1:o1 + old.shape[1]]
                if not np.array_equal(blk, old, equal_nan=True):
                    continue
                border = np.ones(new.shape, bool)
                border[o0:o0 + old.shape[0], o1:o1 + old.shape[1]] = False
                b = new[border]
                if np.all(np.isnan(b)) if name == 'pad' else np.all(b == fillv):
                    found = True
        R.expect(found, f'{name}:embed', 'padded data is not the old array embedded unchanged in a border of the fill value')
        R.nontrivial()
        R.outcome('pad')
        return

    if not R.expect(same_shape, f'{name}:shape', f'{name} changed the shape {old.shape} -> {new.shape}'):
        return
    keep = ~oinv & ~ninv

    if name == 'mask':
        m = build_mask(arg, old.shape)
        R.expect_equal(ninv, oinv | ~m, 'mask:validity', 'invalid set after mask != old invalid set united with the masked-out samples')
        R.expect(np.array_equal(new[keep], old[keep]), 'mask:data', 'mask changed surviving samples')
        R.nontrivial(bool((~m & ~oinv).any()))
        R.outcome('mask:changed' if (~m & ~oinv).any() else 'mask:noop')
        return

    if name == 'fill':
        R.expect_equal(new, np.where(oinv, arg, old), 'fill:data', 'fill did not replace exactly the invalid samples by the fill value')
        R.nontrivial(bool(oinv.any()))
        R.outcome('fill:changed' if oinv.any() else 'fill:noop')
        return

    if name == 'spike_clip':
        v = old[~oinv]
        if v.size:
            thr = arg * float(np.sqrt(np.mean((v - v.mean()) ** 2)))
            with np.errstate(invalid='ignore'):
                clip = ~oinv & (np.abs(old) > thr)
                dontcare = ~oinv & (np.abs(np.abs(old) - thr) <= 1e-12 * (thr + osc))
        else:
            clip = dontcare = np.zeros(old.shape, bool)
        want = oinv | clip
        R.expect(np.array_equal(ninv | dontcare, want | dontcare), 'spike_clip:validity',
                 f'invalid set after spike_clip({arg}) != old invalid set united with |z| > {arg} std(valid): '
                 f'{int(ninv.sum())} invalid, reference {int(want.sum())}')
        R.expect(np.array_equal(new[keep], old[keep]), 'spike_clip:data', 'spike_clip changed surviving samples')
        R.nontrivial(bool(clip.any()))
        R.outcome('spike_clip:changed' if clip.any() else 'spike_clip:noop')
        return

    # -- the remaining events claim to leave validity alone --------------------------------------
    if not R.expect_equal(ninv, oinv, f'{name}:validity', f'{name} changed the set of invalid samples'):
        return
    ok = ~ninv
    nv, ov = new[ok], old[ok]
    if not R.expect(bool(np.all(np.isfinite(nv))), f'{name}:validity', f'{name} produced non-finite values on valid samples'):
        return
    n = int(ok.sum())

    if name == 'filter':
        R.nontrivial()
        R.outcome('filter')
        return

    if n == 0:
        R.outcome(f'{name}:no-valid')
        return
    tol = 256 * EPS * max(osc, 1e-300)

    if name == 'remove_piston':
        R.expect_close(nv, ov - ov.mean(), tol, 'remove_piston:data', 'remove_piston != data - mean(valid)')
        R.expect(abs(float(nv.mean())) <= tol, 'remove_piston:mean', f'mean after remove_piston is {float(nv.mean()):.3e} (data scale {osc:.3e})')
        twin = _again(st, name, R)
        if twin is not None:
            R.expect_close(twin.data, new, tol, 'remove_piston:idempotent', 'second remove_piston changed the data')
        R.nontrivial(n >= 2)
        R.outcome(name)
        return

    if name == 'remove_tiptilt':
        x, y = before['vis']['x'], before['vis']['y']       # the coordinates the object had / would generate at that moment
        if not (isinstance(x, np.ndarray) and isinstance(y, np.ndarray) and x.shape == old.shape == y.shape):
            R.outcome('remove_tiptilt:incoherent-coordinates')
            return
        A = np.stack([x[ok], y[ok]], axis=1)
        d = ov - nv
        # (1) what was removed is a plane through the coordinate origin (no constant)
        c = np.linalg.lstsq(A, d, rcond=None)[0]
        R.expect(float(np.max(np.abs(d - A @ c))) <= 64 * tol, 'remove_tiptilt:removed-term',
                 f'data removed by remove_tiptilt is not in span{{x, y}}: residual {float(np.max(np.abs(d - A @ c))):.3e}')
        # (2) re-fitting the removed term finds nothing: normal equations A^T new = 0
        g = A.T @ nv
        gtol = 4096 * EPS * np.sqrt((A * A).sum(axis=0)) * max(float(np.linalg.norm(ov)), 1e-300) + 1e-300
        R.expect(bool(np.all(np.abs(g) <= gtol)), 'remove_tiptilt:refit',
                 f're-fitting tilt to the result finds something: A^T z = {g.tolist()} > tol {gtol.tolist()}')
        R.observe(g / gtol)
        twin = _again(st, name, R)
        if twin is not None:
            R.expect_close(twin.data, new, 64 * tol, 'remove_tiptilt:idempotent', 'second remove_tiptilt changed the data')
        R.nontrivial(n >= 3 and bool(np.linalg.matrix_rank(A) == 2))
        R.outcome(name)
        return

    if name == 'remove_power':
        n0, n1 = old.shape
        xx, yy = np.meshgrid(np.linspace(-1, 1, n1), np.linspace(-1, 1, n0))
        f = (xx * xx + yy * yy)[ok]
        d = ov - nv
        # (1) what was removed is a multiple of rho^2
        a = float(f @ d) / float(f @ f) if float(f @ f) > 0 else 0.0
        R.expect(float(np.max(np.abs(d - a * f))) <= 64 * tol, 'remove_power:removed-term',
                 f'data removed by remove_power is not a multiple of rho^2: residual {float(np.max(np.abs(d - a * f))):.3e}')
        # (2) re-fitting [rho^2, 1] to the result finds no rho^2
        fc = f - f.mean()
        degenerate = float(np.linalg.norm(fc)) <= 1e-9 * float(np.linalg.norm(f))     # rho^2 indistinguishable from piston
        if not degenerate:
            g = float(fc @ nv)
            gtol = 4096 * EPS * float(np.linalg.norm(f)) * max(float(np.linalg.norm(ov)), 1e-300) * \
                (float(np.linalg.norm(f)) / float(np.linalg.norm(fc)))
            R.expect(abs(g) <= gtol, 'remove_power:refit', f're-fitting power to the result finds something: <rho^2 - mean, z> = {g:.3e} > tol {gtol:.3e}')
            R.observe(g / gtol)
            twin = _again(st, name, R)
            if twin is not None:
                R.expect_close(twin.data, new, 64 * tol * (float(np.linalg.norm(f)) / float(np.linalg.norm(fc))) ** 2,
                               'remove_power:idempotent', 'second remove_power changed the data')
        R.nontrivial(n >= 3 and not degenerate)
        R.outcome(name if not degenerate else 'remove_power:degenerate')
        return

    raise ValueError(f'no reference model for event {ev!r}')


# ---------------------------------------------------------------------------------------------
# state invariants

def check(st, init, history, R):
    if st.dead:
        R.outcome('exception')      # the violation itself was recorded by R.call in apply
        return
    ifg = st.ifg
    last = ev_name(history[-1]) if history else 'init'
    verdicts = coord_verdicts(ifg)
    for key, ok, msg in verdicts:
        R.expect(ok, f'coords:{key}:{last}', msg)
    if any(not ok for _, ok, _ in verdicts):
        R.outcome('incoherent-coordinates')
    if st.other is not None:
        ov = other_verdicts(st)
        for key, ok, msg in ov:
            R.expect(ok, f'fork:{key}:{last}', msg)
        if any(not ok for _, ok, _ in ov):
            R.outcome('fork-disturbed')
        elif last not in FORKS:
            judge_stats(st.other, R, 'fork:stats')
    if any(k.startswith('data') for k, _, _ in verdicts):
        return
    R.nontrivial(ifg.data.size > 1)
    judge_stats(ifg, R, 'stats')


def judge_stats(ifg, R, pre):
    data = ifg.data

    # statistics: plain numpy on the valid samples only
    v = data[~np.isnan(data)]
    dp = R.call(lambda: ifg.dropout_percentage, sig=f'{pre}:dropout_percentage:exception', hygiene=False)   # closures: nothing for the hygiene layer to see
    R.expect_close(dp, 100.0 * (data.size - v.size) / max(data.size, 1), 1e-12 * 100, f'{pre}:dropout_percentage', 'dropout_percentage')
    if v.size == 0:
        R.outcome('no-valid-sample')
        return
    sc = float(np.max(np.abs(v)))
    tol = 64 * EPS * max(sc, 1e-300)
    m = float(v.sum() / v.size)
    ref = {'pv': float(v.max() - v.min()),
           'rms': float(np.sqrt((v * v).sum() / v.size)),
           'std': float(np.sqrt(((v - m) ** 2).sum() / v.size)),
           'Sa': float(np.abs(v - m).sum() / v.size)}
    got = {}
    for k in ('pv', 'rms', 'std', 'Sa'):
        got[k] = R.call(lambda k=k: getattr(ifg, k), sig=f'{pre}:{k}:exception', hygiene=False)
        R.expect_close(got[k], ref[k], tol, f'{pre}:{k}', f'{k} of {v.size} valid / {data.size} samples')
    gm = R.call(putil.mean, data, sig=f'{pre}:mean:exception')
    R.expect_close(gm, m, tol, f'{pre}:mean', f'mean of {v.size} valid / {data.size} samples')
    if all(isinstance(g, (float, np.floating)) and np.isfinite(g) for g in list(got.values()) + [gm]):
        R.expect(abs(got['rms'] ** 2 - (got['std'] ** 2 + gm ** 2)) <= 512 * EPS * max(sc * sc, 1e-300), f'{pre}:rms2=std2+mean2',
                 f"rms^2 = {got['rms'] ** 2} != std^2 + mean^2 = {got['std'] ** 2 + gm ** 2}")
        R.expect(got['Sa'] <= got['std'] + tol and got['std'] <= got['pv'] + tol, f'{pre}:Sa<=std<=PV',
                 f"Sa={got['Sa']} std={got['std']} PV={got['pv']}")


# ---------------------------------------------------------------------------------------------

def plan(tier, seed):
    shapes = [[6, 6], [5, 7], [6, 5]]
    inits = [{'shape': s, 'nan': p, 'dx': dx}
             for p in ('none', 'circle', 'ragged', 'dropout') for s in shapes for dx in (0.5, 0.0)]
    # memory-layout dimension of the initial state (odd x even shape, the fourth parity class): the data buffer handed to the
    # constructor is column-major, or a strided window of a larger frame (in-place steps then act on a non-contiguous array)
    inits += [{'shape': [5, 6], 'nan': p, 'dx': 0.5, 'layout': lay} for lay in ('F', 'view') for p in ('none', 'ragged')]
    # magnitude dimension: the same maps in units in which the heights are ~1e-9 / ~1e7 (every law of the property is
    # homogeneous in the data, and every tolerance of this oracle is relative to the data scale)
    inits += [{'shape': [6, 6], 'nan': p, 'dx': 0.5, 'scale': sc} for sc in (1e-9, 1e7) for p in ('none', 'circle')]
    depth = 3 if tier == 'quick' else 4
    deep = [{'shape': [6, 6], 'nan': 'none', 'dx': 0.5}, {'shape': [5, 7], 'nan': 'ragged', 'dx': 0.5},
            {'shape': [6, 5], 'nan': 'circle', 'dx': 0.0}, {'shape': [6, 6], 'nan': 'dropout', 'dx': 0.5}]
    names = ', '.join(ev if isinstance(ev, str) else f'{ev[0]}({ev[1]})' for ev in _alphabet(tier))
    rule = (f'BFS to depth {depth} over every sequence of the {len(_alphabet(tier))} events [{names}] (filter enabled only on fully valid, calibrated, '
            '>= 4x4 data) from every initial state in shapes {6x6, 5x7, 6x5} x NaN pattern {none, circular aperture, ragged edge, interior '
            'drop-out} x dx {0.5, 0 = uncalibrated}, plus 5x6 data handed over as a column-major buffer / as a strided window of a larger '
            'frame (NaN pattern none, ragged), plus 6x6 data scaled by 1e-9 / 1e7 (NaN pattern none, circle); data = fixed smooth field + seeded texture; states merged by (shape, dx, latcal flag, '
            'populated caches + their values, NaN set, data rounded to 1e-9); coordinate invariants, statistics and the per-event reference '
            'model are evaluated after every event; states with incoherent coordinates or a raised exception are reported and not expanded; '
            'a transition is non-trivial when the array has more than one sample')
    rs = lambda: reset_executors(64)   # noqa
    units = [HistoryUnit('histories', inits, fresh, make_events(tier), apply, check, canon, depth, rule,
                         summary=summary, step_check=step_check, reset=rs)]
    ddepth = depth + 1
    units.append(HistoryUnit('histories_deep', deep, fresh, make_events(tier), apply, check, canon, ddepth,
                             f'the same exploration to depth {ddepth} from four of the initial states (one per NaN pattern, all three shapes, '
                             'calibrated and uncalibrated): ' + ', '.join(f"{d['shape'][0]}x{d['shape'][1]}/{d['nan']}/dx={d['dx']}" for d in deep),
                             summary=summary, step_check=step_check, reset=rs))
    fdepth = 4 if tier == 'quick' else 5
    finits = [i for i in inits if i['dx'] == 0.5 and (tier == 'thorough' or ('layout' not in i and 'scale' not in i))]
    units.append(HistoryUnit('forks', finits, fresh, make_events(tier, PRE_FORK, POST_FORK), apply, check, canon, fdepth,
                             f'second-object dimension, BFS to depth {fdepth} from the {len(finits)} calibrated initial states: histories P* F M* where P = '
                             f'{[ev_name(e) for e in PRE_FORK]} shapes the caches, F in {{fork: other = ifg.copy(), go on with the original; fork_swap: go on '
                             'with the copy, the original is the other}} occurs at most once at any position, M = the mutators + read_r are applied '
                             'to the primary object only; in every state BOTH objects are judged: the primary as in the other units, the other one '
                             'must stay coherent on its own (shape, spacing, polar consistency, statistics) and bit-for-bit what it reported at '
                             'the fork (data, dx, x, y, r, t read without populating its caches); the fork state is part of the canonical state',
                             summary=summary, step_check=step_check, reset=rs))
    # size thresholds: fits / statistics / crops that switch to decimated, blocked or windowed evaluation above a sample count
    large = [{'shape': [130, 129], 'nan': 'ragged', 'dx': 0.5}, {'shape': [300, 301], 'nan': 'circle', 'dx': 0.5},
             {'shape': [1030, 1031], 'nan': 'none', 'dx': 0.5}]
    if tier == 'thorough':
        large += [{'shape': [257, 1030], 'nan': 'dropout', 'dx': 0.5}, {'shape': [1100, 1100], 'nan': 'circle', 'dx': 0.0}]
    units.append(HistoryUnit('large', large, fresh, make_events(tier, LARGE_EVENTS), apply, check, canon, 2,
                             'threshold alphabet of map sizes (16770, 90300 and 1061930 samples: above 2^14, 2^16 and 2^20 and not a multiple '
                             f'of any power of two >= 2^7), BFS to depth 2 over {[ev_name(e) for e in LARGE_EVENTS]} with the same invariants and '
                             'per-event reference models (every sample is judged, the tail of the arrays included); not closed over sizes',
                             summary=summary, step_check=step_check, reset=rs))
    return units
